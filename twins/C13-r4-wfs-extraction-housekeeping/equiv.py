import sys, os; sys.path.insert(0, os.path.join(os.path.dirname(os.path.abspath(__file__)), "src"))
"""
Differential equivalence check for the C13 housekeeping patch (r4-wfs-extraction-modernise).

The functions below named exactly as in the library are VERBATIM copies of the ORIGINAL implementations
(before the patch) of every function the patch touches:

    ibldsp.utils.make_channel_index
    ibldsp.waveform_extraction.extract_wfs_array
    ibldsp.waveform_extraction._make_wfs_table
    ibldsp.waveform_extraction.write_wfs_chunk
    ibldsp.waveform_extraction.extract_wfs_cbin
    ibldsp.waveform_extraction.WaveformsLoader.load_waveforms   (as a module level function taking `self`)

Because they live in this module's namespace, the reference functions call each other (reference
extract_wfs_cbin -> reference _make_wfs_table / write_wfs_chunk / make_channel_index ...), whereas the
library functions reached through `wx.` / `ut.` call the library versions.  Every case is run through both
and results are compared exactly (dtype, shape, values with NaN == NaN, exception type and message, files written).
Exit code 0 if everything is identical, 1 with a message otherwise.
"""
import logging
import shutil
import tempfile
import traceback
from pathlib import Path
from types import SimpleNamespace

os.environ.setdefault("TQDM_DISABLE", "1")  # extract_wfs_array(verbose=True) is exercised: keep the output readable
os.environ["PYTHONPATH"] = os.pathsep.join(
    [os.path.join(os.path.dirname(os.path.abspath(__file__)), "src"), os.environ.get("PYTHONPATH", "")])

import scipy
import scipy.signal
import scipy.spatial
import scipy.stats
import pandas as pd
import numpy as np
from numpy.lib.format import open_memmap
from joblib import Parallel, delayed, cpu_count

import spikeglx
from neuropixel import trace_header
from ibldsp.voltage import detect_bad_channels, interpolate_bad_channels, car, kfilt  # noqa: F401
from ibldsp.fourier import fshift
from iblutil.numerical import ismember

import ibldsp.utils as ut
import ibldsp.waveform_extraction as wx
from ibldsp.waveform_extraction import aggregate_by_clusters, _get_channel_labels  # unchanged by the patch

logger = logging.getLogger("demo_reference")


# --------------------------------------------------------------------------------------------------------
# ORIGINAL implementations (verbatim)
# --------------------------------------------------------------------------------------------------------
def make_channel_index(geom, radius=200.0, pad_val=None):
    """
    Given a neuropixels geometry dict `geom`, returns an array with nc rows
    where the i'th row contains the channel ids that fall within `radius` um
    of channel i. The number of columns is the maximum number of neighbors a
    channel can have and will depend on the geometry and the radius chosen.

    For channels at the edges of the probe which have less than the maximum possible
    number of neighbors, the remaining indices in the row are filled with `pad_val`,
    which defaults to the number of channels (ie. last index + 1).
    """
    neighbors = (
        scipy.spatial.distance.squareform(scipy.spatial.distance.pdist(geom)) <= radius
    )
    n_nbors = np.max(np.sum(neighbors, 0))

    nc = geom.shape[0]
    if pad_val is None:
        pad_val = nc
    channel_idx = np.full((nc, n_nbors), pad_val, dtype=int)
    for c in range(nc):
        ch_idx = np.flatnonzero(neighbors[c, :])
        channel_idx[c, : ch_idx.shape[0]] = ch_idx

    return channel_idx


def extract_wfs_array(
    arr,
    df,
    channel_neighbors,
    trough_offset=42,
    spike_length_samples=128,
    add_nan_trace=False,
    verbose=False,
):
    """
    Extract waveforms at specified samples and peak channels
    as a stack.

    :param arr: Array of traces. (nc, ns). The last trace of the array should be a
        row of non-data NaNs. If this has not been added set the `add_nan_trace` flag.
    :param df: df containing "sample" and "peak_channel" columns.
    :param channel_neighbors: Channel neighbor matrix (nc, nx)
    :param trough_offset: Number of samples to include before peak.
    (defaults to 42)
    :param spike_length_samples: Total length of wf in samples.
    (defaults to 128)
    :param add_nan_trace: Whether to add a row of nan's as the last trace.
        (If False, code assumes this has already been added)
    """
    # This is to do fast index assignment to assign missing channels (out of the probe) to nan
    if add_nan_trace:
        newcol = np.empty((1, arr.shape[1]))
        newcol[:] = np.nan
        arr = np.vstack([arr, newcol])

    # check that the spike window is included in the recording:
    last_idx = df["sample"].iloc[-1]
    assert (
        last_idx + (spike_length_samples - trough_offset) < arr.shape[1]
    ), f"Spike index {last_idx} extends past end of recording ({arr.shape[1]} samples)."

    nwf = len(df)

    # Get channel indices
    cind = channel_neighbors[df["peak_channel"].to_numpy()]

    # Get sample indices
    sind = df["sample"].to_numpy()[:, np.newaxis] + (
        np.arange(spike_length_samples) - trough_offset
    )
    nchan = cind.shape[1]

    wfs = np.zeros((nwf, nchan, spike_length_samples), arr.dtype)
    fun = range
    if verbose:
        try:
            from tqdm import trange

            fun = trange
        except ImportError:
            pass
    for i in fun(nwf):
        wfs[i, :, :] = arr[:, sind[i]][cind[i], :]

    return wfs, cind, trough_offset


def _make_wfs_table(
    sr,
    spike_samples,
    spike_clusters,
    spike_channels,
    max_wf=256,
    trough_offset=42,
    spike_length_samples=128,
    seed=None
):
    """
    Given a recording `sr` and spike detections, pick up to `max_wf`
    waveforms uniformly for each unit and return their times, peak channels,
    and unit assignments.

    :return: wf_flat, unit_ids Dataframe of waveform information and unit ids.
    """
    # exclude spikes without a buffer on either end
    # of recording
    allowed_idx = (spike_samples > trough_offset) & (
        spike_samples < sr.ns - (spike_length_samples - trough_offset)
    )
    rng = np.random.default_rng(seed=seed)  # numpy 1.23.5

    unit_ids = np.unique(spike_clusters)
    nu = unit_ids.shape[0]

    # this array contains the (up to) max_wf *indices* of the wfs
    # we are going to extract for that unit
    unit_wf_idx = np.full((nu, max_wf), -1, int)
    unit_nspikes = np.zeros(nu, int)
    for i, u in enumerate(unit_ids):
        u_spikeidx = np.where((spike_clusters == u) & allowed_idx)[0]
        nspikes = u_spikeidx.shape[0]
        unit_nspikes[i] = nspikes
        # uniformly select up to 500 spikes
        u_wf_idx = rng.choice(u_spikeidx, min(max_wf, nspikes), replace=False)
        unit_wf_idx[i, : min(max_wf, nspikes)] = u_wf_idx

    # all wf indices in order
    wf_idx = np.sort(unit_wf_idx.flatten())
    # remove the padding
    wf_idx = wf_idx[wf_idx >= 0]

    # get sample times, clusters, channels
    wf_flat = pd.DataFrame(
        {
            "index": np.arange(wf_idx.shape[0]),
            "sample": spike_samples[wf_idx].astype(np.int64),
            "cluster": spike_clusters[wf_idx].astype(int),
            "peak_channel": spike_channels[wf_idx].astype(int),
            "waveform_index": np.zeros(wf_idx.shape[0], int),
        }
    )

    # we pre-compute the final absolute indices of each waveform
    unique_clusters, cluster_index, cluster_counts = np.unique(
        wf_flat["cluster"], return_inverse=True, return_counts=True)
    index_order_clusters = np.argsort(cluster_index, kind='stable')
    wf_flat.loc[index_order_clusters, 'waveform_index'] = np.arange(wf_flat.shape[0])  # 3d "flat" version
    return wf_flat, unit_ids


def write_wfs_chunk(
    i_chunk,
    cbin,
    wfs_mmap,
    geom_dict,
    channel_labels,
    channel_neighbors,
    wf_flat,
    sr_sl,
    chunksize_samples,
    trough_offset,
    spike_length_samples,
    reader_kwargs,
    preprocess_steps,
):
    """
    Parallel job to extract waveforms from chunk `i_chunk` of a recording `sr` and
    write them to the correct spot in the output .npy file `wfs_fn`.
    """
    if len(wf_flat) == 0:
        return

    my_sr = spikeglx.Reader(cbin, **reader_kwargs)
    s0, s1 = sr_sl

    if i_chunk == 0:
        offset = 0
    else:
        offset = trough_offset

    sample = wf_flat["sample"].astype(int) + offset - i_chunk * chunksize_samples
    peak_channel = wf_flat["peak_channel"]

    df = pd.DataFrame({"sample": sample, "peak_channel": peak_channel})

    snip = my_sr[
        s0 - offset:s1 + spike_length_samples - trough_offset, :-my_sr.nsync
    ].T

    if "butterworth" in preprocess_steps:
        butter_kwargs = {"N": 3, "Wn": 300 / my_sr.fs * 2, "btype": "highpass"}
        sos = scipy.signal.butter(**butter_kwargs, output="sos")
        snip = scipy.signal.sosfiltfilt(sos, snip)

    if "phase_shift" in preprocess_steps:
        snip = fshift(snip, geom_dict["sample_shift"], axis=-1)

    if "bad_channel_interpolation" in preprocess_steps:
        snip = interpolate_bad_channels(
            snip,
            channel_labels,
            geom_dict["x"],
            geom_dict["y"],
        )

    k_kwargs = {
        "ntr_pad": 60,
        "ntr_tap": 0,
        "lagc": 0,  # no agc for the median estimator of common reference channel
        "butter_kwargs": {"N": 3, "Wn": 0.01, "btype": "highpass"},
    }
    if "car" in preprocess_steps:
        car_func = lambda dat: car(dat, **k_kwargs)  # noqa: E731
        snip = car_func(snip)

    if "kfilt" in preprocess_steps:
        kfilt_func = lambda dat: kfilt(dat, **k_kwargs)  # noqa: E731
        snip = kfilt_func(snip)
    iw = wf_flat['waveform_index'].values
    wfs_mmap[iw, :, :] = extract_wfs_array(
        snip, df, channel_neighbors, trough_offset=trough_offset,
        spike_length_samples=spike_length_samples, add_nan_trace=True
    )[0]


def extract_wfs_cbin(
    bin_file,
    output_dir,
    spike_samples,
    spike_clusters,
    spike_channels,
    h=None,
    channel_labels=None,
    max_wf=256,
    trough_offset=42,
    spike_length_samples=128,
    chunksize_samples=int(3000),
    reader_kwargs=None,
    n_jobs=None,
    wfs_dtype=np.float32,
    preprocess_steps=None,
    seed=None,
    scratch_dir=None,
):
    """
    Given a bin file and locations of spikes, extract waveforms for each unit, compute
    the templates, and save the results in `output_path`. If preprocess=True, the waveforms
    come from chunks of raw data which are phase-corrected to account for the ADC, high-pass
    filtered in time with an order 3 Butterworth filter with a 300Hz cutoff, and a common-average
    reference procedure is applied in the spatial dimension.

    The following files will be generated:
    - waveforms.traces.npy: `(total_waveforms, nc, spike_length_samples)`
        This file contains the lightly processed waveforms indexed by cluster in the first
        dimension. By default `max_wf=256, nc=40, spike_length_samples=128`.

    - waveforms.templates.npy: `(num_units, nc, spike_length_samples)`
        This file contains the median across individual waveforms for each unit.

    - waveforms.channels.npz: `(num_units * max_wf, nc)`
        The i'th row contains the ordered indices of the `nc`-channel neighborhood used
        to extract the i'th waveform. A NaN means the waveform is missing because the
        unit it was supposed to come from has less than `max_wf` spikes total in the
        recording.

    - waveforms.table.pqt: `num_units * max_wf` rows
        For each waveform, gives the absolute sample number from the recording (i.e.
        where to find it in `spikes.samples`), peak channel, cluster, and linear index.
        A row of -1s implies that the waveform is missing because the unit is was supposed
        to come from has less than `max_wf` spikes total.

    Parameters:
    :param bin_file: Path to cbin or bin file to be read by spikeglx.Reader
    :param output_dir: Folder where waveform extraction files will be saved
    :param spike_samples: Spike times in samples
    :param spike_clusters: Spike cluster labels
    :param spike_channels: Peak channel around which to extract waveform for each spike
    :param h: Geometry header file for probe (default: NP1)
    :param channel_labels: Array of channel labels used for bad channel interpolation
        (0: good, 1: dead, 2: noisy, 3: out of brain). If not set and preprocess=True,
        channel detection will be run in this function.
    :param max_wf: Max number of waveforms to extract per cluster (default: 256)
    :param trough_offset: Location of peak in spike, in samples (default: 42)
    :param spike_length_samples: Number of samples to extract per spike (default: 128)
    :param chunksize_samples: Length of chunk to process at a time in samples (default: 3000)
    :param reader_kwargs: Kwargs to pass to spikeglx.Reader()
    :param n_jobs: Number of parallel jobs to run. By default it will use 3/4 of available CPUs.
    :param wfs_dtype: Data type of raw waveforms saved (default np.float32)
    :param preprocess: Preprocessing options to apply, list which must be a subset of
        ["phase_shift", "bad_channel_interpolation", "butterworth", "car", "kfilt"]
        By default a butterworth 300Hz high-pass and the rephasing of the channels is perfomed
    """
    n_jobs = n_jobs or int(cpu_count() / 2)
    preprocess_steps = ['butterworth', 'phase_shift'] if preprocess_steps is None else preprocess_steps
    reader_kwargs = {} if reader_kwargs is None else reader_kwargs

    assert set(preprocess_steps).issubset(
        {
            "phase_shift",
            "bad_channel_interpolation",
            "butterworth",
            "car",
            "kfilt"
        }
    )

    if "car" in preprocess_steps and "kfilt" in preprocess_steps:
        raise ValueError("Must choose car or kfilt spatial filter")

    sr = spikeglx.Reader(bin_file, **reader_kwargs)
    if h is None:
        h = sr.geometry

    if sr.is_mtscomp:
        bin_file = sr.decompress_to_scratch(scratch_dir=scratch_dir)
        sr = spikeglx.Reader(bin_file, **reader_kwargs)
        file_to_unlink = bin_file
    else:
        file_to_unlink = None

    s0_arr = np.arange(0, sr.ns, chunksize_samples)
    s1_arr = s0_arr + chunksize_samples
    s1_arr[-1] = sr.ns

    # selects spikes from throughout the recording for each unit
    wf_flat, unit_ids = _make_wfs_table(
        sr,
        spike_samples,
        spike_clusters,
        spike_channels,
        max_wf,
        trough_offset,
        spike_length_samples,
        seed,
    )
    num_chunks = s0_arr.shape[0]

    logger.info(f"Chunk size samples: {chunksize_samples}")
    logger.info(f"Num chunks: {num_chunks}")

    if channel_labels is None and "bad_channel_interpolation" in preprocess_steps:
        logger.info("Running channel detection")
        channel_labels = _get_channel_labels(sr)
    elif channel_labels is None:
        channel_labels = np.zeros(sr.nc - sr.nsync)

    nwf = wf_flat.shape[0]
    nu = unit_ids.shape[0]
    logger.info(f"Extracting {nwf} waveforms from {nu} units")

    #  get channel geometry
    geom = np.c_[h["x"], h["y"]]
    channel_neighbors = make_channel_index(geom)
    nc = channel_neighbors.shape[1]

    # this intermediate memmap is written to in parallel
    # the waveforms are ordered only by their chronological position
    # in the recording, as we are reading them in time chunks
    traces_fn = output_dir.joinpath("waveforms.traces.npy")
    wfs = open_memmap(
        traces_fn, mode="w+", shape=(nwf, nc, spike_length_samples), dtype=np.float32
    )

    slices = [
        slice(*(np.searchsorted(wf_flat["sample"], [s0_arr[i], s1_arr[i]]).astype(int)))
        for i in range(num_chunks)
    ]

    _ = Parallel(n_jobs=n_jobs)(
        delayed(write_wfs_chunk)(
            i,
            bin_file,
            wfs,
            h,
            channel_labels,
            channel_neighbors,
            wf_flat.iloc[slices[i]],
            (s0_arr[i], s1_arr[i]),
            chunksize_samples,
            trough_offset,
            spike_length_samples,
            reader_kwargs,
            preprocess_steps,
        )
        for i in range(num_chunks)
    )

    # output files
    templates_fn = output_dir.joinpath("waveforms.templates.npy")
    table_fn = output_dir.joinpath("waveforms.table.pqt")
    channels_fn = output_dir.joinpath("waveforms.channels.npz")

    ## rearrange dataframe: sort waveforms by cluster and aggregate by cluster
    wf_flat.sort_values(by=["cluster", "sample"], inplace=True)
    df_clusters = aggregate_by_clusters(wf_flat)

    # we want to store the index of the waveform within each cluster to facilitate loading later
    wf_flat['index_within_clusters'] = np.ones(wf_flat.shape[0])
    inewc = np.diff(wf_flat['cluster'].values, prepend=wf_flat['cluster'].values[0]) != 0
    wf_flat.loc[inewc, 'index_within_clusters'] = - df_clusters['count'].values[:-1] + 1
    wf_flat['index_within_clusters'] = np.cumsum(wf_flat['index_within_clusters'].values).astype(int) - 1

    # store medians across waveforms
    wfs_templates = np.full((nu, nc, spike_length_samples), np.nan, dtype=np.float32)
    logger.info("Writing to output files")
    wfs = open_memmap(traces_fn)
    for i, rec in enumerate(df_clusters.itertuples()):
        wfs_templates[i] = np.nanmedian(wfs[rec.first_index:rec.last_index + 1], axis=0)
    # save templates
    np.save(templates_fn, wfs_templates)
    # save the waveform table

    wf_flat.to_parquet(table_fn)

    # save channel map for each waveform
    # these values are now reordered so that they match the pqt
    # and the traces file
    peak_channel = np.nan_to_num(wf_flat["peak_channel"].to_numpy(), nan=-1).astype(np.int16)
    chan_map = channel_neighbors[peak_channel.astype(int)]
    np.savez(channels_fn, channels=chan_map)
    # clean up the cached bin file
    if file_to_unlink is not None:
        file_to_unlink.with_suffix(".meta").unlink()
        file_to_unlink.unlink()


def load_waveforms(self, labels=None, indices=None, return_info=True, flatten=False):
    """
    Returns a specified subset of waveforms from the dataset.

    :param labels: (list, NumPy array) Label ids (usually clusters) from which to get waveforms.
    :param indices: (list, NumPy array) Waveform indices to grab for each waveform 1D.
    :param return_info: If True, returns waveforms, table, channels, where table is a DF containing
        information about the waveforms returned, and channels is the channel map for each waveform.
    :param flatten: If True, returns all waveforms stacked along dimension zero, otherwise returns
        array of shape (num_labels, num_indices_per_label, num_channels, spike_length_samples)
    """
    labels = np.array(self.df_clusters.index if labels is None else labels)
    iw, _ = ismember(self.df_wav['cluster'], labels)
    if self.data_version == 1:
        indices = np.array(np.arange(self.max_wf) if indices is None else indices)
        indices = np.tile(indices, (labels.size, 1)) if indices.ndim < 2 else indices
        assert indices.shape[0] == labels.size, \
            "If indices is a 2D-array, the second dimension must match the number of clusters."
        _, iu, _ = np.intersect1d(self.df_clusters.index, labels, return_indices=True)
        assert iu.size == labels.size, "Not all labels found in dataset."
        wfs = self.traces[iu[:, np.newaxis], indices].astype(np.float32)
        if flatten:
            wfs = wfs.reshape(-1, self.nc, self.ns)
    elif self.data_version == 2:
        if indices is not None:
            iw = np.where(iw)[0]
            iw = iw[self.df_wav.loc[iw, 'index_within_clusters'].isin(np.atleast_1d(np.array(indices)))]
        wfs = self.traces[iw].astype(np.float32)
    info = self.df_wav.loc[iw, :].copy()
    channels = self.channels[iw].astype(int)
    n_nan = sum(info["sample"].isna())
    if n_nan > 0:
        logger.info(f"{n_nan} NaN waveforms included in result.")
    if return_info:
        return wfs, info, channels
    else:
        return wfs


# --------------------------------------------------------------------------------------------------------
# comparison machinery
# --------------------------------------------------------------------------------------------------------
class Mismatch(Exception):
    pass


N_CASES = {}
N_RAISED = {}
FAILURES = []


def same(a, b, path="result"):
    """Exact, type-aware, NaN-aware structural comparison; raises Mismatch."""
    if type(a) is not type(b):
        raise Mismatch(f"{path}: type {type(a)} != {type(b)}")
    if isinstance(a, (tuple, list)):
        if len(a) != len(b):
            raise Mismatch(f"{path}: length {len(a)} != {len(b)}")
        for i, (x, y) in enumerate(zip(a, b)):
            same(x, y, f"{path}[{i}]")
    elif isinstance(a, dict):
        if list(a.keys()) != list(b.keys()):
            raise Mismatch(f"{path}: keys differ")
        for k in a:
            same(a[k], b[k], f"{path}[{k!r}]")
    elif isinstance(a, pd.DataFrame):
        if list(a.columns) != list(b.columns):
            raise Mismatch(f"{path}: columns {list(a.columns)} != {list(b.columns)}")
        if list(a.dtypes) != list(b.dtypes):
            raise Mismatch(f"{path}: dtypes {list(a.dtypes)} != {list(b.dtypes)}")
        same(a.index.to_numpy(), b.index.to_numpy(), f"{path}.index")
        if type(a.index) is not type(b.index) or a.index.dtype != b.index.dtype:
            raise Mismatch(f"{path}: index types differ")
        for c in a.columns:
            same(a[c].to_numpy(), b[c].to_numpy(), f"{path}[{c!r}]")
    elif isinstance(a, np.ndarray):  # includes np.memmap
        if a.dtype != b.dtype:
            raise Mismatch(f"{path}: dtype {a.dtype} != {b.dtype}")
        if a.shape != b.shape:
            raise Mismatch(f"{path}: shape {a.shape} != {b.shape}")
        equal_nan = a.dtype.kind in "fc"
        if a.dtype.kind == "O":
            if not all(x is y or x == y or (x != x and y != y) for x, y in zip(a.ravel(), b.ravel())):
                raise Mismatch(f"{path}: object values differ")
        elif not np.array_equal(a, b, equal_nan=equal_nan):
            raise Mismatch(f"{path}: values differ")
        elif a.tobytes() != b.tobytes() and not equal_nan:
            raise Mismatch(f"{path}: bytes differ")
    elif isinstance(a, (np.generic, int, float, str, bool, type(None))):
        if isinstance(a, np.generic) and a.dtype != b.dtype:
            raise Mismatch(f"{path}: scalar dtype differ")
        if not (a == b or (a != a and b != b)):
            raise Mismatch(f"{path}: {a!r} != {b!r}")
    else:
        raise Mismatch(f"{path}: do not know how to compare {type(a)}")


def run(fun, *args, **kwargs):
    try:
        return "ok", fun(*args, **kwargs)
    except Exception as e:  # noqa
        return "exc", (type(e), str(e))


def compare(group, label, ref_fun, new_fun, make_args, post=None):
    """
    Runs both implementations on independently built (identical) arguments and compares outcome and,
    through `post`, side effects. make_args(which) -> (args, kwargs, context)
    """
    N_CASES[group] = N_CASES.get(group, 0) + 1
    try:
        ra, rk, rctx = make_args("ref")
        na, nk, nctx = make_args("new")
        rs, rv = run(ref_fun, *ra, **rk)
        ns, nv = run(new_fun, *na, **nk)
        if rs != ns:
            raise Mismatch(f"outcome {rs}:{rv!r} != {ns}:{nv!r}")
        if rs == "exc":
            N_RAISED[group] = N_RAISED.get(group, 0) + 1
            if os.environ.get("DEMO_VERBOSE"):
                print(f"  both raise [{group}] {label}: {rv[0].__name__}: {rv[1][:100]}")
            if rv[0] is not nv[0]:
                raise Mismatch(f"exception type {rv[0]} != {nv[0]}")
            if rv[1] != nv[1]:
                raise Mismatch(f"exception message {rv[1]!r} != {nv[1]!r}")
        else:
            same(rv, nv)
        if post is not None:
            post(rctx, nctx, rs)
        return rs, rv
    except Mismatch as e:
        FAILURES.append(f"[{group}] {label}: {e}")
    except Exception:  # noqa
        FAILURES.append(f"[{group}] {label}: harness error\n{traceback.format_exc()}")
    return None, None


# --------------------------------------------------------------------------------------------------------
# input generators
# --------------------------------------------------------------------------------------------------------
def geometries():
    hs = {
        "np1": trace_header(version=1),
        "np2": trace_header(version=2),
        "np2.4": trace_header(version=2, nshank=4),
    }
    return hs


def geom_of(h):
    return np.c_[h["x"], h["y"]]


def check_make_channel_index(rng):
    group = "make_channel_index"
    hs = geometries()
    for name, h in hs.items():
        g = geom_of(h)
        for radius in (0.0, 15.0, 20.0, 32.0, 40.0, 75.5, 100.0, 200.0, 200, 250.0, 1000.0, 1e6):
            for pad_val in (None, -1, 384, 0):
                if pad_val == 0 and radius not in (40.0, 200.0):
                    continue
                kw = {} if pad_val is None else {"pad_val": pad_val}
                compare(group, f"{name} r={radius} pad={pad_val}", make_channel_index, ut.make_channel_index,
                        lambda w, g=g, radius=radius, kw=kw: ((g.copy(),), dict(radius=radius, **kw), None))
        compare(group, f"{name} defaults", make_channel_index, ut.make_channel_index,
                lambda w, g=g: ((g.copy(),), {}, None))
        compare(group, f"{name} positional", make_channel_index, ut.make_channel_index,
                lambda w, g=g: ((g.copy(), 60.0, -5), {}, None))
    # random / degenerate geometries
    for i in range(60):
        nc = int(rng.choice([1, 2, 3, 5, 16, 33, 96, 200]))
        kind = i % 4
        if kind == 0:
            g = rng.uniform(0, 500, size=(nc, 2))
        elif kind == 1:
            g = rng.integers(0, 8, size=(nc, 2)) * 20  # duplicates, integer dtype
        elif kind == 2:
            g = rng.uniform(0, 300, size=(nc, 3)).astype(np.float32)
        else:
            g = np.c_[np.zeros(nc), np.arange(nc) * 20.0]
        radius = float(rng.choice([0.0, 10.0, 20.0, 50.0, 200.0, 600.0]))
        pad_val = [None, -1, nc, 7][int(rng.integers(4))]
        kw = {} if pad_val is None else {"pad_val": pad_val}
        compare(group, f"random {i}", make_channel_index, ut.make_channel_index,
                lambda w, g=g, radius=radius, kw=kw: ((g.copy(),), dict(radius=radius, **kw), None))
    # inadmissible inputs: the same exception must come out
    for bad in (np.zeros((0, 2)), np.arange(10.0), [[0.0, 0.0], [0.0, 20.0]], None):
        compare(group, f"bad {type(bad)}", make_channel_index, ut.make_channel_index,
                lambda w, bad=bad: ((bad,), {}, None))
    compare(group, "negative radius", make_channel_index, ut.make_channel_index,
            lambda w: ((geom_of(hs["np1"]),), {"radius": -1.0}, None))
    compare(group, "float pad", make_channel_index, ut.make_channel_index,
            lambda w: ((geom_of(hs["np1"]),), {"pad_val": 2.7}, None))
    compare(group, "nan pad", make_channel_index, ut.make_channel_index,
            lambda w: ((geom_of(hs["np1"]),), {"pad_val": np.nan}, None))


def check_extract_wfs_array(rng):
    group = "extract_wfs_array"
    hs = geometries()
    neighbors = {k: make_channel_index(geom_of(h), radius=r)
                 for (k, h), r in zip(hs.items(), (200.0, 100.0, 200.0))}
    for i in range(220):
        name = list(hs)[i % 3]
        cn = neighbors[name]
        nc = cn.shape[0]
        ns = int(rng.choice([130, 300, 700, 1500]))
        dtype = [np.float32, np.float64, np.int16, np.float16][int(rng.choice(4, p=[.5, .3, .1, .1]))]
        add_nan_trace = bool(rng.integers(2))
        trough_offset, length = [(42, 128), (42, 128), (20, 64), (0, 16), (31, 32), (10, 121)][int(rng.integers(6))]
        if dtype is np.int16:
            arr = rng.integers(-3000, 3000, size=(nc, ns)).astype(np.int16)
        else:
            arr = rng.normal(size=(nc, ns)).astype(dtype)
        if not add_nan_trace:
            if dtype is np.int16:
                arr = np.vstack([arr, np.zeros((1, ns), np.int16)])  # no NaN in integers: a zero row stands in
            else:
                arr = np.vstack([arr, np.full((1, ns), np.nan, dtype=dtype)])
        nwf = int(rng.choice([1, 2, 5, 20, 60]))
        mode = i % 11
        lo, hi = trough_offset, ns - (length - trough_offset) - 1
        if hi < lo:
            hi = lo
        samples = np.sort(rng.integers(lo, hi + 1, size=nwf))
        if mode == 1:  # window starts exactly on the first sample, ends exactly on the last one
            samples[0] = trough_offset
            samples[-1] = ns - (length - trough_offset) - 1
        elif mode == 2:  # last window one sample too long: AssertionError
            samples[-1] = ns - (length - trough_offset)
        elif mode == 3:  # way past the end
            samples[-1] = ns + 50
        elif mode == 4:  # spike before the trough offset (negative indices wrap around: keep as is)
            samples[0] = max(trough_offset - int(rng.integers(1, 10)), 0)
        elif mode == 5:  # duplicates
            samples[:] = samples[0]
        elif mode == 6:  # unsorted: only the last one is checked
            samples = rng.permutation(samples)
        channels = rng.integers(0, nc, size=nwf)
        if mode == 7:
            channels[0], channels[-1] = 0, nc - 1
        df = pd.DataFrame({"sample": samples, "peak_channel": channels})
        if mode == 8:
            df = df.iloc[:0]  # empty table: IndexError
        if mode == 9:
            df.index = df.index + 1000  # as the chunks of a bigger table passed by extract_wfs_cbin
        if mode == 10:
            df["sample"] = df["sample"].astype(np.int32)
        verbose = bool(i % 5 == 0)
        use_kw = bool(i % 2)

        def make(w, arr=arr, df=df, cn=cn, t=trough_offset, n=length, a=add_nan_trace, v=verbose, use_kw=use_kw):
            if use_kw:
                return (arr.copy(), df.copy(), cn.copy()), dict(
                    trough_offset=t, spike_length_samples=n, add_nan_trace=a, verbose=v), None
            return (arr.copy(), df.copy(), cn.copy(), t, n, a, v), {}, None
        compare(group, f"case {i} {name} {np.dtype(dtype)} mode={mode}", extract_wfs_array, wx.extract_wfs_array, make)
    # defaults as in the unit test
    cn = neighbors["np1"]
    arr = np.vstack([rng.normal(size=(384, 1000)).astype(np.float32), np.full((1, 1000), np.nan, np.float32)])
    df = pd.DataFrame({"sample": np.arange(100, 900, 100), "peak_channel": np.arange(12, 384, 50)})
    compare(group, "defaults", extract_wfs_array, wx.extract_wfs_array, lambda w: ((arr.copy(), df.copy(), cn), {}, None))
    compare(group, "missing column", extract_wfs_array, wx.extract_wfs_array,
            lambda w: ((arr.copy(), df[["sample"]].copy(), cn), {}, None))
    compare(group, "channel out of range", extract_wfs_array, wx.extract_wfs_array,
            lambda w: ((arr.copy(), df.assign(peak_channel=400), cn), {}, None))
    compare(group, "nan row missing", extract_wfs_array, wx.extract_wfs_array,
            lambda w: ((arr[:-1].copy(), df.copy(), cn), {}, None))


def random_spikes(rng, ns, nu, mode, trough_offset=42, length=128, nc=384, max_wf=10):
    """spike trains with times at file edges, duplicates across units, unit sizes below/at/above max_wf"""
    sizes = rng.choice([0, 1, max_wf - 1, max_wf, max_wf + 1, 3 * max_wf], size=nu)
    sizes = np.maximum(sizes, 0)
    labels = rng.choice(np.arange(1000), size=nu, replace=False) if mode % 2 else np.arange(nu)
    clusters = np.repeat(labels, sizes)
    n = clusters.size
    samples = rng.integers(0, ns, size=n)
    edge = np.array([0, 1, trough_offset - 1, trough_offset, trough_offset + 1,
                     ns - (length - trough_offset) - 1, ns - (length - trough_offset), ns - (length - trough_offset) + 1,
                     ns - 1])
    edge = edge[(edge >= 0) & (edge < ns)]
    if n > 0:
        k = min(n, edge.size)
        samples[rng.choice(n, k, replace=False)] = edge[:k]
        if mode % 3 == 0 and n > 4:  # duplicate times across units
            samples[rng.choice(n, n // 3, replace=False)] = samples[rng.integers(n)]
    order = np.argsort(samples, kind="stable")
    samples, clusters = samples[order], clusters[order]
    channels = rng.integers(0, nc, size=n)
    if n > 2:
        channels[0], channels[-1] = 0, nc - 1
    return samples, clusters, channels


def check_make_wfs_table(rng):
    group = "_make_wfs_table"
    for i in range(220):
        ns = int(rng.choice([200, 1000, 5000, 38502, 100000]))
        nu = int(rng.choice([1, 2, 3, 7, 20]))
        max_wf = int(rng.choice([1, 2, 5, 10, 25, 256]))
        trough_offset, length = [(42, 128), (42, 128), (20, 64), (0, 16), (31, 32)][int(rng.integers(5))]
        samples, clusters, channels = random_spikes(rng, ns, nu, i, trough_offset, length, max_wf=max_wf)
        mode = i % 9
        if mode == 1:
            samples = samples.astype(np.uint64)
        elif mode == 2:
            samples = samples.astype(np.float64)
        elif mode == 3:
            clusters = clusters.astype(np.uint32)
            channels = channels.astype(np.float32)
        elif mode == 4:  # chunk boundaries of the default chunking
            samples = np.sort(np.r_[samples, np.arange(0, ns, 3000), np.arange(0, ns, 3000)[1:] - 1])
            clusters = np.r_[clusters, np.zeros(samples.size - clusters.size, clusters.dtype)]
            channels = np.r_[channels, np.zeros(samples.size - channels.size, channels.dtype)]
        elif mode == 5 and samples.size:  # unsorted spike times
            p = rng.permutation(samples.size)
            samples, clusters, channels = samples[p], clusters[p], channels[p]
        seed = int(rng.integers(0, 2 ** 31)) if i % 10 else i
        sr = SimpleNamespace(ns=ns)
        use_kw = bool(i % 2)

        def make(w, sr=sr, a=samples, b=clusters, c=channels, m=max_wf, t=trough_offset, n=length, s=seed, use_kw=use_kw):
            if use_kw:
                return (sr, a.copy(), b.copy(), c.copy()), dict(
                    max_wf=m, trough_offset=t, spike_length_samples=n, seed=s), None
            return (sr, a.copy(), b.copy(), c.copy(), m, t, n, s), {}, None
        compare(group, f"case {i} ns={ns} nu={nu} max_wf={max_wf} mode={mode}", _make_wfs_table, wx._make_wfs_table, make)
    # the random generator must be consumed identically: same table for a SeedSequence / Generator-like seeds
    samples, clusters, channels = random_spikes(rng, 30000, 5, 1)
    sr = SimpleNamespace(ns=30000)
    for seed in (0, 1, 12345, [1, 2, 3], np.random.SeedSequence(7)):
        compare(group, f"seed {seed}", _make_wfs_table, wx._make_wfs_table,
                lambda w, seed=seed: ((sr, samples, clusters, channels), dict(
                    max_wf=8, seed=np.random.SeedSequence(7) if isinstance(seed, np.random.SeedSequence) else seed), None))
    compare(group, "defaults but the seed", _make_wfs_table, wx._make_wfs_table,
            lambda w: ((sr, samples, clusters, channels), dict(seed=3), None))
    compare(group, "empty", _make_wfs_table, wx._make_wfs_table,
            lambda w: ((sr, samples[:0], clusters[:0], channels[:0]), dict(seed=3), None))
    compare(group, "length mismatch", _make_wfs_table, wx._make_wfs_table,
            lambda w: ((sr, samples, clusters[:-1], channels), dict(seed=3), None))
    compare(group, "max_wf 0", _make_wfs_table, wx._make_wfs_table,
            lambda w: ((sr, samples, clusters, channels), dict(seed=3, max_wf=0), None))
    compare(group, "lists", _make_wfs_table, wx._make_wfs_table,
            lambda w: ((sr, list(samples), list(clusters), list(channels)), dict(seed=3), None))


def make_bin(path, rng, ns, nc=385, dtype="float32"):
    if dtype == "float32":
        data = rng.normal(scale=20, size=(ns, nc)).astype(np.float32)
    else:
        data = rng.integers(-500, 500, size=(ns, nc)).astype(np.int16)
    data[:, -1] = 0
    data.tofile(path)
    return data


def files_of(folder):
    return sorted(p.name for p in Path(folder).iterdir())


def compare_outputs(rdir, ndir):
    if files_of(rdir) != files_of(ndir):
        raise Mismatch(f"files written {files_of(rdir)} != {files_of(ndir)}")
    for fn in files_of(rdir):
        fr, fn_ = Path(rdir) / fn, Path(ndir) / fn
        if fn.endswith(".npy"):
            if fr.read_bytes() != fn_.read_bytes():
                raise Mismatch(f"{fn}: bytes differ")
            same(np.load(fr), np.load(fn_), fn)
        elif fn.endswith(".npz"):
            zr, zn = np.load(fr), np.load(fn_)
            if list(zr.keys()) != list(zn.keys()):
                raise Mismatch(f"{fn}: keys differ")
            for k in zr.keys():
                same(zr[k], zn[k], f"{fn}[{k}]")
        elif fn.endswith(".pqt"):
            same(pd.read_parquet(fr), pd.read_parquet(fn_), fn)
        else:
            if fr.read_bytes() != fn_.read_bytes():
                raise Mismatch(f"{fn}: bytes differ")


STEP_SETS = [
    [], [], [], ["butterworth", "phase_shift"], None, ["butterworth"], ["phase_shift"], ["car"], ["kfilt"],
    ["butterworth", "phase_shift", "bad_channel_interpolation", "car"], ("phase_shift", "kfilt"),
    ["bad_channel_interpolation"],
]


def check_write_wfs_chunk(rng, workdir):
    """direct calls of the chunk job with an in-memory array standing for the memmap"""
    group = "write_wfs_chunk"
    hs = geometries()
    for i in range(72):
        name = list(hs)[i % 3]
        h = hs[name]
        cn = make_channel_index(geom_of(h))
        ns = int(rng.choice([3000, 5000, 9000]))
        dtype = "float32" if i % 4 else "int16"
        bin_file = workdir / f"chunk_{i}.bin"
        make_bin(bin_file, rng, ns, dtype=dtype)
        reader_kwargs = {"ns": ns, "nc": 385, "nsync": 1, "dtype": dtype}
        trough_offset, length = [(42, 128), (42, 128), (20, 64), (31, 32)][int(rng.integers(4))]
        chunksize = int(rng.choice([500, 1000, 1500, 3000]))
        s0_arr = np.arange(0, ns, chunksize)
        s1_arr = s0_arr + chunksize
        s1_arr[-1] = ns
        i_chunk = [0, len(s0_arr) - 1, int(rng.integers(len(s0_arr)))][i % 3]
        samples, clusters, channels = random_spikes(rng, ns, 4, i, trough_offset, length, max_wf=20)
        # plus spikes on the very boundaries of this chunk
        extra = np.array([s0_arr[i_chunk], s0_arr[i_chunk] + 1, s1_arr[i_chunk] - 1])
        samples = np.r_[samples, extra]
        clusters = np.r_[clusters, np.zeros(3, clusters.dtype)]
        channels = np.r_[channels, np.array([0, 383, 200])]
        o = np.argsort(samples, kind="stable")
        samples, clusters, channels = samples[o], clusters[o], channels[o]
        wf_flat, _ = _make_wfs_table(SimpleNamespace(ns=ns), samples, clusters, channels, 20, trough_offset, length, i)
        sl = slice(*np.searchsorted(wf_flat["sample"], [s0_arr[i_chunk], s1_arr[i_chunk]]).astype(int))
        chunk = wf_flat.iloc[sl]
        if i % 12 == 11:
            chunk = wf_flat.iloc[:0]  # nothing to do: returns None and leaves the output untouched
        steps = STEP_SETS[i % len(STEP_SETS)]
        steps = ['butterworth', 'phase_shift'] if steps is None else steps
        labels = np.zeros(384)
        if "bad_channel_interpolation" in steps:
            labels[rng.choice(384, 6, replace=False)] = 1
        nwf = wf_flat.shape[0]

        def make(w, i_chunk=i_chunk, bin_file=bin_file, h=h, labels=labels, cn=cn, chunk=chunk, s0=s0_arr[i_chunk],
                 s1=s1_arr[i_chunk], chunksize=chunksize, t=trough_offset, n=length, rk=reader_kwargs, steps=steps, nwf=nwf):
            out = np.full((nwf, cn.shape[1], n), -77.0, dtype=np.float32)
            return (i_chunk, bin_file, out, h, labels.copy(), cn.copy(), chunk.copy(), (s0, s1), chunksize, t, n,
                    dict(rk), steps), {}, out

        def post(rout, nout, outcome):
            same(rout, nout, "memmap contents")
        compare(group, f"case {i} {name} chunk {i_chunk} steps={steps}", write_wfs_chunk, wx.write_wfs_chunk, make, post)
        bin_file.unlink()


def check_extract_wfs_cbin_and_loader(rng, workdir):
    group = "extract_wfs_cbin"
    hs = geometries()
    datasets = []
    for i in range(64):
        name = list(hs)[i % 3]
        h = hs[name]
        ns = int(rng.choice([2500, 6000, 10001, 12000]))
        dtype = "float32" if i % 5 else "int16"
        bin_file = workdir / f"rec_{i}.bin"
        make_bin(bin_file, rng, ns, dtype=dtype)
        reader_kwargs = {"ns": ns, "nc": 385, "nsync": 1, "dtype": dtype}
        max_wf = int(rng.choice([1, 3, 10, 25]))
        nu = int(rng.choice([1, 2, 5, 12]))
        trough_offset, length = [(42, 128), (42, 128), (20, 64), (31, 32)][int(rng.integers(4))]
        samples, clusters, channels = random_spikes(rng, ns, nu, i, trough_offset, length, max_wf=max_wf)
        while clusters.size < 4:  # (the runs without any spike are cases 15 and 16)
            samples, clusters, channels = random_spikes(rng, ns, nu + 2, i, trough_offset, length, max_wf=max_wf)
        chunksize = int(rng.choice([500, 777, 1000, 3000, 5000, 10000]))
        # spikes on chunk boundaries
        b = np.arange(0, ns, chunksize)
        b = np.r_[b, b[1:] - 1]
        b = b[(b > trough_offset) & (b < ns - length)]
        if clusters.size:
            samples = np.r_[samples, b]
            clusters = np.r_[clusters, rng.choice(clusters, b.size)]
            channels = np.r_[channels, rng.integers(0, 384, b.size)]
            o = np.argsort(samples, kind="stable")
            samples, clusters, channels = samples[o], clusters[o], channels[o]
        steps = STEP_SETS[i % len(STEP_SETS)]
        kwargs = dict(max_wf=max_wf, trough_offset=trough_offset, spike_length_samples=length,
                      chunksize_samples=chunksize, reader_kwargs=reader_kwargs, n_jobs=[1, 1, 2, 1, 4, 1, 8][i % 7],
                      preprocess_steps=steps, seed=int(rng.integers(2 ** 31)))
        if i % 4:
            kwargs["h"] = h
        if steps is None:
            kwargs.pop("preprocess_steps")
        if steps is not None and "bad_channel_interpolation" in steps:
            labels = np.zeros(384)
            labels[rng.choice(384, 5, replace=False)] = 1
            kwargs["channel_labels"] = labels
        if i % 9 == 0:
            kwargs["wfs_dtype"] = np.float16  # currently ignored: must stay so
        if i == 13:
            kwargs.pop("chunksize_samples")  # default chunk size
        if i == 14:
            kwargs.pop("reader_kwargs")  # meta-less int16 file with the Neuropixel 385 channels layout
            make_bin(bin_file, rng, ns, dtype="int16")
        if i == 15:
            samples, clusters, channels = samples[:0], clusters[:0], channels[:0]  # no spike at all
        if i == 16:
            samples = np.array([0, 5, ns - 1]); clusters = np.array([3, 3, 4]); channels = np.array([1, 2, 3])  # none valid

        def make(w, i=i, bin_file=bin_file, a=samples, b=clusters, c=channels, kwargs=kwargs):
            out = workdir / f"out_{i}_{w}"
            if out.exists():
                shutil.rmtree(out)
            out.mkdir()
            return (bin_file, out, a.copy(), b.copy(), c.copy()), dict(kwargs), out

        def post(rdir, ndir, outcome):
            compare_outputs(rdir, ndir)
        outcome, _ = compare(group, f"case {i} {name} ns={ns} chunk={chunksize} steps={steps} max_wf={max_wf}",
                             extract_wfs_cbin, wx.extract_wfs_cbin, make, post)
        if outcome == "ok":
            datasets.append((workdir / f"out_{i}_ref", workdir / f"out_{i}_new", np.unique(clusters), max_wf))
        bin_file.unlink()

    # invalid parameters: same exception from both
    bin_file = workdir / "rec_bad.bin"
    ns = 3000
    make_bin(bin_file, rng, ns)
    rk = {"ns": ns, "nc": 385, "nsync": 1, "dtype": "float32"}
    samples, clusters, channels = random_spikes(rng, ns, 3, 0)
    bad_calls = {
        "car and kfilt": dict(preprocess_steps=["car", "kfilt"], reader_kwargs=rk),
        "unknown step": dict(preprocess_steps=["destripe"], reader_kwargs=rk),
        "chunk size 0": dict(preprocess_steps=[], reader_kwargs=rk, chunksize_samples=0),
        "no reader kwargs float file": dict(preprocess_steps=[]),
        "string steps": dict(preprocess_steps="car", reader_kwargs=rk),
    }
    for k, kwargs in bad_calls.items():
        def make(w, k=k, kwargs=kwargs):
            out = workdir / f"bad_{k.replace(' ', '_')}_{w}"
            out.mkdir(exist_ok=True)
            return (bin_file, out, samples, clusters, channels), dict(n_jobs=1, seed=1, **kwargs), out
        compare(group, k, extract_wfs_cbin, wx.extract_wfs_cbin, make, lambda r, n, o: compare_outputs(r, n))
    compare(group, "output_dir as str", extract_wfs_cbin, wx.extract_wfs_cbin,
            lambda w: ((bin_file, str(workdir), samples, clusters, channels), dict(n_jobs=1, seed=1, reader_kwargs=rk), None))
    compare(group, "missing file", extract_wfs_cbin, wx.extract_wfs_cbin,
            lambda w: ((workdir / "nope.bin", workdir, samples, clusters, channels), dict(n_jobs=1, reader_kwargs=rk), None))
    bin_file.unlink()

    check_loader(rng, workdir, datasets)


def make_v1_dataset(rng, folder, nu=4, max_wf=6, nc=40, ns=32):
    """the legacy 4d layout (num_units, max_wf, nc, ns) with NaN-padded rows"""
    folder.mkdir()
    traces = rng.normal(size=(nu, max_wf, nc, ns)).astype(np.float16)
    labels = np.sort(rng.choice(50, nu, replace=False))
    nvalid = rng.integers(1, max_wf + 1, size=nu)
    sample = np.full((nu, max_wf), np.nan)
    peak = np.full((nu, max_wf), np.nan)
    for u in range(nu):
        sample[u, :nvalid[u]] = np.sort(rng.integers(100, 10000, nvalid[u]))
        peak[u, :nvalid[u]] = rng.integers(0, 384)
        traces[u, nvalid[u]:] = np.nan
    table = pd.DataFrame({
        "index": np.arange(nu * max_wf), "sample": sample.ravel(), "cluster": np.repeat(labels, max_wf),
        "peak_channel": peak.ravel(), "linear_index": np.arange(nu * max_wf)})
    np.save(folder / "waveforms.traces.npy", traces)
    np.save(folder / "waveforms.templates.npy", np.nanmedian(traces.astype(np.float32), axis=1))
    table.to_parquet(folder / "waveforms.table.pqt")
    np.savez(folder / "waveforms.channels.npz", channels=rng.integers(0, 385, size=(nu * max_wf, nc)).astype(float))
    return labels


def check_loader(rng, workdir, datasets):
    group = "load_waveforms"

    def both(label, wfl_ref, wfl_new, kwargs):
        compare(group, label, lambda **kw: load_waveforms(wfl_ref, **kw), wfl_new.load_waveforms,
                lambda w: ((), dict(kwargs), None))

    for k, (rdir, ndir, labels, max_wf) in enumerate(datasets):
        # the reference implementation reads what the reference wrote, the new one what the new one wrote
        s1, l1 = run(wx.WaveformsLoader, rdir)
        s2, l2 = run(wx.WaveformsLoader, ndir)
        N_CASES[group] = N_CASES.get(group, 0) + 1
        if s1 != s2 or (s1 == "exc" and l1 != l2):
            FAILURES.append(f"[{group}] dataset {k}: loader construction differs {l1} {l2}")
            continue
        if s1 == "exc":
            continue  # e.g. nothing extracted: the same exception on both sides
        calls = [
            {}, {"return_info": False}, {"flatten": True},
            {"labels": labels[:1]}, {"labels": list(labels[::2])}, {"labels": labels[::-1], "indices": np.arange(3)},
            {"labels": labels, "indices": [0]}, {"indices": 0}, {"indices": np.array([max_wf - 1, 0, 10000])},
            {"labels": np.array([99999])}, {"labels": np.r_[labels[:2], 99999], "indices": [1, 2], "return_info": False},
            {"labels": [], "indices": []}, {"labels": int(labels[0])},
            {"labels": labels[:2], "indices": np.arange(4).reshape(2, 2)},
        ]
        for c, kwargs in enumerate(calls):
            if k >= 12 and c % 3 != k % 3:
                continue
            both(f"dataset {k} call {c} {sorted(kwargs)}", l1, l2, kwargs)
        if k < 12:
            compare(group, f"dataset {k} positional", lambda *a: load_waveforms(l1, *a), l2.load_waveforms,
                    lambda w: ((labels[:2], [0, 1], False, True), {}, None))

    for j in range(6):
        folder = workdir / f"v1_{j}"
        nu, max_wf = int(rng.integers(1, 6)), int(rng.integers(2, 8))
        labels = make_v1_dataset(rng, folder, nu=nu, max_wf=max_wf)
        wfl = wx.WaveformsLoader(folder)
        assert wfl.data_version == 1
        calls = [
            {}, {"return_info": False}, {"flatten": True}, {"flatten": True, "return_info": False},
            {"labels": labels[:1]}, {"labels": list(labels[::2]), "indices": [0, 1]},
            {"labels": labels, "indices": np.tile(np.arange(2), (nu, 1))},
            {"labels": labels, "indices": np.tile(np.arange(2), (nu + 1, 1))},  # AssertionError
            {"labels": np.r_[labels, 99999]},  # AssertionError: not all labels found
            {"labels": labels[::-1], "indices": [0]}, {"indices": [max_wf - 1]},
            {"indices": [max_wf + 20]},  # IndexError
            {"labels": int(labels[0])},
        ]
        for c, kwargs in enumerate(calls):
            both(f"v1 dataset {j} call {c} {sorted(kwargs)}", wfl, wfl, kwargs)


def main():
    logging.disable(logging.CRITICAL)
    np.seterr(all="ignore")
    import warnings
    warnings.simplefilter("ignore")
    workdir = Path(tempfile.mkdtemp(prefix="c13_r4_demo_"))
    try:
        check_make_channel_index(np.random.default_rng(1301))
        check_extract_wfs_array(np.random.default_rng(1302))
        check_make_wfs_table(np.random.default_rng(1303))
        check_write_wfs_chunk(np.random.default_rng(1304), workdir)
        check_extract_wfs_cbin_and_loader(np.random.default_rng(1305), workdir)
    finally:
        shutil.rmtree(workdir, ignore_errors=True)
    total = sum(N_CASES.values())
    print("cases per function (of which both sides raised the same exception): "
          + ", ".join(f"{k}: {v} ({N_RAISED.get(k, 0)})" for k, v in N_CASES.items()) + f" - total {total}")
    print(f"library under test: {wx.__file__}")
    if FAILURES:
        print(f"{len(FAILURES)} DIFFERENCES between the original and the refactored implementation:")
        for f in FAILURES[:40]:
            print("  " + f)
        return 1
    if total < 300:
        print("too few cases were run")
        return 1
    print("original and refactored implementations are identical on all cases")
    return 0


if __name__ == "__main__":
    sys.exit(main())
