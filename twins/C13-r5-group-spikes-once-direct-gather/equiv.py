import sys, os; sys.path.insert(0, os.path.join(os.path.dirname(os.path.abspath(__file__)), "src"))
"""
Differential equivalence check for the performance clean-up of the waveform extraction (property C13).

The module below carries a verbatim copy of the ORIGINAL implementation of every function that was changed
(`make_channel_index`, `extract_wfs_array`, `_make_wfs_table`, `extract_wfs_cbin`, `WaveformsLoader.load_waveforms`)
plus the unchanged `write_wfs_chunk`, so that the reference pipeline only ever calls reference code.  The reference
copies keep their original names at the top level of this file: inside demo.py a bare name is the reference, the
refactored code is always reached through the modules (`we.extract_wfs_array`, `utils.make_channel_index`, ...).

Each case runs the reference and the refactored function on the same input and compares the outcomes exactly
(dtype, shape, raw bytes of arrays so that NaN payloads count too, data frames column by column, files written,
log messages, and the exception type when one is raised).  Exit code 0 when everything is identical, 1 otherwise.
"""
import contextlib
import io
import logging
import shutil
import tempfile
import time
import types
import warnings
from pathlib import Path

# the joblib workers are fresh interpreters: they need to find the sources next to this file too
_SRC = os.path.join(os.path.dirname(os.path.abspath(__file__)), "src")
os.environ["PYTHONPATH"] = _SRC + (os.pathsep + os.environ["PYTHONPATH"] if os.environ.get("PYTHONPATH") else "")

import scipy
import scipy.signal
import scipy.spatial
import pandas as pd
import numpy as np
from numpy.lib.format import open_memmap
from joblib import Parallel, delayed, cpu_count

import spikeglx
from neuropixel import trace_header
from ibldsp.voltage import interpolate_bad_channels, car, kfilt
from ibldsp.fourier import fshift
from iblutil.numerical import ismember
import ibldsp.utils as utils
import ibldsp.waveform_extraction as we
from ibldsp.waveform_extraction import aggregate_by_clusters, _get_channel_labels

# the reference copies log to the logger of the module they come from
logger = logging.getLogger("ibldsp.waveform_extraction")


# ---------------------------------------------------------------------------------------------------------------
# verbatim copies of the original implementations (reference)
# ---------------------------------------------------------------------------------------------------------------
def make_channel_index(geom, radius=200.0, pad_val=None):
    """
    Given a neuropixels geometry dict `geom`, returns an array with nc rows
    where the i'th row contains the channel ids that fall within `radius` um
    of channel i. The number of columns is the maximum number of neighbors a
    channel can have and will depend on the geometry and the radius chosen.

    For channels at the edges of the probe which have less than the maximum possible
    number of neighbors, the remaining indices in the row are filled with `pad_val`,
    which defaults to the number of channels (ie. last index + 1).
    """
    neighbors = (
        scipy.spatial.distance.squareform(scipy.spatial.distance.pdist(geom)) <= radius
    )
    n_nbors = np.max(np.sum(neighbors, 0))

    nc = geom.shape[0]
    if pad_val is None:
        pad_val = nc
    channel_idx = np.full((nc, n_nbors), pad_val, dtype=int)
    for c in range(nc):
        ch_idx = np.flatnonzero(neighbors[c, :])
        channel_idx[c, : ch_idx.shape[0]] = ch_idx

    return channel_idx


def extract_wfs_array(
    arr,
    df,
    channel_neighbors,
    trough_offset=42,
    spike_length_samples=128,
    add_nan_trace=False,
    verbose=False,
):
    """
    Extract waveforms at specified samples and peak channels
    as a stack.

    :param arr: Array of traces. (nc, ns). The last trace of the array should be a
        row of non-data NaNs. If this has not been added set the `add_nan_trace` flag.
    :param df: df containing "sample" and "peak_channel" columns.
    :param channel_neighbors: Channel neighbor matrix (nc, nx)
    :param trough_offset: Number of samples to include before peak.
    (defaults to 42)
    :param spike_length_samples: Total length of wf in samples.
    (defaults to 128)
    :param add_nan_trace: Whether to add a row of nan's as the last trace.
        (If False, code assumes this has already been added)
    """
    # This is to do fast index assignment to assign missing channels (out of the probe) to nan
    if add_nan_trace:
        newcol = np.empty((1, arr.shape[1]))
        newcol[:] = np.nan
        arr = np.vstack([arr, newcol])

    # check that the spike window is included in the recording:
    last_idx = df["sample"].iloc[-1]
    assert (
        last_idx + (spike_length_samples - trough_offset) < arr.shape[1]
    ), f"Spike index {last_idx} extends past end of recording ({arr.shape[1]} samples)."

    nwf = len(df)

    # Get channel indices
    cind = channel_neighbors[df["peak_channel"].to_numpy()]

    # Get sample indices
    sind = df["sample"].to_numpy()[:, np.newaxis] + (
        np.arange(spike_length_samples) - trough_offset
    )
    nchan = cind.shape[1]

    wfs = np.zeros((nwf, nchan, spike_length_samples), arr.dtype)
    fun = range
    if verbose:
        try:
            from tqdm import trange

            fun = trange
        except ImportError:
            pass
    for i in fun(nwf):
        wfs[i, :, :] = arr[:, sind[i]][cind[i], :]

    return wfs, cind, trough_offset


def _make_wfs_table(
    sr,
    spike_samples,
    spike_clusters,
    spike_channels,
    max_wf=256,
    trough_offset=42,
    spike_length_samples=128,
    seed=None
):
    """
    Given a recording `sr` and spike detections, pick up to `max_wf`
    waveforms uniformly for each unit and return their times, peak channels,
    and unit assignments.

    :return: wf_flat, unit_ids Dataframe of waveform information and unit ids.
    """
    # exclude spikes without a buffer on either end
    # of recording
    allowed_idx = (spike_samples > trough_offset) & (
        spike_samples < sr.ns - (spike_length_samples - trough_offset)
    )
    rng = np.random.default_rng(seed=seed)  # numpy 1.23.5

    unit_ids = np.unique(spike_clusters)
    nu = unit_ids.shape[0]

    # this array contains the (up to) max_wf *indices* of the wfs
    # we are going to extract for that unit
    unit_wf_idx = np.full((nu, max_wf), -1, int)
    unit_nspikes = np.zeros(nu, int)
    for i, u in enumerate(unit_ids):
        u_spikeidx = np.where((spike_clusters == u) & allowed_idx)[0]
        nspikes = u_spikeidx.shape[0]
        unit_nspikes[i] = nspikes
        # uniformly select up to 500 spikes
        u_wf_idx = rng.choice(u_spikeidx, min(max_wf, nspikes), replace=False)
        unit_wf_idx[i, : min(max_wf, nspikes)] = u_wf_idx

    # all wf indices in order
    wf_idx = np.sort(unit_wf_idx.flatten())
    # remove the padding
    wf_idx = wf_idx[wf_idx >= 0]

    # get sample times, clusters, channels
    wf_flat = pd.DataFrame(
        {
            "index": np.arange(wf_idx.shape[0]),
            "sample": spike_samples[wf_idx].astype(np.int64),
            "cluster": spike_clusters[wf_idx].astype(int),
            "peak_channel": spike_channels[wf_idx].astype(int),
            "waveform_index": np.zeros(wf_idx.shape[0], int),
        }
    )

    # we pre-compute the final absolute indices of each waveform
    unique_clusters, cluster_index, cluster_counts = np.unique(
        wf_flat["cluster"], return_inverse=True, return_counts=True)
    index_order_clusters = np.argsort(cluster_index, kind='stable')
    wf_flat.loc[index_order_clusters, 'waveform_index'] = np.arange(wf_flat.shape[0])  # 3d "flat" version
    return wf_flat, unit_ids


def write_wfs_chunk(
    i_chunk,
    cbin,
    wfs_mmap,
    geom_dict,
    channel_labels,
    channel_neighbors,
    wf_flat,
    sr_sl,
    chunksize_samples,
    trough_offset,
    spike_length_samples,
    reader_kwargs,
    preprocess_steps,
):
    """
    Parallel job to extract waveforms from chunk `i_chunk` of a recording `sr` and
    write them to the correct spot in the output .npy file `wfs_fn`.
    """
    if len(wf_flat) == 0:
        return

    my_sr = spikeglx.Reader(cbin, **reader_kwargs)
    s0, s1 = sr_sl

    if i_chunk == 0:
        offset = 0
    else:
        offset = trough_offset

    sample = wf_flat["sample"].astype(int) + offset - i_chunk * chunksize_samples
    peak_channel = wf_flat["peak_channel"]

    df = pd.DataFrame({"sample": sample, "peak_channel": peak_channel})

    snip = my_sr[
        s0 - offset:s1 + spike_length_samples - trough_offset, :-my_sr.nsync
    ].T

    if "butterworth" in preprocess_steps:
        butter_kwargs = {"N": 3, "Wn": 300 / my_sr.fs * 2, "btype": "highpass"}
        sos = scipy.signal.butter(**butter_kwargs, output="sos")
        snip = scipy.signal.sosfiltfilt(sos, snip)

    if "phase_shift" in preprocess_steps:
        snip = fshift(snip, geom_dict["sample_shift"], axis=-1)

    if "bad_channel_interpolation" in preprocess_steps:
        snip = interpolate_bad_channels(
            snip,
            channel_labels,
            geom_dict["x"],
            geom_dict["y"],
        )

    k_kwargs = {
        "ntr_pad": 60,
        "ntr_tap": 0,
        "lagc": 0,  # no agc for the median estimator of common reference channel
        "butter_kwargs": {"N": 3, "Wn": 0.01, "btype": "highpass"},
    }
    if "car" in preprocess_steps:
        car_func = lambda dat: car(dat, **k_kwargs)  # noqa: E731
        snip = car_func(snip)

    if "kfilt" in preprocess_steps:
        kfilt_func = lambda dat: kfilt(dat, **k_kwargs)  # noqa: E731
        snip = kfilt_func(snip)
    iw = wf_flat['waveform_index'].values
    wfs_mmap[iw, :, :] = extract_wfs_array(
        snip, df, channel_neighbors, trough_offset=trough_offset,
        spike_length_samples=spike_length_samples, add_nan_trace=True
    )[0]


def extract_wfs_cbin(
    bin_file,
    output_dir,
    spike_samples,
    spike_clusters,
    spike_channels,
    h=None,
    channel_labels=None,
    max_wf=256,
    trough_offset=42,
    spike_length_samples=128,
    chunksize_samples=int(3000),
    reader_kwargs=None,
    n_jobs=None,
    wfs_dtype=np.float32,
    preprocess_steps=None,
    seed=None,
    scratch_dir=None,
):
    """
    Given a bin file and locations of spikes, extract waveforms for each unit, compute
    the templates, and save the results in `output_path`. If preprocess=True, the waveforms
    come from chunks of raw data which are phase-corrected to account for the ADC, high-pass
    filtered in time with an order 3 Butterworth filter with a 300Hz cutoff, and a common-average
    reference procedure is applied in the spatial dimension.

    The following files will be generated:
    - waveforms.traces.npy: `(total_waveforms, nc, spike_length_samples)`
        This file contains the lightly processed waveforms indexed by cluster in the first
        dimension. By default `max_wf=256, nc=40, spike_length_samples=128`.

    - waveforms.templates.npy: `(num_units, nc, spike_length_samples)`
        This file contains the median across individual waveforms for each unit.

    - waveforms.channels.npz: `(num_units * max_wf, nc)`
        The i'th row contains the ordered indices of the `nc`-channel neighborhood used
        to extract the i'th waveform. A NaN means the waveform is missing because the
        unit it was supposed to come from has less than `max_wf` spikes total in the
        recording.

    - waveforms.table.pqt: `num_units * max_wf` rows
        For each waveform, gives the absolute sample number from the recording (i.e.
        where to find it in `spikes.samples`), peak channel, cluster, and linear index.
        A row of -1s implies that the waveform is missing because the unit is was supposed
        to come from has less than `max_wf` spikes total.

    Parameters:
    :param bin_file: Path to cbin or bin file to be read by spikeglx.Reader
    :param output_dir: Folder where waveform extraction files will be saved
    :param spike_samples: Spike times in samples
    :param spike_clusters: Spike cluster labels
    :param spike_channels: Peak channel around which to extract waveform for each spike
    :param h: Geometry header file for probe (default: NP1)
    :param channel_labels: Array of channel labels used for bad channel interpolation
        (0: good, 1: dead, 2: noisy, 3: out of brain). If not set and preprocess=True,
        channel detection will be run in this function.
    :param max_wf: Max number of waveforms to extract per cluster (default: 256)
    :param trough_offset: Location of peak in spike, in samples (default: 42)
    :param spike_length_samples: Number of samples to extract per spike (default: 128)
    :param chunksize_samples: Length of chunk to process at a time in samples (default: 3000)
    :param reader_kwargs: Kwargs to pass to spikeglx.Reader()
    :param n_jobs: Number of parallel jobs to run. By default it will use 3/4 of available CPUs.
    :param wfs_dtype: Data type of raw waveforms saved (default np.float32)
    :param preprocess: Preprocessing options to apply, list which must be a subset of
        ["phase_shift", "bad_channel_interpolation", "butterworth", "car", "kfilt"]
        By default a butterworth 300Hz high-pass and the rephasing of the channels is perfomed
    """
    n_jobs = n_jobs or int(cpu_count() / 2)
    preprocess_steps = ['butterworth', 'phase_shift'] if preprocess_steps is None else preprocess_steps
    reader_kwargs = {} if reader_kwargs is None else reader_kwargs

    assert set(preprocess_steps).issubset(
        {
            "phase_shift",
            "bad_channel_interpolation",
            "butterworth",
            "car",
            "kfilt"
        }
    )

    if "car" in preprocess_steps and "kfilt" in preprocess_steps:
        raise ValueError("Must choose car or kfilt spatial filter")

    sr = spikeglx.Reader(bin_file, **reader_kwargs)
    if h is None:
        h = sr.geometry

    if sr.is_mtscomp:
        bin_file = sr.decompress_to_scratch(scratch_dir=scratch_dir)
        sr = spikeglx.Reader(bin_file, **reader_kwargs)
        file_to_unlink = bin_file
    else:
        file_to_unlink = None

    s0_arr = np.arange(0, sr.ns, chunksize_samples)
    s1_arr = s0_arr + chunksize_samples
    s1_arr[-1] = sr.ns

    # selects spikes from throughout the recording for each unit
    wf_flat, unit_ids = _make_wfs_table(
        sr,
        spike_samples,
        spike_clusters,
        spike_channels,
        max_wf,
        trough_offset,
        spike_length_samples,
        seed,
    )
    num_chunks = s0_arr.shape[0]

    logger.info(f"Chunk size samples: {chunksize_samples}")
    logger.info(f"Num chunks: {num_chunks}")

    if channel_labels is None and "bad_channel_interpolation" in preprocess_steps:
        logger.info("Running channel detection")
        channel_labels = _get_channel_labels(sr)
    elif channel_labels is None:
        channel_labels = np.zeros(sr.nc - sr.nsync)

    nwf = wf_flat.shape[0]
    nu = unit_ids.shape[0]
    logger.info(f"Extracting {nwf} waveforms from {nu} units")

    #  get channel geometry
    geom = np.c_[h["x"], h["y"]]
    channel_neighbors = make_channel_index(geom)
    nc = channel_neighbors.shape[1]

    # this intermediate memmap is written to in parallel
    # the waveforms are ordered only by their chronological position
    # in the recording, as we are reading them in time chunks
    traces_fn = output_dir.joinpath("waveforms.traces.npy")
    wfs = open_memmap(
        traces_fn, mode="w+", shape=(nwf, nc, spike_length_samples), dtype=np.float32
    )

    slices = [
        slice(*(np.searchsorted(wf_flat["sample"], [s0_arr[i], s1_arr[i]]).astype(int)))
        for i in range(num_chunks)
    ]

    _ = Parallel(n_jobs=n_jobs)(
        delayed(write_wfs_chunk)(
            i,
            bin_file,
            wfs,
            h,
            channel_labels,
            channel_neighbors,
            wf_flat.iloc[slices[i]],
            (s0_arr[i], s1_arr[i]),
            chunksize_samples,
            trough_offset,
            spike_length_samples,
            reader_kwargs,
            preprocess_steps,
        )
        for i in range(num_chunks)
    )

    # output files
    templates_fn = output_dir.joinpath("waveforms.templates.npy")
    table_fn = output_dir.joinpath("waveforms.table.pqt")
    channels_fn = output_dir.joinpath("waveforms.channels.npz")

    ## rearrange dataframe: sort waveforms by cluster and aggregate by cluster
    wf_flat.sort_values(by=["cluster", "sample"], inplace=True)
    df_clusters = aggregate_by_clusters(wf_flat)

    # we want to store the index of the waveform within each cluster to facilitate loading later
    wf_flat['index_within_clusters'] = np.ones(wf_flat.shape[0])
    inewc = np.diff(wf_flat['cluster'].values, prepend=wf_flat['cluster'].values[0]) != 0
    wf_flat.loc[inewc, 'index_within_clusters'] = - df_clusters['count'].values[:-1] + 1
    wf_flat['index_within_clusters'] = np.cumsum(wf_flat['index_within_clusters'].values).astype(int) - 1

    # store medians across waveforms
    wfs_templates = np.full((nu, nc, spike_length_samples), np.nan, dtype=np.float32)
    logger.info("Writing to output files")
    wfs = open_memmap(traces_fn)
    for i, rec in enumerate(df_clusters.itertuples()):
        wfs_templates[i] = np.nanmedian(wfs[rec.first_index:rec.last_index + 1], axis=0)
    # save templates
    np.save(templates_fn, wfs_templates)
    # save the waveform table

    wf_flat.to_parquet(table_fn)

    # save channel map for each waveform
    # these values are now reordered so that they match the pqt
    # and the traces file
    peak_channel = np.nan_to_num(wf_flat["peak_channel"].to_numpy(), nan=-1).astype(np.int16)
    chan_map = channel_neighbors[peak_channel.astype(int)]
    np.savez(channels_fn, channels=chan_map)
    # clean up the cached bin file
    if file_to_unlink is not None:
        file_to_unlink.with_suffix(".meta").unlink()
        file_to_unlink.unlink()


def load_waveforms(self, labels=None, indices=None, return_info=True, flatten=False):
    """
    Returns a specified subset of waveforms from the dataset.

    :param labels: (list, NumPy array) Label ids (usually clusters) from which to get waveforms.
    :param indices: (list, NumPy array) Waveform indices to grab for each waveform 1D.
    :param return_info: If True, returns waveforms, table, channels, where table is a DF containing
        information about the waveforms returned, and channels is the channel map for each waveform.
    :param flatten: If True, returns all waveforms stacked along dimension zero, otherwise returns
        array of shape (num_labels, num_indices_per_label, num_channels, spike_length_samples)
    """
    labels = np.array(self.df_clusters.index if labels is None else labels)
    iw, _ = ismember(self.df_wav['cluster'], labels)
    if self.data_version == 1:
        indices = np.array(np.arange(self.max_wf) if indices is None else indices)
        indices = np.tile(indices, (labels.size, 1)) if indices.ndim < 2 else indices
        assert indices.shape[0] == labels.size, \
            "If indices is a 2D-array, the second dimension must match the number of clusters."
        _, iu, _ = np.intersect1d(self.df_clusters.index, labels, return_indices=True)
        assert iu.size == labels.size, "Not all labels found in dataset."
        wfs = self.traces[iu[:, np.newaxis], indices].astype(np.float32)
        if flatten:
            wfs = wfs.reshape(-1, self.nc, self.ns)
    elif self.data_version == 2:
        if indices is not None:
            iw = np.where(iw)[0]
            iw = iw[self.df_wav.loc[iw, 'index_within_clusters'].isin(np.atleast_1d(np.array(indices)))]
        wfs = self.traces[iw].astype(np.float32)
    info = self.df_wav.loc[iw, :].copy()
    channels = self.channels[iw].astype(int)
    n_nan = sum(info["sample"].isna())
    if n_nan > 0:
        logger.info(f"{n_nan} NaN waveforms included in result.")
    if return_info:
        return wfs, info, channels
    else:
        return wfs


# ---------------------------------------------------------------------------------------------------------------
# comparison helpers
# ---------------------------------------------------------------------------------------------------------------
FAILURES = []
COUNTS = {}
RAISED = {}


class _Records(logging.Handler):
    def __init__(self):
        super().__init__(level=logging.DEBUG)
        self.messages = []

    def emit(self, record):
        self.messages.append((record.levelno, record.getMessage()))


def outcome(fun, *args, **kwargs):
    """Runs fun and returns ('ok', result, log messages) or ('exc', exception type, log messages)"""
    handler = _Records()
    logger.addHandler(handler)
    try:
        with warnings.catch_warnings(), contextlib.redirect_stderr(io.StringIO()):
            warnings.simplefilter("ignore")
            try:
                return "ok", fun(*args, **kwargs), handler.messages
            except Exception as e:  # noqa
                return "exc", type(e), handler.messages
    finally:
        logger.removeHandler(handler)


def diff_array(a, b):
    if type(a) is not type(b):
        return f"types {type(a)} != {type(b)}"
    if a.dtype != b.dtype:
        return f"dtypes {a.dtype} != {b.dtype}"
    if a.shape != b.shape:
        return f"shapes {a.shape} != {b.shape}"
    if a.dtype == object:
        return None if all(x is y or x == y for x, y in zip(a.ravel(), b.ravel())) else "object values differ"
    if np.ascontiguousarray(a).tobytes() != np.ascontiguousarray(b).tobytes():
        return "values differ"
    if a.flags.c_contiguous != b.flags.c_contiguous or a.flags.f_contiguous != b.flags.f_contiguous:
        return "memory layouts differ"
    return None


def diff_frame(a, b):
    if type(a) is not type(b):
        return f"types {type(a)} != {type(b)}"
    if list(a.columns) != list(b.columns):
        return f"columns {list(a.columns)} != {list(b.columns)}"
    if list(a.dtypes) != list(b.dtypes):
        return f"dtypes {list(a.dtypes)} != {list(b.dtypes)}"
    if type(a.index) is not type(b.index) or a.index.dtype != b.index.dtype or not a.index.equals(b.index):
        return "indices differ"
    for c in a.columns:
        va, vb = a[c], b[c]
        if not va.equals(vb):
            return f"column {c} differs"
        if va.dtype.kind in "iufb" and va.to_numpy().tobytes() != vb.to_numpy().tobytes():
            return f"column {c} differs bitwise"
    return None


def diff_any(a, b):
    if isinstance(a, tuple) or isinstance(a, list):
        if type(a) is not type(b) or len(a) != len(b):
            return "containers differ"
        for i, (x, y) in enumerate(zip(a, b)):
            d = diff_any(x, y)
            if d:
                return f"[{i}] {d}"
        return None
    if isinstance(a, pd.DataFrame):
        return diff_frame(a, b)
    if isinstance(a, np.ndarray):
        return diff_array(a, b)
    if type(a) is not type(b):
        return f"types {type(a)} != {type(b)}"
    return None if a == b else f"{a!r} != {b!r}"


def check(group, label, ref, new):
    COUNTS[group] = COUNTS.get(group, 0) + 1
    RAISED[group] = RAISED.get(group, 0) + (ref[0] == "exc")
    d = None
    if ref[0] != new[0]:
        d = f"reference {ref[0]} {ref[1] if ref[0] == 'exc' else ''} / refactored {new[0]} {new[1] if new[0] == 'exc' else ''}"
    elif ref[0] == "exc":
        d = None if ref[1] is new[1] else f"exceptions {ref[1]} != {new[1]}"
    else:
        d = diff_any(ref[1], new[1])
    if d is None and ref[2] != new[2]:
        d = f"log messages differ: {ref[2]} != {new[2]}"
    if d is not None:
        FAILURES.append(f"{group} / {label}: {d}")
    return ref[0]


# ---------------------------------------------------------------------------------------------------------------
# input generators
# ---------------------------------------------------------------------------------------------------------------
def geometries(rng):
    """Yields (label, geom) with geom an (nc, 2) array"""
    for version in (1, 2, 2.4):
        for nshank in ((1,) if version == 1 else (1, 4)):
            h = trace_header(version=version, nshank=nshank)
            geom = np.c_[h["x"], h["y"]]
            yield f"NP{version} {nshank} shank(s)", geom
            i0 = int(rng.integers(0, 300))
            yield f"NP{version} {nshank} shank(s) subset", geom[i0:i0 + int(rng.integers(1, 80))]
    yield "one channel", np.array([[0., 0.]])
    yield "two channels", np.array([[0., 0.], [16., 20.]])
    yield "duplicate sites", np.array([[0., 0.], [0., 0.], [32., 0.], [32., 0.], [0., 20.]])
    yield "integer geometry", np.c_[np.tile([0, 32], 20), np.repeat(np.arange(20) * 20, 2)]
    yield "nan site", np.array([[0., 0.], [np.nan, 20.], [32., 0.], [16., 20.], [np.nan, np.nan]])
    yield "column", np.c_[np.zeros(30), np.arange(30) * 15.]
    for k in range(12):
        n = int(rng.integers(1, 120))
        yield f"random {k}", np.c_[rng.choice([0., 16., 32., 48., 250., 266.], n), np.round(rng.uniform(0, 800, n))]
    yield "no channel", np.zeros((0, 2))
    yield "list and not an array", [[0., 0.], [16., 20.]]


def small_header(nch, version, rng):
    h = trace_header(version=version)
    i0 = int(rng.integers(0, 384 - nch)) if rng.random() < .5 else 0
    return {k: np.asarray(v)[i0:i0 + nch].copy() for k, v in h.items()}


def spike_train(rng, ns, trough_offset, length, max_wf, n_units, dtype_clusters=np.int64, sort=True):
    """Random spike train with spikes on the edges of the recording, duplicates across units and
    unit sizes below, at and above max_wf"""
    pool = rng.choice(np.arange(-3, 400), n_units, replace=False)
    sizes = rng.choice([0, 1, 2, max(max_wf - 1, 0), max_wf, max_wf + 1, 3 * max_wf + 2, int(rng.integers(0, 60))], n_units)
    clusters = np.repeat(pool, sizes)
    samples = rng.integers(0, ns, clusters.size)
    edges = np.array([0, 1, trough_offset - 1, trough_offset, trough_offset + 1, ns - (length - trough_offset) - 1,
                      ns - (length - trough_offset), ns - (length - trough_offset) + 1, ns - 1])
    edges = edges[(edges >= 0) & (edges < ns)]
    n_edges = int(rng.integers(0, edges.size + 1))
    if clusters.size and n_edges:
        samples[rng.choice(clusters.size, min(n_edges, clusters.size), replace=False)] = \
            rng.choice(edges, min(n_edges, clusters.size), replace=False)
    if clusters.size > 4:  # duplicates, across units too
        i = rng.choice(clusters.size, 4, replace=False)
        samples[i[:2]] = samples[i[2:]]
    order = np.argsort(samples, kind="stable") if sort else rng.permutation(clusters.size)
    return samples[order], clusters[order].astype(dtype_clusters)


# ---------------------------------------------------------------------------------------------------------------
# the checks
# ---------------------------------------------------------------------------------------------------------------
def check_make_channel_index(rng):
    for label, geom in geometries(rng):
        for radius in (200.0, 0.0, -1.0, 15.0, 20.0, 25.7, 40, 75.0, 1e6, np.inf, np.nan):
            for pad_val in ((None,) if radius not in (200.0, 40) else (None, -1, 0, 7.9, 10 ** 6)):
                kw = dict(radius=radius) if pad_val is None else dict(radius=radius, pad_val=pad_val)
                check("make_channel_index", f"{label} radius {radius} pad {pad_val}",
                      outcome(make_channel_index, geom, **kw), outcome(utils.make_channel_index, geom, **kw))
        check("make_channel_index", f"{label} defaults", outcome(make_channel_index, geom), outcome(utils.make_channel_index, geom))


def check_extract_wfs_array(rng):
    raised = 0
    for k in range(320):
        nch = int(rng.integers(1, 70))
        ns = int(rng.integers(140, 1500))
        geom = np.c_[rng.choice([0., 16., 32., 48.], nch), np.sort(np.round(rng.uniform(0, 20 * nch, nch)))]
        channel_neighbors = make_channel_index(geom, radius=float(rng.choice([30., 80., 200.])))
        length = int(rng.choice([128, 121, 82, 64, 7, 1, 0])) if k % 4 == 0 else 128
        trough_offset = int(rng.integers(0, length + 1)) if k % 4 == 0 else 42
        add_nan_trace = bool(k % 2)
        dtype = [np.float32, np.float64, np.int16, np.float16][k % 7 % 4]
        arr = (rng.normal(size=(nch, ns)) * 100).astype(dtype)
        if not add_nan_trace:
            arr = np.vstack([arr.astype(np.result_type(dtype, np.float16)), np.full((1, ns), np.nan)]).astype(
                np.float32 if dtype == np.int16 else dtype)
        if k % 9 == 0:
            arr = np.asfortranarray(arr)
        n = int(rng.integers(1, 40))
        lo, hi = trough_offset, ns - (length - trough_offset) - 1
        samples = np.sort(rng.integers(lo, max(hi, lo) + 1, n))
        mode = k % 16
        if mode == 1:  # first and last admissible samples
            samples[0], samples[-1] = lo, max(hi, lo)
        elif mode == 2:  # the window of the last spike leaves the recording: assertion
            samples[-1] = hi + 1 + int(rng.integers(0, 50))
        elif mode == 3 and n > 1:  # negative sample indices wrap around exactly as before
            samples[0] = int(rng.integers(0, lo + 1)) - int(rng.integers(1, 30))
        elif mode == 4 and n > 1:  # out of range in the middle of the table and not at its end: IndexError
            samples[0] = ns + int(rng.integers(0, 500))
        elif mode == 5:  # no order, repeats
            samples = rng.permutation(np.r_[samples, samples[:3]])
        elif mode == 6:  # no spike
            samples = samples[:0]
        peaks = rng.integers(0, nch, samples.size)
        if mode == 7:  # both ends of the probe
            peaks[:2] = [0, nch - 1][:peaks.size]
        elif mode == 8:  # negative channel numbers wrap around exactly as before
            peaks[0] = -int(rng.integers(1, nch + 1))
        elif mode == 9:  # channel out of the probe: IndexError
            peaks[-1] = nch + int(rng.integers(0, 5))
        df = pd.DataFrame({"sample": samples.astype([np.int64, np.int32][k % 2]), "peak_channel": peaks})
        if k % 5 == 0:  # the chunks of the recording hand over a slice of the table, its index does not start at 0
            df.index = df.index + 1000
        kw = dict(trough_offset=trough_offset, spike_length_samples=length, add_nan_trace=add_nan_trace, verbose=k % 40 == 0)
        if k % 11 == 0 and length == 128 and trough_offset == 42:
            kw = dict(add_nan_trace=add_nan_trace)
        ref = outcome(extract_wfs_array, arr, df, channel_neighbors, **kw)
        new = outcome(we.extract_wfs_array, arr, df, channel_neighbors, **kw)
        raised += check("extract_wfs_array", f"case {k} mode {mode}", ref, new) == "exc"
    return raised


def check_make_wfs_table(rng):
    raised = 0
    dtypes = [np.int64, np.int32, np.uint32, np.int16, np.float64]
    for k in range(360):
        length = int(rng.choice([128, 121, 64, 31])) if k % 3 == 0 else 128
        trough_offset = int(rng.integers(0, length)) if k % 3 == 0 else 42
        ns = int(rng.integers(length + 2, 40000))
        max_wf = int(rng.choice([0, 1, 2, 5, 32, 256]))
        n_units = int(rng.integers(1, 40))
        dtype_clusters = dtypes[k % len(dtypes)]
        samples, clusters = spike_train(rng, ns, trough_offset, length, min(max_wf, 40), n_units, dtype_clusters, sort=k % 13 != 0)
        mode = k % 20
        if mode == 1:  # no spike at all
            samples, clusters = samples[:0], clusters[:0]
        elif mode == 2:  # no spike is far enough from the edges
            samples = np.where(rng.random(samples.size) < .5, rng.integers(0, trough_offset + 1, samples.size),
                               ns - 1 - rng.integers(0, length - trough_offset, samples.size))
        elif mode == 3:  # one unit
            clusters[:] = clusters[:1]
        elif mode == 4 and dtype_clusters == np.float64 and clusters.size > 3:  # labels that are not numbers match no spike
            clusters[rng.choice(clusters.size, 3, replace=False)] = np.nan
        elif mode == 5:  # every spike is its own unit
            clusters = np.arange(clusters.size).astype(dtype_clusters)
        elif mode == 6:  # all the spikes at the same sample
            samples[:] = ns // 2
        channels = rng.integers(0, 384, samples.size).astype([np.int64, np.int16, np.float64][k % 3])
        samples = samples.astype([np.int64, np.uint64, np.int32, np.float64][k % 4])
        sr = types.SimpleNamespace(ns=ns)
        seed = int(rng.integers(0, 2 ** 31))
        args = (sr, samples, clusters, channels)
        kw = dict(max_wf=max_wf, trough_offset=trough_offset, spike_length_samples=length, seed=seed)
        if k % 17 == 0:
            kw = dict(seed=seed)
        ref = outcome(_make_wfs_table, *args, **kw)
        new = outcome(we._make_wfs_table, *args, **kw)
        raised += check("_make_wfs_table", f"case {k} mode {mode}", ref, new) == "exc"
        if ref[0] == "ok" and clusters.dtype.kind != "f":  # the count promised by the property, on the reference and on the refactored code
            for tag, (wf, _) in (("reference", ref[1]), ("refactored", new[1])):
                t, n = kw.get("trough_offset", 42), kw.get("spike_length_samples", 128)
                valid = (samples > t) & (samples < ns - (n - t))
                expected = {int(u): min(kw.get("max_wf", 256), int(np.sum(valid & (clusters == u)))) for u in np.unique(clusters)}
                got = wf.groupby("cluster").size().to_dict()
                if {u: n for u, n in expected.items() if n} != got:
                    FAILURES.append(f"_make_wfs_table / case {k}: unexpected counts on the {tag} side")
    return raised


def file_diffs(dir_ref, dir_new):
    names_ref, names_new = sorted(p.name for p in dir_ref.iterdir()), sorted(p.name for p in dir_new.iterdir())
    if names_ref != names_new:
        return f"files written {names_ref} != {names_new}"
    for name in names_ref:
        fr, fn = dir_ref / name, dir_new / name
        if name.endswith(".npy"):
            if fr.read_bytes() != fn.read_bytes():
                return f"{name} differs"
        elif name.endswith(".npz"):
            zr, zn = np.load(fr), np.load(fn)
            if sorted(zr.files) != sorted(zn.files):
                return f"{name} entries differ"
            for key in zr.files:
                d = diff_array(zr[key], zn[key])
                if d:
                    return f"{name}[{key}] {d}"
        elif name.endswith(".pqt"):
            d = diff_frame(pd.read_parquet(fr), pd.read_parquet(fn))
            if d:
                return f"{name} {d}"
        elif fr.read_bytes() != fn.read_bytes():
            return f"{name} differs"
    return None


def loader_calls(rng, labels_all, v1, max_wf):
    calls = [dict(), dict(return_info=False), dict(flatten=True), dict(labels=labels_all), dict(labels=list(labels_all[::-1])),
             dict(labels=labels_all[:1]), dict(labels=[int(labels_all[0])], return_info=False),
             dict(labels=np.array([labels_all[-1], labels_all[0]])), dict(labels=[labels_all[0], labels_all[0]]),
             dict(labels=[]), dict(labels=[10 ** 6]), dict(labels=[labels_all[0], 10 ** 6]),
             dict(indices=[0]), dict(indices=0), dict(indices=np.arange(3)), dict(indices=[0, 0, 2]), dict(indices=[10 ** 5]),
             dict(indices=[-1]), dict(indices=[]), dict(labels=labels_all[:2], indices=[1, 0], flatten=True),
             dict(labels=labels_all[-1:], indices=np.arange(max(max_wf, 1)), return_info=False)]
    if v1:
        calls += [dict(labels=labels_all[:2], indices=np.array([[0, 1], [1, 0]])[:len(labels_all[:2])]),
                  dict(labels=labels_all[:1], indices=np.array([[0, 1], [1, 0]])),
                  dict(indices=[max_wf]), dict(indices=[max_wf - 1], flatten=True)]
    for _ in range(4):
        n = int(rng.integers(1, len(labels_all) + 1))
        calls.append(dict(labels=rng.choice(labels_all, n, replace=False),
                          indices=rng.choice(max(max_wf, 1), int(rng.integers(1, max(max_wf, 1) + 1)), replace=False),
                          flatten=bool(rng.integers(2))))
    return calls


def check_loader(rng, data_dir, label):
    status, wfl, _ = outcome(we.WaveformsLoader, data_dir)
    if status != "ok":
        FAILURES.append(f"load_waveforms / {label}: the loader could not be instantiated ({wfl})")
        return 0
    raised = 0
    labels_all = np.array(wfl.df_clusters.index)
    if labels_all.size == 0:
        return 0
    for i, kw in enumerate(loader_calls(rng, labels_all, wfl.data_version == 1, int(wfl.max_wf))):
        ref = outcome(load_waveforms, wfl, **kw)
        new = outcome(wfl.load_waveforms, **kw)
        raised += check("load_waveforms", f"{label} v{wfl.data_version} call {i} {sorted(kw)}", ref, new) == "exc"
    return raised


def check_extract_wfs_cbin(rng, workdir):
    raised = 0
    preprocessings = [[], ["butterworth", "phase_shift"], None, ["phase_shift", "bad_channel_interpolation", "car"],
                      ["butterworth", "kfilt"], ["car", "kfilt"], []]
    for k in range(28):
        preprocess_steps = preprocessings[k % len(preprocessings)]
        if preprocess_steps == ["car", "kfilt"] and k != 5:  # one refusal of this combination is enough
            preprocess_steps = ["butterworth", "phase_shift", "car"]
        # the spatial filter pads with 60 channels on each side: it needs more channels than that
        nch = int(rng.integers(20, 48)) if "kfilt" not in (preprocess_steps or []) else int(rng.integers(61, 90))
        version = [1, 2][k % 2]
        h = small_header(nch, version, rng)
        ns = int(rng.integers(1500, 12000))
        length = int(rng.choice([128, 121, 64])) if k % 4 == 0 else 128
        trough_offset = int(rng.integers(10, length - 10)) if k % 4 == 0 else 42
        max_wf = int(rng.choice([1, 3, 8, 20]))
        chunksize = int(rng.choice([500, 777, 1000, 3000, 10000]))
        dtype = ["float32", "int16"][k % 3 == 0]
        data = rng.normal(size=(ns, nch + 1)) * 50
        data[:, -1] = 0
        bin_file = workdir / f"case{k:02d}.bin"
        data.astype(dtype).tofile(bin_file)
        samples, clusters = spike_train(rng, ns, trough_offset, length, max_wf, int(rng.integers(1, 9)))
        if k % 5 == 0 and samples.size:  # spikes on the boundaries of the chunks
            i = rng.choice(samples.size, min(6, samples.size), replace=False)
            samples[i] = np.clip(rng.integers(1, ns // chunksize + 2, i.size) * chunksize + rng.integers(-1, 2, i.size), 0, ns - 1)
            order = np.argsort(samples, kind="stable")
            samples, clusters = samples[order], clusters[order]
        if k == 9:  # no spike is far enough from the edges of the recording
            samples = np.sort(np.where(rng.random(samples.size) < .5, 3, ns - 3))
        channels = rng.integers(0, nch, samples.size)
        channels[:2] = [0, nch - 1][:channels.size]
        n_jobs = [1, 1, 1, 2, 1, 1, 3, 1][k % 8]
        kw = dict(h=h, max_wf=max_wf, trough_offset=trough_offset, spike_length_samples=length, chunksize_samples=chunksize,
                  reader_kwargs={"ns": ns, "nc": nch + 1, "nsync": 1, "dtype": dtype, "fs": 30000}, n_jobs=n_jobs,
                  preprocess_steps=preprocess_steps, seed=int(rng.integers(0, 2 ** 31)))
        if k % 6 == 1 or "bad_channel_interpolation" in (preprocess_steps or []):  # no detection on such short files
            kw["channel_labels"] = rng.choice([0, 0, 0, 0, 1, 2], nch)
        dir_ref, dir_new = workdir / f"case{k:02d}_ref", workdir / f"case{k:02d}_new"
        dir_ref.mkdir(), dir_new.mkdir()
        ref = outcome(extract_wfs_cbin, bin_file, dir_ref, samples, clusters, channels, **kw)
        new = outcome(we.extract_wfs_cbin, bin_file, dir_new, samples, clusters, channels, **kw)
        status = check("extract_wfs_cbin", f"case {k}", ref, new)
        raised += status == "exc"
        d = file_diffs(dir_ref, dir_new)
        if d:
            FAILURES.append(f"extract_wfs_cbin / case {k}: {d}")
        if status == "ok":
            raised += check_loader(rng, dir_new, f"case {k}")
        bin_file.unlink()
    return raised


def check_loader_v1(rng, workdir):
    """Datasets in the former layout: traces of shape (num_units, max_wf, nc, ns) and NaN rows as padding"""
    raised = 0
    for k in range(6):
        nu, max_wf, nc, ns = int(rng.integers(1, 6)), int(rng.integers(2, 7)), int(rng.integers(3, 9)), int(rng.integers(4, 20))
        d = workdir / f"v1_{k}"
        d.mkdir()
        traces = rng.normal(size=(nu, max_wf, nc, ns)).astype([np.float32, np.float16][k % 2])
        labels = np.sort(rng.choice(50, nu, replace=False))
        sample = rng.integers(100, 10 ** 6, (nu, max_wf)).astype(float)
        peak = rng.integers(0, 384, (nu, max_wf)).astype(float)
        for u in range(nu):  # units with less than max_wf waveforms are padded
            n_missing = int(rng.integers(0, max_wf)) if k else 0
            if n_missing:
                sample[u, -n_missing:], peak[u, -n_missing:], traces[u, -n_missing:] = np.nan, np.nan, np.nan
        table = pd.DataFrame({"index": np.arange(nu * max_wf), "sample": sample.ravel(), "cluster": np.repeat(labels, max_wf),
                              "peak_channel": peak.ravel(), "wf_number": np.tile(np.arange(max_wf), nu),
                              "linear_index": np.arange(nu * max_wf)})
        np.save(d / "waveforms.traces.npy", traces)
        np.save(d / "waveforms.templates.npy", np.nanmedian(traces.astype(np.float32), axis=1))
        table.to_parquet(d / "waveforms.table.pqt")
        np.savez(d / "waveforms.channels.npz", channels=rng.integers(0, 385, (nu * max_wf, nc)).astype(float))
        raised += check_loader(rng, d, f"former layout {k}")
    return raised


def main():
    t0 = time.time()
    logger.setLevel(logging.INFO)
    logger.propagate = False
    logging.getLogger("ibldsp").setLevel(logging.ERROR)
    logger.setLevel(logging.INFO)
    rng = np.random.default_rng(20240513)
    scratch = Path(os.path.dirname(os.path.abspath(__file__))) / ".tmp"
    scratch.mkdir(exist_ok=True)
    workdir = Path(tempfile.mkdtemp(prefix="demo_c13_", dir=scratch))
    try:
        with warnings.catch_warnings():
            warnings.simplefilter("ignore")
            check_make_channel_index(rng)
            raised = check_extract_wfs_array(rng)
            raised += check_make_wfs_table(rng)
            raised += check_extract_wfs_cbin(rng, workdir)
            raised += check_loader_v1(rng, workdir)
    finally:
        shutil.rmtree(workdir, ignore_errors=True)
    for group, n in COUNTS.items():
        print(f"{group:>20}: {n} cases compared, {RAISED[group]} of them raise in the reference")
    print(f"{sum(COUNTS.values())} cases in {time.time() - t0:.1f} s")
    if FAILURES:
        print(f"NOT EQUIVALENT: {len(FAILURES)} difference(s)")
        for f in FAILURES[:40]:
            print("  " + f)
        return 1
    print("EQUIVALENT: the refactored functions and the reference copies agree on every case")
    return 0


if __name__ == "__main__":
    sys.exit(main())
