import sys, os; sys.path.insert(0, os.path.join(os.path.dirname(os.path.abspath(__file__)), "src"))
"""
C13: every saved waveform equals the source traces over [sample - trough_offset, sample - trough_offset + length)
on the neighbourhood of its peak channel, and each unit receives min(max_wf, number of its spikes lying farther
than the window margins from both ends of the recording) distinct spikes.

The spike times are given as uint64 (the dtype in which spike sorters write spike samples), and the spike train
contains spikes in the very first samples of the recording, closer to the start than the window margin.
Oracle: plain Python / NumPy from the definition.
"""
import shutil
import tempfile
from pathlib import Path

import numpy as np
import pandas as pd

from neuropixel import trace_header
from ibldsp import waveform_extraction

TROUGH, LENGTH, RADIUS = 42, 128, 200.0
NS, NC = 20_000, 385
MAX_WF = 8


def neighbours_by_definition(h):
    x, y = np.asarray(h["x"], float), np.asarray(h["y"], float)
    nc = x.size
    rows = []
    for c in range(nc):
        d = np.sqrt((x - x[c]) ** 2 + (y - y[c]) ** 2)
        rows.append([int(k) for k in range(nc) if d[k] <= RADIUS])
    width = max(len(r) for r in rows)
    return np.array([r + [nc] * (width - len(r)) for r in rows])


def run(samples_dtype):
    problems = []
    tmpdir = Path(tempfile.mkdtemp(prefix="c13_demo_"))
    try:
        rng = np.random.default_rng(1234)
        data = rng.standard_normal((NS, NC)).astype(np.float32)
        bin_file = tmpdir / "demo.bin"
        data.tofile(bin_file)

        # three units: fewer than / exactly / more than MAX_WF admissible spikes; spikes at both file edges,
        # on chunk boundaries (chunk size 3000), a time shared by two units, peak channels at both probe ends
        spikes = [
            (10, 1, 0), (30, 2, 383), (42, 1, 0), (43, 1, 1), (500, 2, 383), (2999, 3, 200), (3000, 1, 0),
            (3000, 3, 201), (3001, 2, 382), (5999, 3, 5), (6000, 2, 383), (7000, 3, 200), (8000, 2, 380),
            (8500, 3, 100), (9000, 2, 383), (9100, 3, 101), (10000, 2, 381), (11000, 3, 200), (11999, 2, 383),
            (12000, 3, 300), (12500, 1, 2), (13000, 3, 301), (14000, 2, 383), (15000, 3, 10), (16000, 3, 11),
            (17000, 3, 12), (18000, 3, 13), (NS - 87, 1, 0), (NS - 86, 1, 0), (NS - 1, 3, 200),
        ]
        spike_samples = np.array([s[0] for s in spikes], dtype=samples_dtype)
        spike_clusters = np.array([s[1] for s in spikes], dtype=np.int64)
        spike_channels = np.array([s[2] for s in spikes], dtype=np.int64)

        h = trace_header(version=1)
        waveform_extraction.extract_wfs_cbin(
            bin_file, tmpdir, spike_samples, spike_clusters, spike_channels,
            reader_kwargs={"ns": NS, "nc": NC, "nsync": 1, "dtype": "float32"},
            max_wf=MAX_WF, h=h, preprocess_steps=[], chunksize_samples=3000, n_jobs=1, seed=7,
            trough_offset=TROUGH, spike_length_samples=LENGTH,
        )
        table = pd.read_parquet(tmpdir / "waveforms.table.pqt").reset_index(drop=True)
        traces = np.load(tmpdir / "waveforms.traces.npy")
        channels = np.load(tmpdir / "waveforms.channels.npz")["channels"]

        # --- oracle, from the definition, with Python integers
        def admissible(s):
            return (s - TROUGH > 0) and (s - TROUGH + LENGTH < NS)

        neigh = neighbours_by_definition(h)
        padded = np.vstack([data[:, :NC - 1].T, np.full((1, NS), np.nan, np.float32)])  # (nc + 1, ns)

        for u in sorted(set(int(c) for c in spike_clusters)):
            n_adm = sum(admissible(s) for s, c, _ in spikes if c == u)
            n_tab = int((table["cluster"] == u).sum())
            if n_tab != min(MAX_WF, n_adm):
                problems.append(f"unit {u}: {n_tab} waveforms in the table, expected min({MAX_WF}, {n_adm})")

        if not (len(table) == traces.shape[0] == channels.shape[0]):
            problems.append(f"row counts differ: table {len(table)}, traces {traces.shape[0]}, channels {channels.shape[0]}")

        given = set(spikes)
        for k, rec in enumerate(table.itertuples()):
            s, c, pc = int(rec.sample), int(rec.cluster), int(rec.peak_channel)
            if (s, c, pc) not in given:
                problems.append(f"row {k}: (sample {s}, unit {c}, channel {pc}) is not one of the given spikes")
                continue
            if not admissible(s):
                problems.append(f"row {k}: unit {c} received the spike at sample {s}, whose window "
                                f"[{s - TROUGH}, {s - TROUGH + LENGTH}) does not lie inside the recording [0, {NS})")
            if k >= min(traces.shape[0], channels.shape[0]):
                continue
            if s - TROUGH < 0:
                # what do the columns that have no source sample hold ?
                nmiss, end0 = TROUGH - s, 3000 + LENGTH - TROUGH  # end of the snippet read for the first chunk
                if np.array_equal(traces[k][:, :nmiss], padded[neigh[pc], end0 - nmiss:end0], equal_nan=True):
                    problems.append(f"row {k}: the {nmiss} columns before the start of the file hold samples "
                                    f"{end0 - nmiss}..{end0 - 1} of the recording")
            if not np.array_equal(channels[k], neigh[pc]):
                problems.append(f"row {k}: channel map is not the neighbourhood of peak channel {pc}")
            if admissible(s):
                expected = padded[neigh[pc], s - TROUGH:s - TROUGH + LENGTH]
                if not np.array_equal(traces[int(rec.waveform_index)], expected, equal_nan=True):
                    problems.append(f"row {k}: saved waveform of the spike at sample {s} (unit {c}) differs from the source")
                if not np.array_equal(traces[k], expected, equal_nan=True):
                    problems.append(f"row {k}: traces row {k} does not hold the waveform the table row {k} describes")
        if table[["sample", "cluster"]].duplicated().any():
            problems.append("the same spike was given twice to a unit")

        wfl = waveform_extraction.WaveformsLoader(tmpdir)
        wfs, info, chans = wfl.load_waveforms()
        if not np.array_equal(wfs, traces, equal_nan=True) or not np.array_equal(chans, channels):
            problems.append("the loader does not return what was saved")
    finally:
        shutil.rmtree(tmpdir, ignore_errors=True)
    return problems


if __name__ == "__main__":
    failed = False
    for dtype in (np.int64, np.uint64):
        problems = run(dtype)
        print(f"spike samples given as {np.dtype(dtype).name}: {'OK' if not problems else 'PROPERTY C13 VIOLATED'}")
        for p in problems:
            print("   ", p)
        failed |= bool(problems)
    sys.exit(1 if failed else 0)
