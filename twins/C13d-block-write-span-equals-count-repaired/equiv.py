import sys, os; sys.path.insert(0, os.path.join(os.path.dirname(os.path.abspath(__file__)), "src"))
"""
C13: every saved waveform equals the source traces over the spike's window on the neighbourhood of its
peak channel, and table / traces / channel map / templates agree row by row.

Three units whose spikes interleave in time, extracted from a random float32 recording without any
preprocessing.  The oracle is the definition itself: plain NumPy slicing of the raw file.
"""
import shutil
import tempfile
import warnings
from pathlib import Path

import numpy as np
import pandas as pd
from neuropixel import trace_header

import ibldsp.waveform_extraction as wfe
from ibldsp.utils import make_channel_index

NS, NC, TROUGH, LENGTH, CHUNK = 12_000, 385, 42, 128, 3_000

# (sample, unit, peak channel); chunk 1 = [3000, 6000) holds one spike of each unit, in the order 1, 3, 2
SPIKES = [
    (500, 1, 10), (1000, 3, 200), (3500, 1, 10), (4000, 3, 200), (4500, 2, 380),
    (7000, 1, 10), (8000, 2, 380), (9000, 3, 200),
]


def oracle_waveform(raw, neighbors, sample, peak_channel):
    nc = raw.shape[1]
    window = raw[sample - TROUGH:sample - TROUGH + LENGTH, :].T  # (nc, LENGTH)
    window = np.vstack([window, np.full((1, LENGTH), np.nan, np.float32)])
    return window[neighbors[peak_channel]], nc


def run(tmpdir, n_jobs):
    rng = np.random.default_rng(13)
    raw = rng.standard_normal((NS, NC)).astype(np.float32)
    bin_file = tmpdir.joinpath("demo.bin")
    raw.tofile(bin_file)
    out = tmpdir.joinpath(f"out_{n_jobs}")
    out.mkdir()
    samples, clusters, channels = (np.array(x) for x in zip(*SPIKES))
    h = trace_header()
    wfe.extract_wfs_cbin(
        bin_file, out, samples, clusters, channels, h=h, max_wf=16, chunksize_samples=CHUNK,
        reader_kwargs={"ns": NS, "nc": NC, "nsync": 1, "dtype": "float32"},
        n_jobs=n_jobs, preprocess_steps=[], seed=0,
    )
    table = pd.read_parquet(out.joinpath("waveforms.table.pqt")).reset_index(drop=True)
    traces = np.load(out.joinpath("waveforms.traces.npy"))
    chans = np.load(out.joinpath("waveforms.channels.npz"))["channels"]
    templates = np.load(out.joinpath("waveforms.templates.npy"))
    neighbors = make_channel_index(np.c_[h["x"], h["y"]])

    errors = []
    # every admissible spike of every unit is expected (all units are below max_wf)
    expected = sorted((c, s) for s, c, _ in SPIKES)
    got = sorted(zip(table["cluster"].tolist(), table["sample"].tolist()))
    if got != expected:
        errors.append(f"table lists {got}, expected {expected}")
    if traces.shape[0] != len(table):
        errors.append(f"{traces.shape[0]} trace rows for {len(table)} table rows")
    for k, rec in enumerate(table.itertuples()):
        want, _ = oracle_waveform(raw[:, :-1], neighbors, int(rec.sample), int(rec.peak_channel))
        if not np.array_equal(chans[k], neighbors[int(rec.peak_channel)]):
            errors.append(f"row {k}: channel map differs from the neighbourhood of channel {rec.peak_channel}")
        if not np.array_equal(traces[k], want, equal_nan=True):
            kind = "all zeros (never written)" if not np.any(np.nan_to_num(traces[k])) else "other data"
            errors.append(
                f"row {k} (unit {rec.cluster}, sample {rec.sample}, peak channel {rec.peak_channel}): "
                f"saved waveform is not the source window -> {kind}"
            )
    for i, u in enumerate(np.unique(clusters)):
        rows = np.flatnonzero(table["cluster"].to_numpy() == u)
        want = np.stack([
            oracle_waveform(raw[:, :-1], neighbors, int(table["sample"][r]), int(table["peak_channel"][r]))[0]
            for r in rows
        ])
        want = np.nanmedian(want, axis=0)
        if not np.allclose(templates[i], want, equal_nan=True):
            errors.append(f"template of unit {u} is not the median of its source windows")
    # the loader returns what was saved
    wfs, info, channels_loaded = wfe.WaveformsLoader(out).load_waveforms()
    if not np.array_equal(wfs, traces, equal_nan=True) or not np.array_equal(channels_loaded, chans):
        errors.append("WaveformsLoader.load_waveforms() does not return the saved rows")
    return errors


def main():
    warnings.simplefilter("ignore", RuntimeWarning)  # all-NaN slices of the padded channels
    tmpdir = Path(tempfile.mkdtemp(prefix="c13_demo_"))
    try:
        failed = False
        for n_jobs in (1, 2):
            errors = run(tmpdir, n_jobs)
            if errors:
                failed = True
                print(f"C13 violated with n_jobs={n_jobs}, chunksize_samples={CHUNK}:")
                for e in errors:
                    print("  -", e)
    finally:
        shutil.rmtree(tmpdir, ignore_errors=True)
    if failed:
        print("FAIL: saved waveforms do not equal the source data")
        return 1
    print("OK: all saved waveforms, channel maps, templates and loader rows match the source data")
    return 0


if __name__ == "__main__":
    sys.exit(main())
