import sys, os; sys.path.insert(0, os.path.join(os.path.dirname(os.path.abspath(__file__)), "src"))
"""
C13 demo: every saved waveform must equal the source traces over [sample - trough, sample - trough + length)
on the neighbourhood of its peak channel (NaN padded), and each unit must receive
min(max_wf, number of its spikes farther than the window margins from both ends) distinct spikes.

The recording length is chosen so that the last, partial chunk is a bit shorter than one waveform
(ns % chunksize = 120 < 128) and still holds extractable spikes (sample < ns - 86).
Oracle: plain NumPy slicing of the array that was written to disk.
"""
import shutil
import tempfile
from pathlib import Path

import numpy as np
import pandas as pd
import scipy.spatial.distance

from neuropixel import trace_header
from ibldsp import waveform_extraction

NC, NSYNC = 385, 1
TROUGH, LENGTH = 42, 128
CHUNK = 3000
NS = 4 * CHUNK + 120  # trailing chunk of 120 samples
MAX_WF = 64


def oracle_neighbours(geom, radius=200.0):
    d = scipy.spatial.distance.squareform(scipy.spatial.distance.pdist(geom))
    return [np.flatnonzero(d[c] <= radius) for c in range(geom.shape[0])]


def main():
    rng = np.random.default_rng(20241)
    tmp = Path(tempfile.mkdtemp(prefix="c13_demo_"))
    problems = []
    try:
        data = rng.normal(size=(NS, NC)).astype(np.float32)
        bin_file = tmp / "demo.bin"
        data.tofile(bin_file)

        h = trace_header()
        geom = np.c_[h["x"], h["y"]]
        nbrs = oracle_neighbours(geom)
        width = max(len(n) for n in nbrs)

        # two units; spikes spread over the file, on chunk boundaries, at both file edges,
        # and inside the short trailing chunk [12000, 12120): 12005 and 12033 are extractable (< NS - 86)
        samples = np.array([
            0, 42, 43, 500, 2999, 3000, 3001, 4500, 5999, 6000, 7777, 8999, 9000, 10000,
            11950, 11999, 12000, 12005, 12005, 12020, 12033, 12034, 12100, NS - 1,
        ])
        clusters = np.tile([3, 7], samples.size // 2)
        channels = np.where(clusters == 3, 0, 200)
        channels[5] = 383
        channels[17] = 383

        out = tmp / "wfs"
        out.mkdir()
        waveform_extraction.extract_wfs_cbin(
            bin_file, out, samples, clusters, channels,
            h=h, max_wf=MAX_WF, trough_offset=TROUGH, spike_length_samples=LENGTH,
            chunksize_samples=CHUNK, n_jobs=2, preprocess_steps=[], seed=1,
            reader_kwargs={"ns": NS, "nc": NC, "nsync": NSYNC, "dtype": "float32"},
        )

        traces = np.load(out / "waveforms.traces.npy")
        table = pd.read_parquet(out / "waveforms.table.pqt").reset_index(drop=True)
        chan_map = np.load(out / "waveforms.channels.npz")["channels"]

        # number of waveforms per unit
        valid = (samples > TROUGH) & (samples < NS - (LENGTH - TROUGH))
        for u in np.unique(clusters):
            expected = min(MAX_WF, int(np.sum(valid & (clusters == u))))
            got = int(np.sum(table["cluster"] == u))
            if got != expected:
                problems.append(f"unit {u}: {got} waveforms in the table, expected {expected}")

        if not (traces.shape[0] == len(table) == chan_map.shape[0]):
            problems.append(f"row counts differ: traces {traces.shape[0]}, table {len(table)}, channels {chan_map.shape[0]}")

        # every row against the source data
        for row in range(min(traces.shape[0], len(table))):
            s = int(table["sample"].iloc[row])
            pc = int(table["peak_channel"].iloc[row])
            expected = np.full((width, LENGTH), np.nan, dtype=np.float32)
            expected[:len(nbrs[pc])] = data[s - TROUGH:s - TROUGH + LENGTH, nbrs[pc]].T
            if not np.array_equal(traces[row], expected, equal_nan=True):
                nbad = int(np.sum(~np.isclose(traces[row], expected, equal_nan=True)))
                allzero = bool(np.all(traces[row] == 0))
                problems.append(
                    f"row {row} (unit {int(table['cluster'].iloc[row])}, sample {s}, peak channel {pc}): "
                    f"saved waveform differs from the source data in {nbad} values"
                    + (" (the saved waveform is all zeros: it was never written)" if allzero else "")
                )
            exp_chan = np.full(width, NC - NSYNC)
            exp_chan[:len(nbrs[pc])] = nbrs[pc]
            if not np.array_equal(chan_map[row], exp_chan):
                problems.append(f"row {row}: channel map does not match the neighbourhood of channel {pc}")

        # the loader returns what was saved
        wfl = waveform_extraction.WaveformsLoader(out)
        wfs, info, chans = wfl.load_waveforms()
        if not np.array_equal(wfs, traces, equal_nan=True):
            problems.append("loader does not return the saved traces")
    finally:
        shutil.rmtree(tmp, ignore_errors=True)

    if problems:
        print(f"C13 violated ({len(problems)} problem(s)), ns={NS}, chunksize={CHUNK}:")
        for p in problems:
            print("  -", p)
        return 1
    print("C13 holds: all waveforms equal the source data")
    return 0


if __name__ == "__main__":
    sys.exit(main())
