import sys, os; sys.path.insert(0, os.path.join(os.path.dirname(os.path.abspath(__file__)), "src"))
"""
C13 demo: extract waveforms from a small random recording and compare every saved file with the
definition (plain NumPy on the raw file).  Exits 1 and says what disagrees, 0 if all agree.
"""
import shutil
import tempfile
import warnings
from pathlib import Path

import numpy as np
import pandas as pd

from neuropixel import trace_header
from ibldsp import waveform_extraction

warnings.filterwarnings("ignore")

NS, NC, NSYNC = 21_300, 385, 1
TROUGH, LENGTH, MAX_WF, RADIUS = 42, 128, 12, 200.0


def neighbours_by_definition(x, y, radius):
    """ascending channels within radius of each channel, padded with nc"""
    nc = x.size
    d = np.sqrt((x[:, None] - x[None, :]) ** 2 + (y[:, None] - y[None, :]) ** 2)
    rows = [np.flatnonzero(d[c] <= radius) for c in range(nc)]
    width = max(r.size for r in rows)
    out = np.full((nc, width), nc, dtype=int)
    for c, r in enumerate(rows):
        out[c, :r.size] = r
    return out


def main():
    rng = np.random.default_rng(20240613)
    tmp = Path(tempfile.mkdtemp(prefix="c13_demo_", dir=os.path.dirname(os.path.abspath(__file__))))
    problems = []
    try:
        data = rng.normal(size=(NS, NC)).astype(np.float32)
        bin_file = tmp / "rec.bin"
        data.tofile(bin_file)

        # spike trains, sorted in time: unit 3 sits mid-probe, unit 5 at the tip of the probe and
        # unit 8 at its top; spikes of a unit are detected on a few adjacent channels
        n = 90
        samples = np.sort(rng.choice(np.arange(100, NS - 200), n, replace=False))
        samples[10] = 3000  # on a chunk boundary
        samples[11] = 3010  # within the left margin of a chunk
        samples = np.sort(samples)
        clusters = rng.choice(np.array([3, 5, 8]), n)
        channels = np.zeros(n, int)
        channels[clusters == 3] = rng.integers(180, 190, np.sum(clusters == 3))
        channels[clusters == 5] = rng.integers(0, 9, np.sum(clusters == 5))
        channels[clusters == 8] = rng.integers(375, 384, np.sum(clusters == 8))

        h = trace_header(version=1)
        out = tmp / "out"
        out.mkdir()
        waveform_extraction.extract_wfs_cbin(
            bin_file, out, samples, clusters, channels, h=h, max_wf=MAX_WF, trough_offset=TROUGH,
            spike_length_samples=LENGTH, chunksize_samples=3000, n_jobs=2, preprocess_steps=[], seed=1,
            reader_kwargs={"ns": NS, "nc": NC, "nsync": NSYNC, "dtype": "float32"},
        )
        traces = np.load(out / "waveforms.traces.npy")
        templates = np.load(out / "waveforms.templates.npy")
        chmap = np.load(out / "waveforms.channels.npz")["channels"]
        table = pd.read_parquet(out / "waveforms.table.pqt").reset_index(drop=True)

        neigh = neighbours_by_definition(np.asarray(h["x"], float), np.asarray(h["y"], float), RADIUS)
        src = np.vstack([data[:, :NC - NSYNC].T, np.full((1, NS), np.nan, np.float32)])  # + NaN row

        # 1. numbers of waveforms per unit
        ok_spike = (samples > TROUGH) & (samples < NS - (LENGTH - TROUGH))
        for u in np.unique(clusters):
            expected = min(MAX_WF, int(np.sum(ok_spike & (clusters == u))))
            got = int(np.sum(table["cluster"] == u))
            if got != expected:
                problems.append(f"unit {u}: {got} waveforms in the table, expected {expected}")

        # 2. every row of traces / channel map against the source data
        for r in range(len(table)):
            s, c, iw = int(table["sample"][r]), int(table["peak_channel"][r]), int(table["waveform_index"][r])
            expected = src[neigh[c], s - TROUGH:s - TROUGH + LENGTH]
            if not np.array_equal(traces[iw], expected, equal_nan=True):
                problems.append(f"table row {r} (unit {table['cluster'][r]}, sample {s}, channel {c}): "
                                f"trace differs from the source data")
            if not np.array_equal(chmap[r], neigh[c]):
                problems.append(f"table row {r}: channel map row is not the neighbourhood of channel {c}")

        # 3. templates: median over the available (non-NaN) values of the unit's waveforms
        for i, u in enumerate(np.unique(table["cluster"])):
            rows = table.index[table["cluster"] == u].to_numpy()
            w = np.stack([src[neigh[int(table["peak_channel"][r])],
                              int(table["sample"][r]) - TROUGH:int(table["sample"][r]) - TROUGH + LENGTH]
                          for r in rows])
            expected = np.full(w.shape[1:], np.nan, np.float32)
            for a in range(w.shape[1]):
                for b in range(w.shape[2]):
                    v = w[:, a, b]
                    v = v[~np.isnan(v)]
                    if v.size:
                        expected[a, b] = np.median(v)
            bad = ~np.isclose(templates[i], expected, equal_nan=True)
            if bad.any():
                nrow = np.unique(np.nonzero(bad)[0])
                problems.append(
                    f"template of unit {u} (peak channels {sorted(set(table['peak_channel'][rows]))}): "
                    f"{bad.sum()} values on neighbourhood rows {nrow.tolist()} are not the median of the unit's "
                    f"saved waveforms; {int(np.isnan(templates[i][bad]).sum())} of them are NaN although waveforms "
                    f"of the unit have data on these rows")

        # 4. the loader returns what was saved
        wfl = waveform_extraction.WaveformsLoader(out, trough_offset=TROUGH)
        for labels in ([3, 5, 8], [8], [5, 3]):
            wfs, info, chans = wfl.load_waveforms(labels=labels)
            if not set(info["cluster"]) <= set(labels):
                problems.append(f"loader labels={labels}: returned clusters {set(info['cluster'])}")
            for k in range(len(info)):
                s, c = int(info["sample"].iloc[k]), int(info["peak_channel"].iloc[k])
                if not np.array_equal(wfs[k], src[neigh[c], s - TROUGH:s - TROUGH + LENGTH], equal_nan=True):
                    problems.append(f"loader labels={labels}: row {k} is not the waveform its info row describes")
                    break
                if not np.array_equal(chans[k], neigh[c]):
                    problems.append(f"loader labels={labels}: channels row {k} does not match its info row")
                    break
    finally:
        shutil.rmtree(tmp, ignore_errors=True)

    if problems:
        print(f"C13 violated ({len(problems)} findings):")
        for p in problems[:20]:
            print("  -", p)
        return 1
    print("C13 holds on this input: traces, table, channel map, templates and loader agree with the source")
    return 0


if __name__ == "__main__":
    sys.exit(main())
