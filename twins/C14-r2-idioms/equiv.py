"""
Differential check for refactor_2.diff (idiom replacements: np.arange(0, n, 1) -> np.arange(n), np.where -> np.nonzero /
np.flatnonzero, copy().astype -> astype(order="C"), np.tile(...).transpose() -> np.repeat(..., axis=1), len(x) -> x.size).
Compares the ORIGINAL ibldsp/waveforms.py (pristine copy of HEAD) with the refactored one in the worktree.
Usage: cd /tmp/wt_C14 && git apply refactor_2.diff && /venv/bin/python equiv_2.py ; git checkout -- src
-> prints EQUIVALENT and exits 0 (about 3 minutes)
"""
import importlib.util
import subprocess
import sys
import warnings
from pathlib import Path

import numpy as np
import pandas as pd

WT = Path("/tmp/wt_C14")
ORIG_DIR = Path("/tmp/wt_C14_tmp/orig")
ORIG_FILE = ORIG_DIR / "ibldsp" / "waveforms.py"
NEW_FILE = WT / "src" / "ibldsp" / "waveforms.py"

# (re)create the pristine copy from HEAD, keeping the package layout
(ORIG_DIR / "ibldsp").mkdir(parents=True, exist_ok=True)
for fn in ("__init__.py", "utils.py", "fourier.py", "waveforms.py"):
    content = subprocess.check_output(["git", "-C", str(WT), "show", f"HEAD:src/ibldsp/{fn}"])
    (ORIG_DIR / "ibldsp" / fn).write_bytes(content)

# the helper modules (ibldsp.utils / ibldsp.fourier) are taken from the worktree for both sides
sys.path.insert(0, str(WT / "src"))


def _load(name, path):
    spec = importlib.util.spec_from_file_location(name, str(path))
    mod = importlib.util.module_from_spec(spec)
    sys.modules[name] = mod
    spec.loader.exec_module(mod)
    return mod


wf_orig = _load("waveforms_orig", ORIG_FILE)
wf_new = _load("waveforms_new", NEW_FILE)
assert Path(wf_orig.__file__).resolve() == ORIG_FILE.resolve(), wf_orig.__file__
assert Path(wf_new.__file__).resolve() == NEW_FILE.resolve(), wf_new.__file__
assert ORIG_FILE.read_bytes() != NEW_FILE.read_bytes(), "the refactoring is not applied to the worktree: git apply refactor_2.diff"
import ibldsp.utils  # noqa
assert Path(ibldsp.utils.__file__).resolve().parent == (WT / "src" / "ibldsp").resolve(), ibldsp.utils.__file__

warnings.simplefilter("ignore")
N_CHECKS = 0
N_EXC = 0


def same_array(a, b, what):
    a, b = np.asarray(a), np.asarray(b)
    assert a.dtype == b.dtype, (what, a.dtype, b.dtype)
    assert a.shape == b.shape, (what, a.shape, b.shape)
    assert a.flags.c_contiguous == b.flags.c_contiguous and a.flags.f_contiguous == b.flags.f_contiguous, (what, 'layout')
    assert np.array_equal(a, b, equal_nan=a.dtype.kind in "fc"), what


def same_df(a, b, what):
    assert list(a.columns) == list(b.columns), (what, list(a.columns), list(b.columns))
    assert a.index.equals(b.index), what
    assert (a.dtypes == b.dtypes).all(), (what, a.dtypes, b.dtypes)
    for c in a.columns:
        same_array(a[c].to_numpy(), b[c].to_numpy(), (what, c))


def same(a, b, what):
    if isinstance(a, tuple):
        assert isinstance(b, tuple) and len(a) == len(b), what
        for i, (x, y) in enumerate(zip(a, b)):
            same(x, y, (what, i))
    elif isinstance(a, pd.DataFrame):
        same_df(a, b, what)
    else:
        same_array(a, b, what)


def call_both(fname, make_args, what):
    """Calls the function in both modules on independent copies of the arguments, compares results, raised exceptions
    and the (possibly mutated in place) arguments"""
    global N_CHECKS, N_EXC
    out = []
    for mod in (wf_orig, wf_new):
        args, kwargs = make_args()
        try:
            res = ("ok", getattr(mod, fname)(*args, **kwargs))
        except Exception as e:  # noqa
            res = ("exc", (type(e), str(e)))
        out.append((res, args))
    (r0, a0), (r1, a1) = out
    assert r0[0] == r1[0], (what, fname, r0, r1)
    if r0[0] == "exc":
        assert r0[1] == r1[1], (what, fname, r0[1], r1[1])
        N_EXC += 1
    else:
        same(r0[1], r1[1], (what, fname))
    for i, (x, y) in enumerate(zip(a0, a1)):
        if isinstance(x, (np.ndarray, pd.DataFrame)):
            same(x, y, (what, fname, "arg", i))
    N_CHECKS += 1
    return r0


def spike_batch(rng, nw, ns, nc, kind):
    """realistic spikes of either polarity with noise"""
    t = np.arange(ns)[np.newaxis, :, np.newaxis]
    centre = rng.integers(0, ns, size=(nw, 1, 1))
    if kind == "late":
        centre = rng.integers(max(ns - 4, 0), ns, size=(nw, 1, 1))
    elif kind == "early":
        centre = rng.integers(0, min(3, ns), size=(nw, 1, 1))
    width = rng.uniform(0.8, 4, size=(nw, 1, 1))
    pol = rng.choice([-1.0, 1.0], size=(nw, 1, 1))
    amp = rng.uniform(5, 50, size=(nw, 1, 1))
    chan_decay = np.exp(-np.abs(np.arange(nc)[np.newaxis, np.newaxis, :] - rng.integers(0, nc, size=(nw, 1, 1))) / 3)
    main = np.exp(-0.5 * ((t - centre) / width) ** 2)
    lag = rng.integers(1, 12, size=(nw, 1, 1))
    rebound = rng.uniform(0.05, 0.95, size=(nw, 1, 1)) * np.exp(-0.5 * ((t - centre - lag) / (2 * width)) ** 2)
    arr = pol * amp * (main - rebound) * chan_decay
    arr = arr + rng.normal(0, rng.choice([0, 0.01, 1.0]), size=arr.shape)
    if kind == "int":
        arr = np.round(arr).astype(np.int16)
    elif kind == "f32":
        arr = arr.astype(np.float32)
    elif kind == "nanpad" and nc > 1:
        npad = rng.integers(1, nc)
        for iw in range(nw):
            arr[iw][:, rng.choice(nc, npad, replace=False)] = np.nan
    elif kind == "ties":
        arr = np.round(arr / 10)
    elif kind == "weakpos":
        arr = np.abs(arr) * np.where(main > rebound, 1, -1) * 1.0
    elif kind == "flat":
        arr = np.zeros_like(arr)
    return arr


KINDS = ["plain", "late", "early", "int", "f32", "nanpad", "ties", "weakpos", "flat"]


def pipeline(mod, arr_in):
    """the steps of compute_spike_features one by one, returning every intermediate result"""
    df = mod.find_peak(arr_in)
    arr_peak_real = mod.get_array_peak(arr_in, df)
    arr_peak, df = mod.invert_peak_waveform(arr_peak_real.copy(), df)
    return df, arr_peak, arr_peak_real


def check_batch(arr, what, fs=30000, rec_ms=0.16):
    # main observable
    call_both("compute_spike_features", lambda: ((arr.copy(),), dict(fs=fs, recovery_duration_ms=rec_ms)), what)
    call_both("compute_spike_features",
              lambda: ((arr.copy(),), dict(fs=fs, recovery_duration_ms=rec_ms, return_peak_channel=True)), what)
    # individual mechanisms
    call_both("pick_maxima", lambda: ((arr.copy(),), {}), what)
    call_both("pick_maximum", lambda: ((arr.copy(),), {}), what)
    r = call_both("find_peak", lambda: ((arr.copy(),), {}), what)
    if r[0] != "ok":
        return
    try:
        df, arr_peak, arr_peak_real = pipeline(wf_orig, arr.copy())
    except Exception:  # noqa
        return
    idx = df["peak_time_idx"].to_numpy()
    call_both("arr_pre_post", lambda: ((arr_peak.copy(), idx.copy()), {}), what)
    call_both("arr_pre_post", lambda: ((np.asfortranarray(arr_peak), idx.copy()), {}), what)
    call_both("find_trough", lambda: ((arr_peak.copy(), df.copy()), {}), what)
    call_both("find_tip", lambda: ((arr_peak.copy(), df.copy()), {}), what)
    r = call_both("find_tip_trough", lambda: ((arr_peak.copy(), arr_peak_real.copy(), df.copy()), {}), what)
    if r[0] != "ok":
        return
    df2, arr_peak2 = r[1]
    call_both("half_peak_point", lambda: ((arr_peak2.copy(), df2.copy()), {}), what)
    for k in (0, 1, 5, arr_peak2.shape[1] - 1, arr_peak2.shape[1], arr_peak2.shape[1] + 3):
        call_both("recovery_point", lambda: ((arr_peak2.copy(), df2.copy()), dict(idx_from_trough=k)), what)
    call_both("recovery_point", lambda: ((arr_peak2.copy(), df2.copy()), {}), what)


def main():
    rng = np.random.default_rng(20240614)
    # 1. random realistic batches
    for i in range(400):
        kind = KINDS[i % len(KINDS)]
        nw, ns, nc = int(rng.integers(1, 9)), int(rng.integers(10, 201)), int(rng.integers(1, 41))
        arr = spike_batch(rng, nw, ns, nc, kind)
        check_batch(arr, ("random", i, kind, nw, ns, nc), fs=float(rng.choice([30000, 2500, 1000])),
                    rec_ms=float(rng.choice([0.16, 0.0, 0.5, 3.0])))
    # 2. 2D input (time, traces)
    for i in range(30):
        arr = spike_batch(rng, 1, int(rng.integers(10, 60)), int(rng.integers(1, 10)), KINDS[i % len(KINDS)])[0]
        check_batch(arr, ("2d", i))
    # 3. exhaustive peak / trough positions, both polarities, short waveforms
    for ns, ratios in ((10, (0.3, 0.8, 1.0)), (13, (0.8,))):
        for ipk in range(ns):
            for itr in range(ns):
                for pol in (-1.0, 1.0):
                    for ratio in ratios:
                        w = np.zeros((1, ns, 3))
                        w[0, ipk, 1] += pol * 10
                        w[0, itr, 1] += -pol * 10 * ratio
                        w[0, :, 0] = 0.1 * np.sin(np.arange(ns))
                        check_batch(w, ("exhaustive", ns, ipk, itr, pol, ratio))
    # 4. pure noise and tiny arrays (also the ones on which the code raises)
    for i in range(100):
        nw, ns, nc = int(rng.integers(1, 5)), int(rng.integers(1, 12)), int(rng.integers(1, 4))
        check_batch(rng.normal(size=(nw, ns, nc)), ("noise", i, nw, ns, nc))
    # 5. the toy arrays of the unit tests
    toy = np.array([[[1, 1, 1], [2, 2, 2], [3, 3, 3], [4, 4, 4], [-8, -7, -7], [2, 3, 4], [1, 1, 1]]]) * 1.0
    check_batch(toy, "toy")
    check_batch(-toy, "-toy")
    check_batch(np.concatenate([toy, -toy, toy[:, ::-1]]), "toy batch")
    print(f"{N_CHECKS} paired calls compared, of which {N_EXC} raised the same exception on both sides")
    print("EQUIVALENT")


if __name__ == "__main__":
    main()
    sys.exit(0)
