import sys, os; sys.path.insert(0, os.path.join(os.path.dirname(os.path.abspath(__file__)), "src"))
"""
Differential equivalence check for the C14 housekeeping change in src/ibldsp/waveforms.py.

The ``ref_*`` functions below are verbatim copies of the ORIGINAL implementations (only the names of the
functions they call among themselves carry the ``ref_`` prefix).  They are compared, on several hundred seeded
random and edge-case inputs, with the functions imported from the sources next to this file: values, dtypes,
shapes, dataframe columns / index, in-place side effects on the arguments and exception types must all be equal.
Exit code 0 when everything is identical, 1 (with a message) otherwise.
"""
import copy
import warnings

import numpy as np
import pandas as pd

import matplotlib
matplotlib.use("Agg")

from ibldsp import waveforms as new  # noqa: E402


# ---------------------------------------------------------------------------------------------------------
# Reference (original) implementations
# ---------------------------------------------------------------------------------------------------------
def ref__validate_arr_in(arr_in):
    # expand array if 2d
    if arr_in.ndim == 2:
        arr_in = arr_in[np.newaxis, :, :]

    # Init remove nan vals in entry array
    arr_in[np.isnan(arr_in)] = 0
    return arr_in


def ref_get_array_peak(arr_in, df):
    arr_in = ref__validate_arr_in(arr_in)
    arr_peak = arr_in[np.arange(arr_in.shape[0]), :, df["peak_trace_idx"].to_numpy()]
    return arr_peak


def ref_invert_peak_waveform(arr_peak, df):
    # Get the sign of the peak
    indx_pos = np.where(df["peak_val"].to_numpy() > 0)[0]
    # Flip positive wavs so all are negative
    if len(indx_pos) > 0:
        arr_peak[indx_pos, :] = -1 * arr_peak[indx_pos, :]

    df["invert_sign_peak"] = (
        np.sign(df["peak_val"]) * -1
    )  # Inverted signe peak to multiply point values by
    return arr_peak, df


def ref_arr_pre_post(arr_peak, indx_peak):
    """
    :param arr_peak: NxT waveform matrix : spikes x time, only the peak channel
    :param indx_peak: Nx1 matrix : indices of the peak for each channel
    :return:
    """
    # Create zero mask with 1 at peak, cumsum
    arr_mask = np.zeros(arr_peak.shape)
    arr_mask[np.arange(0, arr_mask.shape[0], 1), indx_peak] = 1
    arr_mask = np.cumsum(arr_mask, axis=1)
    # arr_mask[np.arange(0, arr_mask.shape[0], 1), indx_peak] = 2  # to keep peak in both cases
    # Commented code above not needed: We want to keep peak = nan when keeping pre-values

    # Pad with Nans (as cannot slice since each waveform will have different length from peak)
    indx_prepeak = np.where(arr_mask == 0)
    indx_postpeak = np.where(arr_mask == 1)
    del arr_mask

    arr_pre = arr_peak.copy()
    arr_pre = arr_pre.astype("float")
    arr_pre[
        indx_postpeak
    ] = np.nan  # Array with values pre-, nans post- peak (from peak to end)

    arr_post = arr_peak.copy()
    arr_post = arr_post.astype("float")
    arr_post[
        indx_prepeak
    ] = np.nan  # Array with values post-, nans pre- peak (from start to peak-1)
    return arr_pre, arr_post


def ref_pick_maxima(arr_in):
    """
    From one or several single or multi-trace waveforms, extract the absolute maxima for all traces
    :param: arr_in: array of waveforms; 3D dimension have to be (wav, time, trace)
    :return: indices of time peaks, values of maxima, each of shape (nwav, ntraces)
    """
    arr_in = ref__validate_arr_in(arr_in)
    max_vals = np.max(np.abs(arr_in[:, :]), axis=1)
    indx_maxs = np.argmax(np.abs(arr_in[:, :]), axis=1)
    return indx_maxs, max_vals


def ref_pick_maximum(arr_in):
    """
    From one or several single or multi-trace waveforms, extract the maximum for each wavelet.
    :param: arr_in: array of waveforms; 3D dimension have to be (wav, time, trace)
    :return: sample index of maximum, trace index of maximum, values of maximum, length of N wav
    """
    arr_in = ref__validate_arr_in(arr_in)
    indx_maxs, max_vals = ref_pick_maxima(arr_in)
    indx_trace = np.argmax(max_vals, axis=1)
    # Select maximum of absolute value as peak
    indx_peak = indx_maxs[np.arange(0, indx_maxs.shape[0], 1), indx_trace]
    # Select minimum as peak (disregarded on 02-06-2023)
    # indx_peak = np.argmin(arr_in[np.arange(arr_in.shape[0]), :, indx_trace], axis=1)
    val_peak = arr_in[np.arange(0, arr_in.shape[0], 1), indx_peak, indx_trace]

    return indx_trace, indx_peak, val_peak


def ref_find_peak(arr_in):
    """
    From one or several single or multi-trace waveforms, extract the times and associated
     values of the peak, through and tip of the peak channel
    :param: arr_in: array of waveforms; 3D dimension have to be (wav, time, trace)
    :return: indices of traces and peaks, length of N wav
    """
    arr_in = ref__validate_arr_in(arr_in)

    # 1. Find max peak (absolute deviation in STD units)
    indx_trace, indx_peak, val_peak = ref_pick_maximum(arr_in)

    # Create dict / pd df
    df = pd.DataFrame()
    df["peak_trace_idx"] = indx_trace
    df["peak_time_idx"] = indx_peak
    df["peak_val"] = val_peak
    return df


def ref_find_trough(arr_peak, df):
    # Find tip (at peak waveform)

    # Create masks pre/post
    arr_pre, arr_post = ref_arr_pre_post(arr_peak, df["peak_time_idx"].to_numpy())

    # Find trough
    # indx_trough = np.nanargmin(arr_post * np.sign(val_peak)[:, np.newaxis], axis=1)
    indx_trough = np.nanargmax(arr_post, axis=1)
    val_trough = (
        arr_peak[np.arange(0, arr_peak.shape[0], 1), indx_trough]
        * df["invert_sign_peak"].to_numpy()
    )

    # Put values into df
    df["trough_time_idx"] = indx_trough
    df["trough_val"] = val_trough

    return df


def ref_find_tip(arr_peak, df):
    # Find tip (at peak waveform)

    # Create masks pre/post
    arr_pre, arr_post = ref_arr_pre_post(arr_peak, df["peak_time_idx"].to_numpy())

    # Find tip
    """
    # 02-06-2023 ; Decided not to use the inflection point but rather maximum
    # Leaving code for now commented as legacy example

    # Inflection point
    y_dif1 = np.diff(arr_pre, axis=1)
    indx_posit = np.where(y_dif1 > 0)
    del arr_pre
    arr_cs = np.zeros(y_dif1.shape)
    arr_cs[indx_posit] = 1
    indx_tip = np.argmax(np.cumsum(arr_cs, axis=1), axis=1) + 1
    val_tip = arr_peak[np.arange(0, arr_peak.shape[0], 1), indx_tip] * df['invert_sign_peak'].to_numpy()
    del arr_cs
    """
    # Maximum
    indx_tip = np.nanargmax(arr_pre, axis=1)
    val_tip = (
        arr_peak[np.arange(0, arr_peak.shape[0], 1), indx_tip]
        * df["invert_sign_peak"].to_numpy()
    )

    # Put values into df
    df["tip_time_idx"] = indx_tip
    df["tip_val"] = val_tip

    return df


def ref_peak_to_trough_ratio(df):
    # Ratio
    df["peak_to_trough_ratio"] = np.abs(
        df["peak_val"] / df["trough_val"]
    )  # Division by 0 returns NaN
    # Ratio log-scale
    df["peak_to_trough_ratio_log"] = np.log(df["peak_to_trough_ratio"])
    return df


def ref_find_tip_trough(arr_peak, arr_peak_real, df):
    """
    :param arr_in: inverted
    :param df:
    :return:
    """
    # 2. Find trough and tip (at peak waveform)

    # Find trough
    df = ref_find_trough(arr_peak, df)
    df = ref_peak_to_trough_ratio(df)
    # If ratio of peak/trough is near 1, and peak is positive :
    # Assign trough as peak on same waveform channel
    # Call the function again to compute trough etc. with new peak assigned

    # Find df rows to be changed
    df_index = df.index[(df["peak_val"] > 0) & (df["peak_to_trough_ratio"] <= 1.5)]
    df_rows = df.iloc[df_index]
    if len(df_index) > 0:
        # New peak - Swap peak for trough values
        df_rows = df_rows.drop(["peak_val", "peak_time_idx"], axis=1)
        df_rows["peak_val"] = df_rows["trough_val"]
        df_rows["peak_time_idx"] = df_rows["trough_time_idx"]

        # df_trials.loc[iss, f] = predicted[f].values

        # Drop trough columns
        df_rows = df_rows.drop(["trough_time_idx", "trough_val"], axis=1)
        # Create mini arr_peak for those rows uniquely (take the real waveforms value in, not inverted ones)
        arr_peak_rows = arr_peak_real[df_index, :]
        # Place into "inverted" array peak for return
        arr_peak[df_index, :] = arr_peak_rows
        # Get new sign for the peak
        arr_peak_rows, df_rows = ref_invert_peak_waveform(arr_peak_rows, df_rows)
        # New trough
        df_rows = ref_find_trough(arr_peak_rows, df_rows)
        # New peak-trough ratio
        df_rows = ref_peak_to_trough_ratio(df_rows)
        # Assign back into the dataframe
        df.loc[df_index] = df_rows
    # Find tip
    df = ref_find_tip(arr_peak, df)

    return df, arr_peak


def ref_half_peak_point(arr_peak, df):
    """
    Compute the two intersection points at halp-maximum peak
    :param: arr_peak: NxT waveform matrix : spikes x time, only the peak channel (inverted for positive wavs)
    :return: df with columns containing indices of intersection points and values, length of N wav
    """
    # TODO Review: is df.to_numpy() necessary ?
    # Compute half max value, repmat and substract it
    half_max = (df["peak_val"].to_numpy() / 2) * df["invert_sign_peak"].to_numpy()
    half_max_rep = np.tile(half_max, (arr_peak.shape[1], 1)).transpose()
    # Note on the above: using np.tile because np.repeat does not work with axis=1
    # todo rewrite with np.repeat and np.newaxis
    arr_sub = arr_peak - half_max_rep
    # Create masks pre/post
    arr_pre, arr_post = ref_arr_pre_post(arr_sub, df["peak_time_idx"].to_numpy())
    # POST: Find first time it crosses 0 (from negative -> positive values)
    indx_post = np.argmax(arr_post > 0, axis=1)
    val_post = (
        arr_peak[np.arange(0, arr_peak.shape[0], 1), indx_post]
        * df["invert_sign_peak"].to_numpy()
    )
    # PRE:
    # Invert matrix (flip L-R) to find first point crossing threshold before peak
    arr_pre_flip = np.fliplr(arr_pre)
    # Find first time it crosses 0 (from negative -> positive values)
    indx_pre_flip = np.argmax(arr_pre_flip > 0, axis=1)
    # Fill a matrix of 0 with 1 at index, flip, then find index
    arr_zeros = np.zeros(arr_pre_flip.shape)
    arr_zeros[np.arange(0, arr_pre_flip.shape[0], 1), indx_pre_flip] = 1
    arr_pre_ones = np.fliplr(arr_zeros)
    # Find index where there are 1
    indx_pre = np.argmax(arr_pre_ones > 0, axis=1)
    val_pre = (
        arr_peak[np.arange(0, arr_peak.shape[0], 1), indx_pre]
        * df["invert_sign_peak"].to_numpy()
    )

    # Add columns to DF and return
    df["half_peak_post_time_idx"] = indx_post
    df["half_peak_pre_time_idx"] = indx_pre
    df["half_peak_post_val"] = val_post
    df["half_peak_pre_val"] = val_pre

    return df


def ref_recovery_point(arr_peak, df, idx_from_trough=5):
    """
    Compute the single recovery secondary point (selected by a fixed increment
    from the trough). If the fixed increment from the trough is outside the matrix boundary, the
    last value of the waveform is used.
    :param arr_peak: NxT waveform matrix : spikes x time, only the peak channel
    :param df: dataframe of waveforms features
    :param idx_from_trough: sample index to be taken into account for the second point ; index from the trough
    :return: dataframe with added columns
    """
    # Check range is not outside of matrix boundary)
    if idx_from_trough >= (arr_peak.shape[1]):
        raise ValueError("Index out of bound: Index larger than waveform array shape")

    # Check df['peak_time_idx'] + pt_idx is not out of bound
    idx_all = df["trough_time_idx"].to_numpy() + idx_from_trough
    # Find waveform(s) for which the second point is outside matrix boundary range
    idx_over = np.where(idx_all >= arr_peak.shape[1])[0]
    if len(idx_over) > 0:
        # Todo should this raise a warning ?
        idx_all[idx_over] = arr_peak.shape[1] - 1  # Take the last value of the waveform

    df["recovery_time_idx"] = idx_all
    df["recovery_val"] = (
        arr_peak[np.arange(0, arr_peak.shape[0], 1), idx_all]
        * df["invert_sign_peak"].to_numpy()
    )
    return df


def ref_compute_spike_features(
    arr_in, fs=30000, recovery_duration_ms=0.16, return_peak_channel=False
):
    # original pipeline, wired on the reference functions; the remaining steps (durations, slopes) are
    # functions the change does not touch and are taken from the module
    df = ref_find_peak(arr_in)
    # Per waveform, keep only trace that contains the peak
    arr_peak_real = ref_get_array_peak(arr_in, df)
    # Invert positive spikes
    arr_peak, df = ref_invert_peak_waveform(
        arr_peak_real.copy(), df
    )  # Copy otherwise overwrite the variable in memory
    # Tip-trough (this also computes the peak_to_trough_ratio)
    df, arr_peak = ref_find_tip_trough(arr_peak, arr_peak_real, df)
    # Peak to trough duration
    df = new.peak_to_trough_duration(df, fs=fs)
    # Half peak points
    df = ref_half_peak_point(arr_peak, df)
    # Half peak duration
    df = new.half_peak_duration(df, fs=fs)
    # Recovery point
    df = ref_recovery_point(
        arr_peak, df, idx_from_trough=int(round(recovery_duration_ms * fs / 1000))
    )
    # Slopes
    df = new.polarisation_slopes(df, fs=fs)
    df = new.recovery_slope(df, fs=fs)

    if return_peak_channel:
        return df, arr_peak_real
    else:
        return df


# ---------------------------------------------------------------------------------------------------------
# Comparison machinery
# ---------------------------------------------------------------------------------------------------------
class Mismatch(Exception):
    pass


def same(a, b, path="result"):
    """Raises Mismatch if a and b are not exactly identical (types, dtypes, shapes, values)"""
    if type(a) is not type(b):
        raise Mismatch(f"{path}: type {type(a).__name__} != {type(b).__name__}")
    if isinstance(a, (tuple, list)):
        if len(a) != len(b):
            raise Mismatch(f"{path}: length {len(a)} != {len(b)}")
        for i, (x, y) in enumerate(zip(a, b)):
            same(x, y, f"{path}[{i}]")
    elif isinstance(a, pd.DataFrame):
        if list(a.columns) != list(b.columns):
            raise Mismatch(f"{path}: columns {list(a.columns)} != {list(b.columns)}")
        if type(a.index) is not type(b.index) or not a.index.equals(b.index) or a.index.dtype != b.index.dtype:
            raise Mismatch(f"{path}: index {a.index!r} != {b.index!r}")
        for c in a.columns:
            if a[c].dtype != b[c].dtype:
                raise Mismatch(f"{path}[{c!r}]: dtype {a[c].dtype} != {b[c].dtype}")
            same(a[c].to_numpy(), b[c].to_numpy(), f"{path}[{c!r}]")
    elif isinstance(a, np.ndarray):
        if a.dtype != b.dtype:
            raise Mismatch(f"{path}: dtype {a.dtype} != {b.dtype}")
        if a.shape != b.shape:
            raise Mismatch(f"{path}: shape {a.shape} != {b.shape}")
        equal_nan = a.dtype.kind in "fc"
        if not np.array_equal(a, b, equal_nan=equal_nan):
            raise Mismatch(f"{path}: values differ")
        if a.dtype.kind == "f" and not np.array_equal(np.signbit(a), np.signbit(b)):
            raise Mismatch(f"{path}: signs of zeros / nans differ")
    elif a != b:
        raise Mismatch(f"{path}: {a!r} != {b!r}")


N_CHECKS = 0
N_EXCEPTIONS = 0
FAILURES = []


def check(label, f_ref, f_new, *args, **kwargs):
    """
    Calls both implementations on independent deep copies of the arguments and compares the outcome
    (returned value or exception type) and the arguments after the call (in-place side effects)
    """
    global N_CHECKS, N_EXCEPTIONS
    N_CHECKS += 1
    outcomes = []
    for f in (f_ref, f_new):
        a, k = copy.deepcopy(args), copy.deepcopy(kwargs)
        try:
            with warnings.catch_warnings(), np.errstate(all="ignore"):
                warnings.simplefilter("ignore")
                out = f(*a, **k)
            exc = None
        except Exception as e:  # noqa
            out, exc = None, e
        outcomes.append((out, exc, a, k))
    (o_r, e_r, a_r, k_r), (o_n, e_n, a_n, k_n) = outcomes
    try:
        if (e_r is None) != (e_n is None):
            raise Mismatch(f"exception {e_r!r} (original) != {e_n!r} (refactored)")
        if e_r is not None:
            N_EXCEPTIONS += 1
            if type(e_r) is not type(e_n):
                raise Mismatch(f"exception type {type(e_r).__name__} != {type(e_n).__name__}")
        else:
            same(o_r, o_n, "result")
        same(a_r, a_n, "args after call")
        same(sorted(k_r), sorted(k_n), "kwargs")
        for key in k_r:
            same(k_r[key], k_n[key], f"kwargs[{key!r}] after call")
    except Mismatch as m:
        FAILURES.append(f"{label}: {m}")
    return o_r if e_r is None else None


# ---------------------------------------------------------------------------------------------------------
# Input generation
# ---------------------------------------------------------------------------------------------------------
def make_batch(rng, nw, ns, nc, dtype=np.float64, nan_pad=True, forced_peak=None, forced_trough=None):
    """
    Realistic spikes (w, time, trace): a main deflection of either polarity followed / preceded by a rebound of
    the opposite sign, spatial decay around a random peak channel, additive noise, optional nan padded channels.
    """
    t = np.arange(ns)[np.newaxis, :, np.newaxis]
    ipk = rng.integers(0, ns, size=nw) if forced_peak is None else np.full(nw, forced_peak)
    itr = (np.minimum(ipk + rng.integers(1, max(2, ns // 3), size=nw), ns - 1)
           if forced_trough is None else np.full(nw, forced_trough))
    itip = np.maximum(ipk - rng.integers(1, max(2, ns // 4), size=nw), 0)
    width = rng.uniform(0.6, 4.0, size=nw)[:, np.newaxis, np.newaxis]
    sign = rng.choice([-1.0, 1.0], size=nw)[:, np.newaxis, np.newaxis]
    amp = rng.uniform(20e-6, 400e-6, size=nw)[:, np.newaxis, np.newaxis]
    # a wide range of rebound amplitudes so that both branches of the peak / trough swap are taken
    rebound = rng.uniform(0.05, 1.4, size=nw)[:, np.newaxis, np.newaxis]
    pre = rng.uniform(0.0, 0.5, size=nw)[:, np.newaxis, np.newaxis]

    def bump(i0, w):
        return np.exp(-0.5 * ((t - i0[:, np.newaxis, np.newaxis]) / w) ** 2)

    wav = sign * amp * (bump(ipk, width) - rebound * bump(itr, width * 1.7) - pre * bump(itip, width))
    cpk = rng.integers(0, nc, size=nw)
    decay = np.exp(-np.abs(np.arange(nc)[np.newaxis, :] - cpk[:, np.newaxis]) / rng.uniform(0.5, 4))
    arr = wav * decay[:, np.newaxis, :]
    arr = arr + rng.normal(0, rng.choice([0, 1e-6, 8e-6]), size=arr.shape)
    if nan_pad and nc > 1:
        for iw in np.where(rng.random(nw) < 0.3)[0]:
            pads = np.setdiff1d(rng.integers(0, nc, size=rng.integers(1, nc)), [cpk[iw]])
            arr[iw][:, pads] = np.nan
    return arr.astype(dtype)


def step_by_step(label, arr, idx_from_trough=5):
    """Compares every changed function on the intermediate state of the original pipeline"""
    check(f"{label} pick_maxima", ref_pick_maxima, new.pick_maxima, arr)
    check(f"{label} pick_maximum", ref_pick_maximum, new.pick_maximum, arr)
    df = check(f"{label} find_peak", ref_find_peak, new.find_peak, arr)
    if df is None:
        return
    arr = arr.copy()
    arr_peak_real = ref_get_array_peak(arr, df)
    arr_peak, df = ref_invert_peak_waveform(arr_peak_real.copy(), df)
    check(f"{label} arr_pre_post", ref_arr_pre_post, new.arr_pre_post, arr_peak, df["peak_time_idx"].to_numpy())
    check(f"{label} find_trough", ref_find_trough, new.find_trough, arr_peak, df)
    check(f"{label} find_tip", ref_find_tip, new.find_tip, arr_peak, df)
    out = check(f"{label} find_tip_trough", ref_find_tip_trough, new.find_tip_trough, arr_peak, arr_peak_real, df)
    if out is None:
        return
    df, arr_peak = out
    check(f"{label} half_peak_point", ref_half_peak_point, new.half_peak_point, arr_peak, df)
    with warnings.catch_warnings(), np.errstate(all="ignore"):
        warnings.simplefilter("ignore")
        df = ref_half_peak_point(arr_peak, df)
    check(f"{label} recovery_point", ref_recovery_point, new.recovery_point, arr_peak, df,
          idx_from_trough=idx_from_trough)
    check(f"{label} recovery_point default", ref_recovery_point, new.recovery_point, arr_peak, df)


def main():
    rng = np.random.default_rng(20261004)
    n_batches = 0

    # 1. random batches: lengths 10..200, 1..40 channels, both polarities, noise, nan padding, 2 dtypes
    for i in range(260):
        ns = int(rng.integers(10, 201))
        nc = int(rng.integers(1, 41))
        nw = int(rng.integers(1, 13))
        dtype = np.float32 if i % 5 == 0 else np.float64
        arr = make_batch(rng, nw, ns, nc, dtype=dtype)
        label = f"random[{i}] (nw={nw}, ns={ns}, nc={nc}, {np.dtype(dtype).name})"
        fs = float(rng.choice([30000, 2500, 10000]))
        rec = float(rng.choice([0.16, 0.1, 0.5, 1.0, 3.0]))
        check(f"{label} compute_spike_features", ref_compute_spike_features, new.compute_spike_features,
              arr, fs=fs, recovery_duration_ms=rec)
        check(f"{label} compute_spike_features peak channel", ref_compute_spike_features,
              new.compute_spike_features, arr, return_peak_channel=True)
        step_by_step(label, arr, idx_from_trough=int(rng.integers(0, ns + 3)))
        n_batches += 1

    # 2. peaks and troughs at every position of short and long waveforms, including the first and last samples
    for ns, nc in ((10, 1), (12, 4), (31, 40), (82, 7), (200, 2)):
        for ipk in range(ns):
            itr = int(min(ns - 1, ipk + 1 + (ipk % 4)))
            arr = make_batch(rng, 3, ns, nc, forced_peak=ipk, forced_trough=itr, nan_pad=bool(ipk % 2))
            label = f"position (ns={ns}, nc={nc}, peak={ipk}, trough={itr})"
            check(f"{label} compute_spike_features", ref_compute_spike_features, new.compute_spike_features, arr)
            step_by_step(label, arr, idx_from_trough=ipk)
            n_batches += 1

    # 3. hand made edge cases
    edge = {}
    edge["2d single waveform"] = make_batch(rng, 1, 60, 8)[0]
    edge["2d single channel"] = make_batch(rng, 1, 25, 1)[0]
    edge["all zeros"] = np.zeros((3, 20, 4))
    edge["all nan"] = np.full((2, 15, 3), np.nan)
    edge["constant"] = np.ones((2, 30, 5)) * -3.0
    ties = np.zeros((4, 40, 3))
    ties[:, 10, 1] = -5.0
    ties[:, 20, 1] = 5.0  # equal absolute extrema
    ties[:, 20, 2] = 5.0  # on two channels
    ties[2:, 30, 0] = -5.0
    edge["ties"] = ties
    plateau = np.zeros((2, 50, 2))
    plateau[0, 20:25, 0] = -4.0
    plateau[0, 30:35, 0] = 2.0
    plateau[1, 20:25, 1] = 4.0
    plateau[1, 30:35, 1] = -3.9
    edge["plateaus"] = plateau
    ramp = np.tile(np.linspace(-1, 1, 64)[np.newaxis, :, np.newaxis], (3, 1, 6))
    edge["monotonic ramp (extremum on first sample)"] = ramp
    edge["monotonic ramp reversed (extremum on first sample)"] = ramp[:, ::-1, :].copy()
    edge["extremum on last sample"] = np.cumsum(np.abs(rng.normal(size=(5, 33, 9))), axis=1)
    edge["integers"] = rng.integers(-50, 50, size=(6, 45, 5))
    edge["non contiguous"] = make_batch(rng, 6, 90, 12)[::2, ::3, ::2]
    edge["fortran order"] = np.asfortranarray(make_batch(rng, 4, 70, 6))
    edge["huge values"] = make_batch(rng, 4, 70, 6) * 1e300
    edge["tiny values"] = make_batch(rng, 4, 70, 6) * 1e-300
    edge["with inf"] = make_batch(rng, 4, 70, 6)
    edge["with inf"][1, 30, 2] = np.inf
    edge["with inf"][2, 12, 1] = -np.inf
    edge["shortest"] = make_batch(rng, 5, 10, 3)
    edge["too short for the default recovery"] = make_batch(rng, 5, 4, 3)
    edge["white noise"] = rng.normal(size=(40, 121, 16))
    edge["weak positive spikes"] = np.abs(make_batch(rng, 30, 80, 5, nan_pad=False)) * np.array([1.0, -0.9, 1.1, -1, 0.5])
    for name, arr in edge.items():
        label = f"edge[{name}]"
        check(f"{label} compute_spike_features", ref_compute_spike_features, new.compute_spike_features, arr)
        check(f"{label} compute_spike_features fs=2500", ref_compute_spike_features, new.compute_spike_features,
              arr, fs=2500, recovery_duration_ms=2, return_peak_channel=True)
        step_by_step(label, arr, idx_from_trough=3)
        n_batches += 1

    # 4. each waveform alone and in a batch, scaled, channels permuted: original and refactored agree on all
    for i in range(30):
        arr = make_batch(rng, 6, int(rng.integers(10, 201)), int(rng.integers(1, 41)))
        label = f"laws[{i}]"
        for iw in range(arr.shape[0]):
            check(f"{label} single {iw}", ref_compute_spike_features, new.compute_spike_features, arr[iw:iw + 1])
        check(f"{label} scaled", ref_compute_spike_features, new.compute_spike_features, arr * 3.7)
        check(f"{label} permuted", ref_compute_spike_features, new.compute_spike_features,
              arr[:, :, rng.permutation(arr.shape[2])])
        n_batches += 1

    print(f"{n_batches} input batches, {N_CHECKS} comparisons ({N_EXCEPTIONS} of them on a raised exception)")
    if FAILURES:
        print(f"NOT EQUIVALENT: {len(FAILURES)} differences, first ones:")
        for f in FAILURES[:20]:
            print("  " + f)
        return 1
    print("all results identical (values, dtypes, shapes, side effects, exception types)")
    return 0


if __name__ == "__main__":
    sys.exit(main())
