import sys, os; sys.path.insert(0, os.path.join(os.path.dirname(os.path.abspath(__file__)), "src"))  # noqa
"""
Differential equivalence check for the performance clean-up of the spike features code in ibldsp/waveforms.py:
arr_pre_post, pick_maxima, pick_maximum, find_peak, find_trough, find_tip, half_peak_point, recovery_point

The first part of this file is a verbatim copy of the ORIGINAL implementation of those functions, together with a verbatim
copy of the (unchanged) functions of the module they are chained with in compute_spike_features, so that in this file the
original names refer to a self-contained reference implementation. The second part feeds the reference and the functions
of the imported ibldsp.waveforms with the same seeded random inputs and edge cases, and compares returned values, dtypes,
shapes, memory layout, exceptions, warnings and the state of the (modified in place) arguments after the call.
Exits 0 if everything is identical, 1 otherwise.
"""
import copy
import warnings

import numpy as np
import pandas as pd

import ibldsp.waveforms as new

# ---------------------------------------------------------------------------------------------------------------
# Reference: verbatim copy of the original functions of ibldsp/waveforms.py
# ---------------------------------------------------------------------------------------------------------------


def _validate_arr_in(arr_in):
    # expand array if 2d
    if arr_in.ndim == 2:
        arr_in = arr_in[np.newaxis, :, :]

    # Init remove nan vals in entry array
    arr_in[np.isnan(arr_in)] = 0
    return arr_in


def get_array_peak(arr_in, df):
    """
    Create matrix of just NxT (spikes x time) of the peak waveforms channel (=1 channel)

    :param arr_in: NxTxC waveform matrix (spikes x time x channel) ; expands to 1xTxC if TxC as input
    :param df: dataframe of waveform features
    :return: NxT waveform matrix : spikes x time, only the peak channel
    """
    arr_in = _validate_arr_in(arr_in)
    arr_peak = arr_in[np.arange(arr_in.shape[0]), :, df["peak_trace_idx"].to_numpy()]
    return arr_peak


def invert_peak_waveform(arr_peak, df):
    # Get the sign of the peak
    indx_pos = np.where(df["peak_val"].to_numpy() > 0)[0]
    # Flip positive wavs so all are negative
    if len(indx_pos) > 0:
        arr_peak[indx_pos, :] = -1 * arr_peak[indx_pos, :]

    df["invert_sign_peak"] = (
        np.sign(df["peak_val"]) * -1
    )  # Inverted signe peak to multiply point values by
    return arr_peak, df


def arr_pre_post(arr_peak, indx_peak):
    """
    :param arr_peak: NxT waveform matrix : spikes x time, only the peak channel
    :param indx_peak: Nx1 matrix : indices of the peak for each channel
    :return:
    """
    # Create zero mask with 1 at peak, cumsum
    arr_mask = np.zeros(arr_peak.shape)
    arr_mask[np.arange(0, arr_mask.shape[0], 1), indx_peak] = 1
    arr_mask = np.cumsum(arr_mask, axis=1)
    # arr_mask[np.arange(0, arr_mask.shape[0], 1), indx_peak] = 2  # to keep peak in both cases
    # Commented code above not needed: We want to keep peak = nan when keeping pre-values

    # Pad with Nans (as cannot slice since each waveform will have different length from peak)
    indx_prepeak = np.where(arr_mask == 0)
    indx_postpeak = np.where(arr_mask == 1)
    del arr_mask

    arr_pre = arr_peak.copy()
    arr_pre = arr_pre.astype("float")
    arr_pre[
        indx_postpeak
    ] = np.nan  # Array with values pre-, nans post- peak (from peak to end)

    arr_post = arr_peak.copy()
    arr_post = arr_post.astype("float")
    arr_post[
        indx_prepeak
    ] = np.nan  # Array with values post-, nans pre- peak (from start to peak-1)
    return arr_pre, arr_post


def pick_maxima(arr_in):
    """
    From one or several single or multi-trace waveforms, extract the absolute maxima for all traces
    :param: arr_in: array of waveforms; 3D dimension have to be (wav, time, trace)
    :return: indices of time peaks, values of maxima, each of shape (nwav, ntraces)
    """
    arr_in = _validate_arr_in(arr_in)
    max_vals = np.max(np.abs(arr_in[:, :]), axis=1)
    indx_maxs = np.argmax(np.abs(arr_in[:, :]), axis=1)
    return indx_maxs, max_vals


def pick_maximum(arr_in):
    """
    From one or several single or multi-trace waveforms, extract the maximum for each wavelet.
    :param: arr_in: array of waveforms; 3D dimension have to be (wav, time, trace)
    :return: sample index of maximum, trace index of maximum, values of maximum, length of N wav
    """
    arr_in = _validate_arr_in(arr_in)
    indx_maxs, max_vals = pick_maxima(arr_in)
    indx_trace = np.argmax(max_vals, axis=1)
    # Select maximum of absolute value as peak
    indx_peak = indx_maxs[np.arange(0, indx_maxs.shape[0], 1), indx_trace]
    # Select minimum as peak (disregarded on 02-06-2023)
    # indx_peak = np.argmin(arr_in[np.arange(arr_in.shape[0]), :, indx_trace], axis=1)
    val_peak = arr_in[np.arange(0, arr_in.shape[0], 1), indx_peak, indx_trace]

    return indx_trace, indx_peak, val_peak


def find_peak(arr_in):
    """
    From one or several single or multi-trace waveforms, extract the times and associated
     values of the peak, through and tip of the peak channel
    :param: arr_in: array of waveforms; 3D dimension have to be (wav, time, trace)
    :return: indices of traces and peaks, length of N wav
    """
    arr_in = _validate_arr_in(arr_in)

    # 1. Find max peak (absolute deviation in STD units)
    indx_trace, indx_peak, val_peak = pick_maximum(arr_in)

    # Create dict / pd df
    df = pd.DataFrame()
    df["peak_trace_idx"] = indx_trace
    df["peak_time_idx"] = indx_peak
    df["peak_val"] = val_peak
    return df


def find_trough(arr_peak, df):
    # Find tip (at peak waveform)

    # Create masks pre/post
    arr_pre, arr_post = arr_pre_post(arr_peak, df["peak_time_idx"].to_numpy())

    # Find trough
    # indx_trough = np.nanargmin(arr_post * np.sign(val_peak)[:, np.newaxis], axis=1)
    indx_trough = np.nanargmax(arr_post, axis=1)
    val_trough = (
        arr_peak[np.arange(0, arr_peak.shape[0], 1), indx_trough]
        * df["invert_sign_peak"].to_numpy()
    )

    # Put values into df
    df["trough_time_idx"] = indx_trough
    df["trough_val"] = val_trough

    return df


def find_tip(arr_peak, df):
    # Find tip (at peak waveform)

    # Create masks pre/post
    arr_pre, arr_post = arr_pre_post(arr_peak, df["peak_time_idx"].to_numpy())

    # Find tip
    """
    # 02-06-2023 ; Decided not to use the inflection point but rather maximum
    # Leaving code for now commented as legacy example

    # Inflection point
    y_dif1 = np.diff(arr_pre, axis=1)
    indx_posit = np.where(y_dif1 > 0)
    del arr_pre
    arr_cs = np.zeros(y_dif1.shape)
    arr_cs[indx_posit] = 1
    indx_tip = np.argmax(np.cumsum(arr_cs, axis=1), axis=1) + 1
    val_tip = arr_peak[np.arange(0, arr_peak.shape[0], 1), indx_tip] * df['invert_sign_peak'].to_numpy()
    del arr_cs
    """
    # Maximum
    indx_tip = np.nanargmax(arr_pre, axis=1)
    val_tip = (
        arr_peak[np.arange(0, arr_peak.shape[0], 1), indx_tip]
        * df["invert_sign_peak"].to_numpy()
    )

    # Put values into df
    df["tip_time_idx"] = indx_tip
    df["tip_val"] = val_tip

    return df


def find_tip_trough(arr_peak, arr_peak_real, df):
    """
    :param arr_in: inverted
    :param df:
    :return:
    """
    # 2. Find trough and tip (at peak waveform)

    # Find trough
    df = find_trough(arr_peak, df)
    df = peak_to_trough_ratio(df)
    # If ratio of peak/trough is near 1, and peak is positive :
    # Assign trough as peak on same waveform channel
    # Call the function again to compute trough etc. with new peak assigned

    # Find df rows to be changed
    df_index = df.index[(df["peak_val"] > 0) & (df["peak_to_trough_ratio"] <= 1.5)]
    df_rows = df.iloc[df_index]
    if len(df_index) > 0:
        # New peak - Swap peak for trough values
        df_rows = df_rows.drop(["peak_val", "peak_time_idx"], axis=1)
        df_rows["peak_val"] = df_rows["trough_val"]
        df_rows["peak_time_idx"] = df_rows["trough_time_idx"]

        # df_trials.loc[iss, f] = predicted[f].values

        # Drop trough columns
        df_rows = df_rows.drop(["trough_time_idx", "trough_val"], axis=1)
        # Create mini arr_peak for those rows uniquely (take the real waveforms value in, not inverted ones)
        arr_peak_rows = arr_peak_real[df_index, :]
        # Place into "inverted" array peak for return
        arr_peak[df_index, :] = arr_peak_rows
        # Get new sign for the peak
        arr_peak_rows, df_rows = invert_peak_waveform(arr_peak_rows, df_rows)
        # New trough
        df_rows = find_trough(arr_peak_rows, df_rows)
        # New peak-trough ratio
        df_rows = peak_to_trough_ratio(df_rows)
        # Assign back into the dataframe
        df.loc[df_index] = df_rows
    # Find tip
    df = find_tip(arr_peak, df)

    return df, arr_peak


def half_peak_point(arr_peak, df):
    """
    Compute the two intersection points at halp-maximum peak
    :param: arr_peak: NxT waveform matrix : spikes x time, only the peak channel (inverted for positive wavs)
    :return: df with columns containing indices of intersection points and values, length of N wav
    """
    # TODO Review: is df.to_numpy() necessary ?
    # Compute half max value, repmat and substract it
    half_max = (df["peak_val"].to_numpy() / 2) * df["invert_sign_peak"].to_numpy()
    half_max_rep = np.tile(half_max, (arr_peak.shape[1], 1)).transpose()
    # Note on the above: using np.tile because np.repeat does not work with axis=1
    # todo rewrite with np.repeat and np.newaxis
    arr_sub = arr_peak - half_max_rep
    # Create masks pre/post
    arr_pre, arr_post = arr_pre_post(arr_sub, df["peak_time_idx"].to_numpy())
    # POST: Find first time it crosses 0 (from negative -> positive values)
    indx_post = np.argmax(arr_post > 0, axis=1)
    val_post = (
        arr_peak[np.arange(0, arr_peak.shape[0], 1), indx_post]
        * df["invert_sign_peak"].to_numpy()
    )
    # PRE:
    # Invert matrix (flip L-R) to find first point crossing threshold before peak
    arr_pre_flip = np.fliplr(arr_pre)
    # Find first time it crosses 0 (from negative -> positive values)
    indx_pre_flip = np.argmax(arr_pre_flip > 0, axis=1)
    # Fill a matrix of 0 with 1 at index, flip, then find index
    arr_zeros = np.zeros(arr_pre_flip.shape)
    arr_zeros[np.arange(0, arr_pre_flip.shape[0], 1), indx_pre_flip] = 1
    arr_pre_ones = np.fliplr(arr_zeros)
    # Find index where there are 1
    indx_pre = np.argmax(arr_pre_ones > 0, axis=1)
    val_pre = (
        arr_peak[np.arange(0, arr_peak.shape[0], 1), indx_pre]
        * df["invert_sign_peak"].to_numpy()
    )

    # Add columns to DF and return
    df["half_peak_post_time_idx"] = indx_post
    df["half_peak_pre_time_idx"] = indx_pre
    df["half_peak_post_val"] = val_post
    df["half_peak_pre_val"] = val_pre

    return df


def half_peak_duration(df, fs=30000):
    """
    Compute the half peak duration (in second)
    :param df: dataframe of waveforms features, with the half peak intersection points computed
    :param fs:  sampling rate (Hz)
    :return: dataframe wirth added column
    """
    df["half_peak_duration"] = (
        df["half_peak_post_time_idx"] - df["half_peak_pre_time_idx"]
    ) / fs
    return df


def peak_to_trough_duration(df, fs=30000):
    """
    Compute the duration (second) of the peak-to-trough
    :param df: dataframe of waveforms features
    :param fs: sampling rate (Hz)
    :return: df
    """
    # Duration
    df["peak_to_trough_duration"] = (df["trough_time_idx"] - df["peak_time_idx"]) / fs
    return df


def peak_to_trough_ratio(df):
    """
    Compute the ratio of the peak-to-trough
    :param df: dataframe of waveforms features
    :param fs: sampling rate (Hz)
    :return:
    """
    # Ratio
    df["peak_to_trough_ratio"] = np.abs(
        df["peak_val"] / df["trough_val"]
    )  # Division by 0 returns NaN
    # Ratio log-scale
    df["peak_to_trough_ratio_log"] = np.log(df["peak_to_trough_ratio"])
    return df


def polarisation_slopes(df, fs=30000):
    """
    Computes the depolarisation and repolarisation slopes as the difference between tip-peak
    and peak-trough respectively.
    :param df: dataframe of waveforms features
    :param fs: sampling frequency (Hz)
    :return: dataframe with added columns
    """
    # Depolarisation: slope before the peak (between tip and peak)
    depolarise_duration = (df["peak_time_idx"] - df["tip_time_idx"]) / fs
    depolarise_volt = df["peak_val"] - df["tip_val"]
    df["depolarisation_slope"] = depolarise_volt / depolarise_duration
    # Repolarisation: slope after the peak (between peak and trough)
    repolarise_duration = (df["trough_time_idx"] - df["peak_time_idx"]) / fs
    repolarise_volt = df["trough_val"] - df["peak_val"]
    df["repolarisation_slope"] = repolarise_volt / repolarise_duration
    return df


def recovery_point(arr_peak, df, idx_from_trough=5):
    """
    Compute the single recovery secondary point (selected by a fixed increment
    from the trough). If the fixed increment from the trough is outside the matrix boundary, the
    last value of the waveform is used.
    :param arr_peak: NxT waveform matrix : spikes x time, only the peak channel
    :param df: dataframe of waveforms features
    :param idx_from_trough: sample index to be taken into account for the second point ; index from the trough
    :return: dataframe with added columns
    """
    # Check range is not outside of matrix boundary)
    if idx_from_trough >= (arr_peak.shape[1]):
        raise ValueError("Index out of bound: Index larger than waveform array shape")

    # Check df['peak_time_idx'] + pt_idx is not out of bound
    idx_all = df["trough_time_idx"].to_numpy() + idx_from_trough
    # Find waveform(s) for which the second point is outside matrix boundary range
    idx_over = np.where(idx_all >= arr_peak.shape[1])[0]
    if len(idx_over) > 0:
        # Todo should this raise a warning ?
        idx_all[idx_over] = arr_peak.shape[1] - 1  # Take the last value of the waveform

    df["recovery_time_idx"] = idx_all
    df["recovery_val"] = (
        arr_peak[np.arange(0, arr_peak.shape[0], 1), idx_all]
        * df["invert_sign_peak"].to_numpy()
    )
    return df


def recovery_slope(df, fs=30000):
    """
    Compute the recovery slope, from the trough to the single secondary point.
    :param df: dataframe of waveforms features
    :param fs: sampling frequency (Hz)
    :return: dataframe with added columns
    """
    # Note: this could be lumped in with the polarisation_slopes
    # Time, volt and slope values
    recovery_duration = (
        df["recovery_time_idx"] - df["trough_time_idx"]
    ) / fs  # Diff between second point and peak
    recovery_volt = df["recovery_val"] - df["trough_val"]
    df["recovery_slope"] = recovery_volt / recovery_duration
    return df


def reshape_wav_one_channel(arr):
    """
    Reshape matrix so instead of being like waveforms: (wav, time, trace) i.e. (npsikes x nsamples x nchannels)
    it is of size (npsikes * nchannels) x nsamples
    :param waveforms: 3D np.array containing multi-channel waveforms, 3D dimension have to be (wav, time, trace)
    :return:
    """
    # Swap axis so the matrix is now: wav x channel x time
    arr_ax = np.swapaxes(arr, 1, 2)
    # reshape using the first 2 dimension (multiplied) x time
    arr_resh = arr_ax.reshape(-1, arr_ax.shape[-1])
    # add a new axis for computation
    arr_out = arr_resh[:, :, np.newaxis]
    return arr_out


def weights_spk_ch(arr, weight_type="peak"):
    """
    Compute a value on all channels of a waveform matrix, and return as weights (to be used in spatial spread).
    :param arr: 3D np.array containing multi-channel waveforms, 3D dimension have to be (wav, time, trace)
    :param weight_type: value to be returned as weight (implemented: peak)
    :return: weights: N(spikes) * N(channels): the weights per channel per spikes
    """
    # Reshape
    arr_resh = reshape_wav_one_channel(arr)
    # Peak
    df = find_peak(arr_resh)
    if weight_type == "peak":
        weights_flat = df["peak_val"].to_numpy()
    else:
        raise ValueError("weight_type: unknown value attributed")
    # Reshape
    # Order in DF: #1-2-3 channel of spike #1, then #1-2-3 channel spike #2 etc
    weights = np.reshape(weights_flat, (arr.shape[0], arr.shape[2]))
    return weights


def compute_spike_features(
    arr_in, fs=30000, recovery_duration_ms=0.16, return_peak_channel=False
):
    """
    This is the main function to compute spike features from a set of waveforms
    Current features:
    Index(['peak_trace_idx', 'peak_time_idx', 'peak_val', 'trough_time_idx',
       'trough_val', 'tip_time_idx', 'tip_val', 'half_peak_post_time_idx',
       'half_peak_pre_time_idx', 'half_peak_post_val', 'half_peak_pre_val',
       'half_peak_duration', 'recovery_time_idx', 'recovery_val',
       'depolarisation_slope', 'repolarisation_slope', 'recovery_slope'],
    :param arr_in: 3D np.array containing multi-channel waveforms; 3D dimension have to be (wav, time, trace)
    :param fs: sampling frequency (Hz)
    :recovery_duration_ms: in ms, the duration from the trough to the recovery point
    :param return_peak_channel: if True, return the peak channel traces
    :return: dataframe of spikes with all features,
    Returns:
    """
    df = find_peak(arr_in)
    # Per waveform, keep only trace that contains the peak
    arr_peak_real = get_array_peak(arr_in, df)
    # Invert positive spikes
    arr_peak, df = invert_peak_waveform(
        arr_peak_real.copy(), df
    )  # Copy otherwise overwrite the variable in memory
    # Tip-trough (this also computes the peak_to_trough_ratio)
    df, arr_peak = find_tip_trough(arr_peak, arr_peak_real, df)
    # Peak to trough duration
    df = peak_to_trough_duration(df, fs=fs)
    # Half peak points
    df = half_peak_point(arr_peak, df)
    # Half peak duration
    df = half_peak_duration(df, fs=fs)
    # Recovery point
    df = recovery_point(
        arr_peak, df, idx_from_trough=int(round(recovery_duration_ms * fs / 1000))
    )
    # Slopes
    df = polarisation_slopes(df, fs=fs)
    df = recovery_slope(df, fs=fs)

    if return_peak_channel:
        return df, arr_peak_real
    else:
        return df


# ---------------------------------------------------------------------------------------------------------------
# Differential harness
# ---------------------------------------------------------------------------------------------------------------
N_FAIL = 0
N_CASES = 0
N_EXC = 0


def fail(label, msg):
    global N_FAIL
    N_FAIL += 1
    if N_FAIL <= 20:
        print(f"MISMATCH [{label}]: {msg}")


def same(a, b, path="out"):
    """Exact comparison (types, dtypes, shapes, bits). Returns None if identical, a message otherwise."""
    if type(a) is not type(b):
        return f"{path}: type {type(a)} != {type(b)}"
    if isinstance(a, (tuple, list)):
        if len(a) != len(b):
            return f"{path}: len {len(a)} != {len(b)}"
        for i, (x, y) in enumerate(zip(a, b)):
            m = same(x, y, f"{path}[{i}]")
            if m:
                return m
        return None
    if isinstance(a, pd.DataFrame):
        if list(a.columns) != list(b.columns):
            return f"{path}: columns {list(a.columns)} != {list(b.columns)}"
        m = same(a.index.to_numpy(), b.index.to_numpy(), path + ".index")
        if m:
            return m
        if type(a.index) is not type(b.index):
            return f"{path}: index type {type(a.index)} != {type(b.index)}"
        for c in a.columns:
            if a[c].dtype != b[c].dtype:
                return f"{path}[{c}]: dtype {a[c].dtype} != {b[c].dtype}"
            m = same(a[c].to_numpy(), b[c].to_numpy(), f"{path}[{c}]")
            if m:
                return m
        return None
    if isinstance(a, np.ndarray):
        if a.dtype != b.dtype:
            return f"{path}: dtype {a.dtype} != {b.dtype}"
        if a.shape != b.shape:
            return f"{path}: shape {a.shape} != {b.shape}"
        if not np.array_equal(a, b, equal_nan=(a.dtype.kind in "fc")):
            return f"{path}: values differ"
        if a.dtype.kind != "O" and np.ascontiguousarray(a).tobytes() != np.ascontiguousarray(b).tobytes():
            return f"{path}: bits differ (signed zero / nan payload)"
        if a.flags["C_CONTIGUOUS"] != b.flags["C_CONTIGUOUS"] or a.flags["WRITEABLE"] != b.flags["WRITEABLE"]:
            return f"{path}: memory layout flags differ"
        return None
    if isinstance(a, (float, np.floating)):
        return None if (a == b or (a != a and b != b)) else f"{path}: {a} != {b}"
    return None if a == b else f"{path}: {a} != {b}"


def run(fun, args, kwargs):
    with warnings.catch_warnings(record=True) as wlist:
        warnings.simplefilter("always")
        try:
            out = ("ok", fun(*args, **kwargs))
        except Exception as e:  # noqa
            out = ("exc", type(e), str(e))
    return out, sorted((w.category.__name__, str(w.message)) for w in wlist)


def check(label, f_ref, f_new, make_args, **kwargs):
    """
    make_args() returns a fresh, independent tuple of arguments: the functions work in place on the arrays
    and on the dataframes, so the state of the arguments after the call is compared as well
    """
    global N_CASES, N_EXC
    N_CASES += 1
    args_ref, args_new = make_args(), make_args()
    (out_ref, w_ref), (out_new, w_new) = run(f_ref, args_ref, kwargs), run(f_new, args_new, kwargs)
    if out_ref[0] != out_new[0]:
        return fail(label, f"reference -> {out_ref[:2]} / new -> {out_new[:2]} {out_ref[2:]} {out_new[2:]}")
    if out_ref[0] == "exc":
        N_EXC += 1
        if out_ref[1] is not out_new[1] or out_ref[2] != out_new[2]:
            return fail(label, f"exceptions differ {out_ref[1:]} / {out_new[1:]}")
    else:
        m = same(out_ref[1], out_new[1])
        if m:
            return fail(label, m)
    if w_ref != w_new:
        return fail(label, f"warnings differ {w_ref} / {w_new}")
    m = same(args_ref, args_new, "args_after_call")
    if m:
        return fail(label, m)


# ---------------------------------------------------------------------------------------------------------------
# Input generators
# ---------------------------------------------------------------------------------------------------------------
def make_batch(rng, nw=None, ns=None, nc=None):
    """Realistic spikes of either polarity, with noise, peak / trough at any position, nan padded channels"""
    nw = int(rng.integers(1, 25)) if nw is None else nw
    ns = int(rng.integers(10, 201)) if ns is None else ns
    nc = int(rng.integers(1, 41)) if nc is None else nc
    t = np.arange(ns)[np.newaxis, :, np.newaxis]
    mode = rng.choice(["any", "last", "first", "inside"], p=[0.4, 0.2, 0.1, 0.3])
    if mode == "any":
        t0 = rng.integers(0, ns, size=(nw, 1, 1))
    elif mode == "last":
        t0 = rng.integers(max(0, ns - 4), ns, size=(nw, 1, 1))
    elif mode == "first":
        t0 = rng.integers(0, min(ns, 3), size=(nw, 1, 1))
    else:
        t0 = rng.integers(ns // 4, max(ns // 4 + 1, 3 * ns // 4), size=(nw, 1, 1))
    w1 = rng.uniform(0.8, 4, size=(nw, 1, 1))
    w2 = rng.uniform(2, 10, size=(nw, 1, 1))
    lag = rng.integers(2, 15, size=(nw, 1, 1)) * rng.choice([-1, 1], size=(nw, 1, 1), p=[0.2, 0.8])
    a2 = rng.uniform(0.1, 1.45, size=(nw, 1, 1))  # second lobe: when > 1 / 1.5 the peak - trough swap kicks in
    wav = -np.exp(-0.5 * ((t - t0) / w1) ** 2) + a2 * np.exp(-0.5 * ((t - t0 - lag) / w2) ** 2)
    cpk = rng.integers(0, nc, size=(nw, 1, 1))
    decay = np.exp(-np.abs(np.arange(nc)[np.newaxis, np.newaxis, :] - cpk) / rng.uniform(0.5, 6))
    polarity = rng.choice([-1.0, 1.0], size=(nw, 1, 1))
    amp = rng.uniform(1e-5, 5e-4) if rng.random() < 0.7 else rng.uniform(0.5, 50)
    arr = amp * polarity * wav * decay
    arr = arr + rng.normal(0, amp * rng.choice([0, 0.01, 0.05, 0.3]), size=arr.shape)
    kind = rng.integers(0, 10)
    if kind == 0:  # quantised: ties in the maxima and samples sitting exactly on the half peak value
        arr = np.round(arr / amp * 4)
    elif kind == 1:  # pure noise
        arr = rng.normal(size=arr.shape)
    elif kind == 2:  # small integers, lots of ties
        arr = rng.integers(-3, 4, size=arr.shape).astype(float)
    if rng.random() < 0.4 and nc > 1:  # nan padded channels
        for iw in range(nw):
            arr[iw][:, rng.random(nc) < 0.3] = np.nan
    if rng.random() < 0.1:  # scattered nans
        arr[rng.random(arr.shape) < 0.02] = np.nan
    if rng.random() < 0.25:
        arr = arr.astype(np.float32)
    if rng.random() < 0.1:  # non contiguous view
        arr = np.asfortranarray(arr)
    return arr


def make_peak_inputs(rng, n=None, ns=None, first_ok=True):
    """NxT peak channel array, with a consistent dataframe as the one the pipeline builds"""
    n = int(rng.integers(0, 20)) if n is None else n
    ns = int(rng.integers(1, 120)) if ns is None else ns
    kind = rng.integers(0, 4)
    if kind == 0:
        arr_peak = rng.normal(size=(n, ns))
    elif kind == 1:
        arr_peak = rng.integers(-4, 5, size=(n, ns)).astype(float)
    elif kind == 2:
        arr_peak = rng.normal(size=(n, ns)).astype(np.float32)
    else:
        arr_peak = np.cumsum(rng.normal(size=(n, ns)), axis=1)
    layout = rng.integers(0, 6)
    if layout == 0:
        arr_peak = np.asfortranarray(arr_peak)
    elif layout == 1:
        arr_peak = np.concatenate([arr_peak, arr_peak], axis=1)[:, ::2]
        arr_peak = arr_peak[:, :ns] if arr_peak.shape[1] >= ns else arr_peak
        ns = arr_peak.shape[1]
    lo = 0 if (first_ok or ns == 1) else 1
    mode = rng.integers(0, 4)
    if mode == 0 or n == 0:
        ipk = rng.integers(lo, ns, size=n)
    elif mode == 1:
        ipk = np.full(n, ns - 1)
    elif mode == 2:
        ipk = np.clip(np.argmax(np.abs(arr_peak), axis=1), lo, None) if ns > 0 else np.zeros(n, int)
    else:
        ipk = rng.integers(max(lo, ns - 3), ns, size=n) if ns - 3 < ns else np.zeros(n, int)
    ipk = np.asarray(ipk).astype(np.int64)
    df = pd.DataFrame()
    df["peak_trace_idx"] = rng.integers(0, 5, size=n)
    df["peak_time_idx"] = ipk
    df["peak_val"] = arr_peak[np.arange(n), ipk] if n else np.zeros(0, arr_peak.dtype)
    df["invert_sign_peak"] = np.sign(df["peak_val"]) * -1
    if rng.random() < 0.5:
        df["trough_time_idx"] = rng.integers(0, ns, size=n)
        df["trough_val"] = rng.normal(size=n)
    return arr_peak, df


def main():
    rng = np.random.default_rng(20231114)

    # 1. the whole pipeline and its callers on waveform batches -------------------------------------------------
    for i in range(450):
        arr = make_batch(rng)
        fs = float(rng.choice([30000, 30000, 2500, 20000]))
        kw = dict(fs=fs, recovery_duration_ms=float(rng.choice([0.16, 0.16, 0.0, 0.5, 1.5])),
                  return_peak_channel=bool(rng.integers(0, 2)))
        check("compute_spike_features", compute_spike_features, new.compute_spike_features, lambda: (arr.copy(order="K"),), **kw)
        if i % 3 == 0:
            check("find_peak", find_peak, new.find_peak, lambda: (arr.copy(order="K"),))
            check("pick_maximum", pick_maximum, new.pick_maximum, lambda: (arr.copy(order="K"),))
            check("pick_maxima", pick_maxima, new.pick_maxima, lambda: (arr.copy(order="K"),))
            check("weights_spk_ch", weights_spk_ch, new.weights_spk_ch, lambda: (arr.copy(order="K"),))
        if i % 5 == 0:  # single waveform given as a 2D array, the nans are replaced in the caller's array
            check("compute_spike_features 2D", compute_spike_features, new.compute_spike_features,
                  lambda: (arr[0].copy(order="K"),), **kw)
            check("pick_maxima 2D", pick_maxima, new.pick_maxima, lambda: (arr[0].copy(order="K"),))
            check("pick_maximum 2D", pick_maximum, new.pick_maximum, lambda: (arr[0].copy(order="K"),))
            check("find_peak 2D", find_peak, new.find_peak, lambda: (arr[0].copy(order="K"),))
    # edge cases: sizes, dtypes, empty and degenerate batches, read only input
    edge = [np.zeros((3, 12, 4)), np.ones((2, 10, 1)), -np.ones((2, 10, 3)), np.zeros((0, 10, 4)), np.zeros((2, 0, 4)),
            np.zeros((2, 10, 0)), np.full((2, 10, 3), np.nan), np.arange(60).reshape(2, 10, 3), -np.arange(60).reshape(2, 10, 3),
            np.arange(60).reshape(2, 10, 3).astype(np.int16), np.arange(40.).reshape(1, 10, 4)[:, ::-1, :],
            np.arange(240.).reshape(2, 30, 4)[:, ::3, ::2], np.arange(30.), np.zeros((2, 3, 4, 5)),
            np.r_[np.zeros(9), 1.0].reshape(1, 10, 1), np.r_[1.0, np.zeros(9)].reshape(1, 10, 1),
            np.r_[0, 0, 1, 2, 4, 2, 1, 0, 0, 0.].reshape(1, 10, 1), np.r_[0, -1, -2, -4, -2, 2, 3, 2, 1, 0.].reshape(1, 10, 1),
            np.r_[0, -1, -2, 4, 2, -3.5, -3, 2, 1, 0.].reshape(1, 10, 1), np.inf * np.ones((1, 10, 2))]
    for arr in edge:
        for f_ref, f_new in ((compute_spike_features, new.compute_spike_features), (find_peak, new.find_peak),
                             (pick_maximum, new.pick_maximum), (pick_maxima, new.pick_maxima)):
            check("edge " + f_ref.__name__, f_ref, f_new, lambda: (arr.copy(order="K"),))

    def read_only():
        a = make_batch(np.random.default_rng(5), 3, 20, 4)
        a.flags.writeable = False
        return (a,)
    check("read only", compute_spike_features, new.compute_spike_features, read_only)
    check("read only", pick_maxima, new.pick_maxima, read_only)

    # 2. arr_pre_post -----------------------------------------------------------------------------------------------
    for i in range(500):
        arr_peak, df = make_peak_inputs(rng)
        n, ns = arr_peak.shape
        if i % 7 == 0:
            arr_peak = (arr_peak * 3).astype([np.int64, np.int16, bool, np.float16][i % 4])
        indx = df["peak_time_idx"].to_numpy().copy()
        if i % 11 == 0 and n > 0:
            indx[rng.integers(0, n)] = rng.integers(-ns, 0)  # negative index: counted from the end
        if i % 13 == 0 and n > 0:
            indx[rng.integers(0, n)] = rng.choice([ns, ns + 3, -ns - 1])  # out of range
        if i % 17 == 0:
            indx = int(rng.integers(0, ns))  # one index for all
        if i % 19 == 0:
            indx = indx.astype([np.int32, np.uint8, np.float64][i % 3]) if isinstance(indx, np.ndarray) else indx
        if i % 23 == 0:
            indx = indx[:-1] if isinstance(indx, np.ndarray) else indx  # wrong length
        check("arr_pre_post", arr_pre_post, new.arr_pre_post, lambda: (arr_peak.copy(order="K"), copy.deepcopy(indx)))
    for arr_peak, indx in [(np.zeros((0, 5)), np.zeros(0, int)), (np.zeros((3, 0)), np.zeros(3, int)), (np.zeros(5), np.zeros(5, int)),
                           (np.zeros((2, 3, 4)), np.array([0, 2])), (np.zeros((3, 1)), np.zeros(3, int)), (np.zeros((3, 4)), [0, 3, 1])]:
        check("arr_pre_post edge", arr_pre_post, new.arr_pre_post, lambda: (arr_peak.copy(), copy.deepcopy(indx)))

    # 3. find_trough, find_tip, half_peak_point, recovery_point on peak channel arrays --------------------------
    for i in range(500):
        arr_peak, df = make_peak_inputs(rng, first_ok=(i % 4 == 0))
        ns = arr_peak.shape[1]
        if i % 9 == 0:  # a subset of the rows, as done for the peak / trough swap
            keep = np.where(rng.random(arr_peak.shape[0]) < 0.5)[0]
            arr_peak, df = arr_peak[keep, :], df.iloc[keep]
        mk = lambda: (arr_peak.copy(order="K"), df.copy())  # noqa
        check("find_trough", find_trough, new.find_trough, mk)
        check("find_tip", find_tip, new.find_tip, mk)
        check("half_peak_point", half_peak_point, new.half_peak_point, mk)
        if "trough_time_idx" in df.columns:
            ift = [0, 1, 5, ns - 1, ns, ns + 2, int(rng.integers(0, ns + 1)), np.int64(2), 2.0][i % 9]
            check("recovery_point", recovery_point, new.recovery_point, mk, idx_from_trough=ift)
            check("recovery_point default", recovery_point, new.recovery_point, mk)
    # samples sitting exactly on the half peak value, no crossing on either side, peak on the first / last sample
    for row, ipk in [([0, -2, -4, -2, 0.], 2), ([-4, -4, -4, -4.], 1), ([-4, -4, -4, -4.], 0), ([-4, -4, -4, -4.], 3),
                     ([0, 0, 0, -4.], 3), ([-4, 0, 0, 0.], 0), ([-1, -4, -3, -2, -1, 0, 1.], 1), ([0, 0, 0, 0.], 2),
                     ([1, -2, -1, -2, 1, -4, 1, -2, -1, -2, 1.], 5), ([-3, -2, -4, -2, -3.], 2)]:
        for sign in (1, -1):
            for dtype in (np.float64, np.float32, np.int64):
                arr_peak = (np.array([row, row]) * 1).astype(dtype)
                df = pd.DataFrame({"peak_time_idx": [ipk, ipk], "peak_val": arr_peak[:, ipk] * sign})
                df["invert_sign_peak"] = sign
                df["trough_time_idx"] = [len(row) - 1, 0]
                mk = lambda: (arr_peak.copy(), df.copy())  # noqa
                for f_ref, f_new in ((half_peak_point, new.half_peak_point), (find_trough, new.find_trough),
                                     (find_tip, new.find_tip), (recovery_point, new.recovery_point)):
                    check("hand made " + f_ref.__name__, f_ref, f_new, mk)

    print(f"{N_CASES} cases compared ({N_EXC} of them raise the same exception in both implementations), {N_FAIL} mismatches")
    if N_FAIL:
        print("FAILED: the refactored functions do not behave as the reference ones")
        return 1
    print("OK: refactored functions identical to the reference implementation")
    return 0


if __name__ == "__main__":
    sys.exit(main())
