import sys, os; sys.path.insert(0, os.path.join(os.path.dirname(os.path.abspath(__file__)), "src"))
"""
C14 - half-peak law of the spike features.

The half-peak points reported by ibldsp.waveforms.compute_spike_features must be the nearest samples on
either side of the peak at which the peak-channel trace is back within half of the peak value.
The oracle below is the definition, written with plain loops over the raw input; nothing from the library
is used to build it.  Waveform windows of 121 samples (the length of the stored fixture) and of 200 samples,
with the spike placed early, in the middle and late in the window, are checked.
"""
import numpy as np

import ibldsp.waveforms as waveforms


def make_batch(n_samples, peak_positions, n_channels=12, seed=0):
    """Biphasic spikes of either polarity on a few neighbouring channels, with a little noise"""
    rng = np.random.default_rng(seed)
    t = np.arange(n_samples)
    arr = np.zeros((len(peak_positions), n_samples, n_channels))
    for i, p in enumerate(peak_positions):
        polarity = -1.0 if i % 2 == 0 else 1.0
        main = np.exp(-0.5 * ((t - p) / 2.5) ** 2)          # peak, half width of ~ 6 samples
        rebound = -0.3 * np.exp(-0.5 * ((t - p - 9) / 5.0) ** 2)   # trough after the peak
        wav = polarity * 6.0 * (main + rebound)
        centre = 2 + i % (n_channels - 4)
        for c in range(n_channels):
            arr[i, :, c] = wav * np.exp(-abs(c - centre) / 1.5)
    arr += 0.05 * rng.standard_normal(arr.shape)
    return arr


def oracle_half_peak(trace, p):
    """Nearest samples before / after p where the trace is back within half of trace[p] (None if absent)"""
    v = trace[p]
    pre = post = None
    for k in range(p - 1, -1, -1):
        if trace[k] / v < 0.5:
            pre = k
            break
    for k in range(p + 1, len(trace)):
        if trace[k] / v < 0.5:
            post = k
            break
    return pre, post


def check(n_samples, peak_positions):
    arr = make_batch(n_samples, peak_positions)
    raw = arr.copy()
    df = waveforms.compute_spike_features(arr)
    problems = []
    for i in range(raw.shape[0]):
        row = df.iloc[i]
        c, p = int(row["peak_trace_idx"]), int(row["peak_time_idx"])
        trace = raw[i, :, c]
        if trace[p] != row["peak_val"]:
            problems.append(f"T={n_samples} wav {i}: peak_val {row['peak_val']} is not the trace value {trace[p]}")
            continue
        pre, post = oracle_half_peak(trace, p)
        got_pre, got_post = int(row["half_peak_pre_time_idx"]), int(row["half_peak_post_time_idx"])
        if pre is not None and got_pre != pre:
            problems.append(
                f"T={n_samples} wav {i}: peak at sample {p} (val {trace[p]:+.2f}); nearest sample before the peak "
                f"within half of the peak is {pre} (val {trace[pre]:+.2f}) but half_peak_pre_time_idx={got_pre} "
                f"(val {trace[got_pre]:+.2f}); half_peak_duration={row['half_peak_duration'] * 30000:.0f} samples "
                f"instead of {post - pre if post is not None else float('nan')}"
            )
        if post is not None and got_post != post:
            problems.append(
                f"T={n_samples} wav {i}: peak at sample {p}; nearest sample after the peak within half of the "
                f"peak is {post} but half_peak_post_time_idx={got_post}"
            )
    return problems


if __name__ == "__main__":
    problems = []
    # the window length of the library's regression fixture
    problems += check(121, [20, 42, 60, 61, 90, 110, 115])
    # longer windows, spike early / in the middle / late in the window
    problems += check(200, [20, 60, 100, 127, 128, 131, 140, 150, 170, 185, 194])
    if problems:
        print("C14 violated: half-peak points are not the nearest half-maximum samples around the peak")
        for line in problems:
            print("  " + line)
        sys.exit(1)
    print("C14 holds on all checked waveforms: half-peak points are the nearest half-maximum samples")
    sys.exit(0)
