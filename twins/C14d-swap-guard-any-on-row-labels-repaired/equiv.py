import sys, os; sys.path.insert(0, os.path.join(os.path.dirname(os.path.abspath(__file__)), "src"))
"""
C14 - spike features: peak definition (absolute extremum, or the documented peak/trough swap for weakly
positive spikes: peak > 0 and |peak / trough| <= 1.5) and independence of a waveform's features from
the rest of the batch.

The oracle is the definition written in plain NumPy, one waveform at a time.
Exit code 0: all laws hold.  Exit code 1: a law is broken (details are printed).
"""
import warnings

import numpy as np

import ibldsp.waveforms as waveforms

warnings.filterwarnings("ignore")

NS, NC, FS = 82, 12, 30000
COLS = ["peak_trace_idx", "peak_time_idx", "peak_val", "trough_time_idx", "trough_val", "tip_time_idx", "tip_val",
        "half_peak_pre_time_idx", "half_peak_post_time_idx", "recovery_time_idx", "recovery_val"]


def bump(t0, width):
    t = np.arange(NS)
    return np.exp(-0.5 * ((t - t0) / width) ** 2)


def make_spike(rng, first, second, t0=30, lag=11, channel=5):
    """Biphasic spike: a first phase of amplitude `first` at t0, a second one of amplitude `second` at t0 + lag"""
    trace = first * bump(t0, 2.5) + second * bump(t0 + lag, 4.0)
    decay = np.exp(-np.abs(np.arange(NC) - channel) / 1.5)
    return trace[:, np.newaxis] * decay[np.newaxis, :] + rng.normal(0, 0.01, (NS, NC))


def oracle(wav):
    """Definition of peak and trough for one (time, traces) waveform, plain NumPy"""
    it, ic = np.unravel_index(np.argmax(np.abs(wav)), wav.shape)
    trace = wav[:, ic]
    val = trace[it]
    if val > 0:
        itr = it + int(np.argmin(trace[it:]))  # trough of a positive spike: lowest point from the peak on
        if np.abs(val / trace[itr]) <= 1.5:
            # weakly positive spike: the trough is re-assigned as the peak, on the same channel
            it, val = itr, trace[itr]
    # trough: from the peak on, the extremum of opposite direction
    post = trace[it:]
    itr = it + int(np.argmax(post) if val < 0 else np.argmin(post))
    return dict(peak_trace_idx=int(ic), peak_time_idx=int(it), peak_val=float(val),
                trough_time_idx=int(itr), trough_val=float(trace[itr]))


def features(arr):
    return waveforms.compute_spike_features(np.array(arr, dtype=float, copy=True), fs=FS)


errors = []


def check_definition(label, arr, df):
    arr3 = arr if arr.ndim == 3 else arr[np.newaxis]
    for iw in range(arr3.shape[0]):
        expected = oracle(arr3[iw])
        for k, v in expected.items():
            got = df[k].iloc[iw]
            if not np.isclose(float(got), v, rtol=1e-9, atol=0):
                errors.append(f"{label}: waveform {iw}: {k} = {got!r}, the definition gives {v!r}")


def check_same(label, row_a, row_b):
    for k in COLS:
        a, b = float(row_a[k]), float(row_b[k])
        if not (a == b or (np.isnan(a) and np.isnan(b))):
            errors.append(f"{label}: {k} differs: {a!r} vs {b!r}")


rng = np.random.default_rng(14)
weak_pos = make_spike(rng, first=1.0, second=-0.85)    # peak/trough = 1.18 -> swap expected
weak_pos2 = make_spike(rng, first=0.8, second=-0.7, t0=25, channel=8)
strong_pos = make_spike(rng, first=1.0, second=-0.3)   # ratio 3.3 -> stays positive
neg_a = make_spike(rng, first=-1.2, second=0.35, channel=3)
neg_b = make_spike(rng, first=-0.9, second=0.30, t0=35, channel=9)

# sanity of the inputs: largest deflection is never on the first sample
for w in (weak_pos, weak_pos2, strong_pos, neg_a, neg_b):
    assert np.unravel_index(np.argmax(np.abs(w)), w.shape)[0] > 0

# 1. a single weakly positive waveform, given as (time, traces)
df_single = features(weak_pos)
check_definition("single 2D weakly positive waveform", weak_pos, df_single)

# 2. the same waveform heading a batch where it is the only weakly positive one
batch_first = np.stack([weak_pos, neg_a, strong_pos, neg_b])
df_first = features(batch_first)
check_definition("batch [weak+, neg, strong+, neg]", batch_first, df_first)

# 3. the same waveforms in another order
batch_second = np.stack([neg_a, weak_pos, strong_pos, neg_b])
df_second = features(batch_second)
check_definition("batch [neg, weak+, strong+, neg]", batch_second, df_second)

# 4. two weakly positive waveforms in the batch
batch_two = np.stack([weak_pos, neg_a, weak_pos2, neg_b])
df_two = features(batch_two)
check_definition("batch [weak+, neg, weak+ (2), neg]", batch_two, df_two)

# 5. batch independence: the features of `weak_pos` are the same wherever / with whomever it is computed
check_same("weak+ alone vs second of a batch", df_single.iloc[0], df_second.iloc[1])
check_same("weak+ first of batch (only weak+) vs second of a batch", df_first.iloc[0], df_second.iloc[1])
check_same("weak+ first of batch (only weak+) vs first of a batch with another weak+", df_first.iloc[0], df_two.iloc[0])
check_same("neg_a in batch 2 vs batch 3", df_first.iloc[1], df_second.iloc[0])

# 6. ordering law on everything computed
for label, df in (("single", df_single), ("batch_first", df_first), ("batch_second", df_second), ("batch_two", df_two)):
    bad = ~((df["tip_time_idx"] < df["peak_time_idx"]) & (df["peak_time_idx"] <= df["trough_time_idx"]))
    if bad.any():
        errors.append(f"{label}: tip < peak <= trough broken for waveforms {list(np.flatnonzero(bad.to_numpy()))}")

if errors:
    print("C14 broken: %d discrepancies" % len(errors))
    for e in errors:
        print("  - " + e)
    sys.exit(1)
print("C14 holds: peak definition (with the weakly-positive swap) and batch independence verified")
sys.exit(0)
