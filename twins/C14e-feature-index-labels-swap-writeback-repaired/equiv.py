import sys, os; sys.path.insert(0, os.path.join(os.path.dirname(os.path.abspath(__file__)), "src"))
"""
C14 - spike features: peak = global absolute extremum (or the documented trough swap for weakly
positive spikes), tip < peak <= trough, half-peak points, recovery fallback, and independence of
each waveform's features from the other waveforms of the batch.

The batch below is made of three "clusters" of synthetic spikes (NumPy only).  Every waveform is
checked against a per-waveform oracle written from the definition.  The features are computed
 - with the plain call, and
 - when the library offers it, with the waveforms labelled by their cluster id (`index=` keyword),
   which is what one does to join the features to the clusters table.
Labelling rows must not change any feature.
"""
import inspect
import warnings

import numpy as np

import ibldsp.waveforms as waveforms

warnings.filterwarnings("ignore")
FS = 30000
NS, NC = 82, 8
REC = int(round(0.16 * FS / 1000))  # recovery offset in samples


def spike(rng, amp, t0, c0, kind):
    """One (NS, NC) waveform: kind in 'neg' (regular), 'pos' (strong positive), 'weakpos' (positive, deep trough)"""
    t = np.arange(NS)[:, np.newaxis]
    if kind == "neg":
        w = -np.exp(-(((t - t0) / 2.5) ** 2)) + 0.30 * np.exp(-(((t - t0 - 11) / 6.0) ** 2))
        w = w + 0.12 * np.exp(-(((t - t0 + 7) / 3.0) ** 2))
    elif kind == "pos":
        w = np.exp(-(((t - t0) / 3.0) ** 2)) - 0.30 * np.exp(-(((t - t0 - 12) / 6.0) ** 2))
    elif kind == "weakpos":
        w = np.exp(-(((t - t0) / 3.0) ** 2)) - 0.80 * np.exp(-(((t - t0 - 9) / 4.0) ** 2))
    spatial = np.exp(-np.abs(np.arange(NC) - c0) / 1.5)[np.newaxis, :]
    return amp * (w * spatial + 0.01 * rng.standard_normal((NS, NC)))


def oracle(w):
    """Features of a single (NS, NC) waveform, from the definition"""
    w = np.where(np.isnan(w), 0, w)
    a = np.abs(w)
    ch = int(np.argmax(a.max(axis=0)))
    x = w[:, ch]
    tp = int(np.argmax(np.abs(x)))
    val = x[tp]
    y = -x if val > 0 else x  # peak pointing down
    tr = tp + int(np.argmax(y[tp:]))
    if val > 0 and abs(val / x[tr]) <= 1.5:
        # weakly positive spike: the trough becomes the peak, on the same channel
        tp, val = tr, x[tr]
        y = -x if val > 0 else x
        tr = tp + int(np.argmax(y[tp:]))
    tip = int(np.argmax(y[:tp]))
    half = y[tp] / 2
    post = [i for i in range(tp + 1, NS) if y[i] > half]
    pre = [i for i in range(tp) if y[i] > half]
    return dict(
        peak_trace_idx=ch, peak_time_idx=tp, peak_val=val, trough_time_idx=tr, trough_val=x[tr],
        tip_time_idx=tip, half_peak_post_time_idx=post[0] if post else None,
        half_peak_pre_time_idx=pre[-1] if pre else None, recovery_time_idx=min(tr + REC, NS - 1),
    )


def check(df, arr, title, first=0):
    errors = []
    if df.shape[0] != arr.shape[0]:
        return [f"{title}: {df.shape[0]} rows for {arr.shape[0]} waveforms"]
    for j in range(arr.shape[0]):
        row, ref, i = df.iloc[j], oracle(arr[j]), j + first
        for k, v in ref.items():
            if v is None:
                continue
            if not np.isclose(float(row[k]), float(v), rtol=1e-6, atol=0):
                errors.append(f"{title}: waveform {i} ({KINDS[i]}, cluster {CLUSTERS[i]}): {k} = {row[k]}, expected {v}")
        if not (row["tip_time_idx"] < row["peak_time_idx"] <= row["trough_time_idx"]):
            errors.append(f"{title}: waveform {i}: tip/peak/trough out of order")
    return errors


rng = np.random.default_rng(20240614)
# three clusters: a regular one, one whose spikes are mostly regular with a single weakly positive
# waveform (e.g. a collision / a spike recorded from the other side of the cell), a positive one
KINDS = ["neg", "neg", "neg", "neg", "weakpos", "neg", "neg", "pos", "pos", "neg"]
CLUSTERS = np.array([11, 11, 11, 27, 27, 27, 27, 40, 40, 11])
arr = np.stack([
    spike(rng, amp=rng.uniform(40, 120) * 1e-6, t0=rng.integers(28, 36), c0=rng.integers(1, NC - 1), kind=k)
    for k in KINDS
])
arr[0, :, NC - 1] = np.nan  # padded channel
arr[5, :, 0] = np.nan

errors = []
# 1. plain call
df = waveforms.compute_spike_features(arr.copy(), fs=FS)
errors += check(df, arr, "plain call")

# 2. each waveform alone: same features as within the batch
for i in range(arr.shape[0]):
    dfi = waveforms.compute_spike_features(arr[i].copy(), fs=FS)
    errors += check(dfi, arr[i:i + 1], "waveform alone", first=i)
    for k in ("peak_trace_idx", "peak_time_idx", "peak_val", "trough_time_idx", "tip_time_idx"):
        if not np.isclose(float(dfi.iloc[0][k]), float(df.iloc[i][k]), rtol=1e-6, atol=0):
            errors.append(f"batch dependence: waveform {i} {k}: alone {dfi.iloc[0][k]}, in batch {df.iloc[i][k]}")

# 3. rows labelled by cluster id, when the keyword is available
if "index" in inspect.signature(waveforms.compute_spike_features).parameters:
    dfl = waveforms.compute_spike_features(arr.copy(), fs=FS, index=CLUSTERS)
    if not np.array_equal(np.asarray(dfl.index), CLUSTERS):
        errors.append("labelled call: the index of the output is not the labels provided")
    errors += check(dfl, arr, "labelled call (index=cluster ids)")
    for k in ("peak_trace_idx", "peak_time_idx", "peak_val", "trough_time_idx", "tip_time_idx",
              "half_peak_pre_time_idx", "half_peak_post_time_idx", "recovery_time_idx"):
        bad = np.flatnonzero(~np.isclose(dfl[k].to_numpy().astype(float), df[k].to_numpy().astype(float), rtol=1e-6, atol=0))
        for i in bad:
            errors.append(f"labelled call differs from plain call: waveform {i} ({KINDS[i]}, cluster {CLUSTERS[i]}) "
                          f"{k}: {dfl[k].iloc[i]} instead of {df[k].iloc[i]}")

if errors:
    print(f"C14 violated, {len(errors)} discrepancies:")
    for e in errors[:25]:
        print("  -", e)
    print("The features of a waveform depend on the other waveforms of the batch: the peak re-assigned for the\n"
          "weakly positive spike has been written onto every waveform that shares its label, so their reported\n"
          "peak is neither the global absolute extremum of the waveform nor its own trough swap.")
    sys.exit(1)
print("C14 holds on this batch: peak/trough/tip/half-peak/recovery match the definition, alone, in batch and labelled")
sys.exit(0)
