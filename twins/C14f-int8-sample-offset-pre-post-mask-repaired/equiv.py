import sys, os; sys.path.insert(0, os.path.join(os.path.dirname(os.path.abspath(__file__)), "src"))
"""
C14 - spike features obey their ordering / extremum laws.

Builds batches of realistic multi-channel spikes (both polarities, noise, one NaN-padded channel) and
compares ibldsp.waveforms.compute_spike_features with a plain per-waveform NumPy oracle written from
the definition of each feature.  Exits 1 and prints the discrepancies if a law is broken, 0 otherwise.
"""
import warnings

import numpy as np

import ibldsp.waveforms as waveforms

warnings.filterwarnings("ignore")
FS = 30000
K_RECOVERY = int(round(0.16 * FS / 1000))


def make_batch(rng, nwav, ns, nc, peak_samples):
    """Biphasic spikes: sharp main deflection at `peak_samples`, slower opposite rebound, spatial decay, noise"""
    t = np.arange(ns)[:, np.newaxis]
    arr = np.zeros((nwav, ns, nc))
    for i in range(nwav):
        p = peak_samples[i]
        pol = -1.0 if i % 3 else 1.0  # two thirds negative spikes, one third positive
        amp = rng.uniform(40, 120)
        ch0 = rng.integers(1, nc - 1)
        decay = np.exp(-np.abs(np.arange(nc) - ch0) / 2.5)[np.newaxis, :]
        main = np.exp(-0.5 * ((t - p) / 2.5) ** 2)
        frac = 0.8 if i % 6 == 0 else 0.3  # every other positive spike is weak enough for the trough swap
        rebound = -frac * np.exp(-0.5 * ((t - p - 14) / 6.0) ** 2)
        arr[i] = pol * amp * (main + rebound) * decay + rng.normal(scale=2.0, size=(ns, nc))
    arr[0, :, nc - 1] = np.nan  # a padded channel on the first waveform
    return arr


def oracle(wav):
    """Features of one (ns, nc) waveform, straight from the definitions"""
    x = np.where(np.isnan(wav), 0.0, wav)
    ns = x.shape[0]
    p, c = np.unravel_index(np.argmax(np.abs(x)), x.shape)
    tr = x[:, c]
    v = tr[p]
    if v > 0:  # weakly positive spike: the trough on the same channel becomes the peak
        q = p + int(np.argmin(tr[p:]))
        if abs(v / tr[q]) <= 1.5:
            assert tr[q] < 0
            p, v = q, tr[q]
    s = -np.sign(v)  # orientation in which the peak points down
    w = s * tr
    out = dict(peak_trace_idx=c, peak_time_idx=p, peak_val=v)
    out["trough_time_idx"] = p + int(np.argmax(w[p:]))
    out["tip_time_idx"] = int(np.argmax(w[:p]))
    within_half = w > -abs(v) / 2  # trace back within half of the peak value
    after = np.flatnonzero(within_half[p:])
    before = np.flatnonzero(within_half[:p])
    out["half_peak_post_time_idx"] = p + int(after[0]) if after.size else None
    out["half_peak_pre_time_idx"] = int(before[-1]) if before.size else None
    out["recovery_time_idx"] = min(out["trough_time_idx"] + K_RECOVERY, ns - 1)
    for k in ("trough", "tip", "half_peak_post", "half_peak_pre", "recovery"):
        idx = out[f"{k}_time_idx"]
        out[f"{k}_val"] = None if idx is None else tr[idx]
    return out


def check(label, arr):
    problems = []
    df = waveforms.compute_spike_features(arr.copy(), fs=FS, recovery_duration_ms=0.16)
    for i in range(arr.shape[0]):
        ref = oracle(arr[i])
        row = df.iloc[i]
        if not (row.tip_time_idx < row.peak_time_idx <= row.trough_time_idx):
            problems.append(
                f"{label} wav {i}: ordering broken tip={int(row.tip_time_idx)} peak={int(row.peak_time_idx)} "
                f"trough={int(row.trough_time_idx)}"
            )
        if not (row.half_peak_pre_time_idx < row.peak_time_idx <= row.half_peak_post_time_idx):
            problems.append(
                f"{label} wav {i}: half-peak points not on either side of the peak: pre={int(row.half_peak_pre_time_idx)} "
                f"peak={int(row.peak_time_idx)} post={int(row.half_peak_post_time_idx)}"
            )
        for k, expected in ref.items():
            if expected is None:
                continue
            got = row[k]
            ok = (got == expected) if k.endswith("idx") else np.isclose(got, expected, rtol=1e-9, atol=0)
            if not ok:
                problems.append(f"{label} wav {i}: {k} = {got} but the definition gives {expected}")
    # scaling by c > 0 leaves the indices unchanged
    df_c = waveforms.compute_spike_features(arr.copy() * 3.5, fs=FS, recovery_duration_ms=0.16)
    for k in [k for k in df.columns if k.endswith("idx")]:
        if not np.array_equal(df[k].to_numpy(), df_c[k].to_numpy()):
            problems.append(f"{label}: {k} changes when the batch is scaled by 3.5")
    # each waveform alone gives the same features as in the batch
    for i in range(arr.shape[0]):
        df_1 = waveforms.compute_spike_features(arr[i].copy(), fs=FS, recovery_duration_ms=0.16)
        if not np.allclose(df_1.iloc[0].to_numpy(float), df.iloc[i].to_numpy(float), equal_nan=True, rtol=1e-9, atol=0):
            problems.append(f"{label} wav {i}: features differ when the waveform is processed alone")
    return problems


def main():
    rng = np.random.default_rng(14)
    problems = []
    # 4 ms windows (121 samples), peak around sample 42: the usual extraction window
    problems += check("121 samples", make_batch(rng, 9, 121, 12, rng.integers(38, 47, size=9)))
    # 6 ms windows (180 samples), same pre-peak margin: long tail after the spike
    problems += check("180 samples", make_batch(rng, 9, 180, 12, rng.integers(38, 47, size=9)))
    # 6 ms windows with the spike late in the window: long baseline before the spike
    problems += check("180 samples, late spike", make_batch(rng, 9, 180, 12, rng.integers(135, 150, size=9)))
    # 6 ms windows, spike in the middle
    problems += check("180 samples, centred spike", make_batch(rng, 9, 180, 12, rng.integers(85, 95, size=9)))
    if problems:
        print(f"C14 violated: {len(problems)} discrepancies between compute_spike_features and the definitions")
        for p in problems[:25]:
            print("  " + p)
        if len(problems) > 25:
            print(f"  ... and {len(problems) - 25} more")
        return 1
    print("C14 holds on all batches")
    return 0


if __name__ == "__main__":
    sys.exit(main())
