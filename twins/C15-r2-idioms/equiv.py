"""
Differential check for refactor_2.diff (idiom replacements in voltage.interpolate_bad_channels,
voltage.detect_bad_channels and voltage.detect_bad_channels_cbin: np.where(m)[0] -> np.nonzero(m)[0],
np.logical_or -> |, matmul -> @, conditional expressions -> if statements, dict literal -> dict(), ...).

Imports the ORIGINAL ibldsp.voltage from the pristine copy /tmp/wt_C15_tmp/orig/src and the REFACTORED
one from the worktree /tmp/wt_C15/src, runs both on many inputs and requires bit-identical outputs
(type, dtype, shape, values, exceptions). Prints EQUIVALENT and exits 0 on success.
"""
import inspect
import importlib
import sys
import tempfile
import warnings
from pathlib import Path

import numpy as np
import scipy.signal

ORIG_SRC = Path("/tmp/wt_C15_tmp/orig/src")
NEW_SRC = Path("/tmp/wt_C15/src")
SCRATCH = Path("/tmp/wt_C15_tmp")
_PKGS = ("ibldsp", "spikeglx", "neuropixel", "neurowaveforms")


def _purge():
    for name in list(sys.modules):
        if name.split(".")[0] in _PKGS:
            del sys.modules[name]


def load(src_dir):
    """Imports ibldsp.voltage, spikeglx and neuropixel from src_dir, isolated from other copies"""
    _purge()
    sys.path.insert(0, str(src_dir))
    try:
        mods = {name: importlib.import_module(name) for name in ("ibldsp.voltage", "spikeglx", "neuropixel")}
        for name in list(sys.modules):
            if name.split(".")[0] in _PKGS:
                f = getattr(sys.modules[name], "__file__", None)
                assert f is not None and Path(f).resolve().is_relative_to(src_dir.resolve()), (name, f, src_dir)
    finally:
        sys.path.remove(str(src_dir))
        _purge()
    return mods


ORIG = load(ORIG_SRC)
NEW = load(NEW_SRC)
assert Path(ORIG["ibldsp.voltage"].__file__).resolve() == (ORIG_SRC / "ibldsp" / "voltage.py").resolve()
assert Path(NEW["ibldsp.voltage"].__file__).resolve() == (NEW_SRC / "ibldsp" / "voltage.py").resolve()
assert ORIG["ibldsp.voltage"] is not NEW["ibldsp.voltage"]
assert ORIG["ibldsp.voltage"].spikeglx is ORIG["spikeglx"] and NEW["ibldsp.voltage"].spikeglx is NEW["spikeglx"]
# the refactoring under test must actually be present in the worktree copy and absent from the pristine one
for _name, _marker in (("interpolate_bad_channels", "gp.nonzero(weights > 0)[0]"),
                       ("detect_bad_channels", "np.nonzero("),
                       ("detect_bad_channels_cbin", "for k, v in xfeats.items()")):
    assert _marker in inspect.getsource(getattr(NEW["ibldsp.voltage"], _name)), _name
    assert _marker not in inspect.getsource(getattr(ORIG["ibldsp.voltage"], _name)), _name

vo, vn = ORIG["ibldsp.voltage"], NEW["ibldsp.voltage"]
neuropixel = ORIG["neuropixel"]
S2V_AP = neuropixel.S2V_AP

N_CHECKS = 0
COVERAGE = {}


def cover(key, n=1):
    COVERAGE[key] = COVERAGE.get(key, 0) + n


def same(a, b, path="out"):
    """Strict deep equality: types, dtypes, shapes, values (nan == nan)"""
    assert type(a) is type(b), (path, type(a), type(b))
    if isinstance(a, dict):
        assert list(a.keys()) == list(b.keys()), (path, list(a), list(b))
        for k in a:
            same(a[k], b[k], f"{path}[{k!r}]")
    elif isinstance(a, (tuple, list)):
        assert len(a) == len(b), (path, len(a), len(b))
        for i, (ia, ib) in enumerate(zip(a, b)):
            same(ia, ib, f"{path}[{i}]")
    elif isinstance(a, np.ndarray):
        assert a.dtype == b.dtype, (path, a.dtype, b.dtype)
        assert a.shape == b.shape, (path, a.shape, b.shape)
        assert np.array_equal(a, b, equal_nan=a.dtype.kind in "fc"), (path, "values differ")
    elif isinstance(a, (float, np.floating)):
        assert a == b or (np.isnan(a) and np.isnan(b)), (path, a, b)
    else:
        assert a == b, (path, a, b)


def run(fcn, *args, **kwargs):
    with warnings.catch_warnings():
        warnings.simplefilter("ignore")
        try:
            return "ok", fcn(*args, **kwargs)
        except Exception as e:  # noqa
            return "raised", (type(e).__name__, str(e))


def compare(name, make_args):
    """make_args() is called twice so that each implementation gets its own fresh (identical) inputs"""
    global N_CHECKS
    args_o, kw_o = make_args()
    args_n, kw_n = make_args()
    ro = run(getattr(vo, name), *args_o, **kw_o)
    rn = run(getattr(vn, name), *args_n, **kw_n)
    assert ro[0] == rn[0], (name, ro[0], rn[0], ro[1] if ro[0] == "raised" else None, rn[1] if rn[0] == "raised" else None)
    same(ro[1], rn[1], name)
    # inputs must have been mutated (or not) identically
    same(list(args_o), list(args_n), name + ":args")
    same(kw_o, kw_n, name + ":kwargs")
    N_CHECKS += 1
    return ro, args_o, kw_o


# ----------------------------------------------------------------------------------------------
# interpolate_bad_channels
# ----------------------------------------------------------------------------------------------
def geometries(rng):
    out = []
    for version in (1, 2):
        h = neuropixel.trace_header(version=version)
        out.append((f"np{version}", h["x"].astype(np.float64), h["y"].astype(np.float64)))
    h = neuropixel.trace_header(version=1)
    out.append(("np1_f32", h["x"].astype(np.float32), h["y"].astype(np.float32)))
    out.append(("np1_int", h["x"].astype(np.int64), h["y"].astype(np.int64)))
    out.append(("linear32", np.zeros(32), np.arange(32) * 20.0))
    out.append(("random48", rng.uniform(0, 60, 48), rng.uniform(0, 500, 48)))
    out.append(("single", np.zeros(1), np.zeros(1)))
    out.append(("pair", np.zeros(2), np.array([0.0, 20.0])))
    out.append(("sparse16", np.zeros(16), np.arange(16) * 200.0))  # no neighbour within reach
    return out


def label_vectors(rng, nc):
    yield "all_good", np.zeros(nc)
    yield "all_dead", np.ones(nc)
    yield "all_noisy", np.ones(nc) * 2
    yield "all_outside", np.ones(nc) * 3
    lab = np.zeros(nc)
    lab[0] = 1
    yield "first", lab
    lab = np.zeros(nc)
    lab[-1] = 2
    yield "last", lab
    lab = np.zeros(nc)
    lab[[0, -1]] = [2, 1]
    yield "both_ends", lab
    lab = np.zeros(nc)
    lab[: max(1, nc // 3)] = 1
    yield "cluster_bottom", lab
    lab = np.zeros(nc)
    lab[-max(1, nc // 3):] = 2
    yield "cluster_top", lab
    lab = np.zeros(nc)
    lab[nc // 2 - nc // 8: nc // 2 + nc // 8 + 1] = 1
    lab[-max(1, nc // 10):] = 3
    yield "cluster_mid_outside_top", lab
    lab = np.ones(nc)
    lab[nc // 2] = 3
    yield "only_outside_left", lab
    for k in range(6):
        yield f"random{k}", rng.integers(0, 4, nc).astype(np.float64)
    yield "random_int", rng.integers(0, 4, nc)
    yield "random_sparse", (rng.uniform(size=nc) < 0.05) * rng.integers(1, 3, nc)


def check_interpolate(rng):
    for gname, x, y in geometries(rng):
        nc = x.size
        for lname, labels in label_vectors(rng, nc):
            for dtype in (np.float32, np.float64):
                for kwargs in ({}, {"p": 2.0, "kriging_distance_um": 40}, {"p": 0.7, "kriging_distance_um": 5}):
                    if kwargs and not lname.startswith(("random0", "cluster", "both")):
                        continue
                    seed = int(rng.integers(0, 2 ** 31))

                    def make(seed=seed, dtype=dtype, labels=labels, x=x, y=y, kwargs=kwargs, nc=nc):
                        data = np.random.default_rng(seed).normal(size=(nc, 37)).astype(dtype)
                        return [data], dict(channel_labels=labels.copy(), x=x.copy(), y=y.copy(), **kwargs)

                    (status, out), args, _ = compare("interpolate_bad_channels", make)
                    cover("interp:" + status)
                    if status == "ok":
                        assert out is args[0]  # in-place contract kept by the original
                        ref = make()[0][0]
                        touched = np.any(out != ref, axis=1) | np.any(np.isnan(out), axis=1)
                        cover("interp:channels_modified", int(touched.sum()))
                        cover("interp:channels_zeroed", int(np.sum(np.all(out == 0, axis=1))))
    # integer data, C/F order, non-contiguous views
    h = neuropixel.trace_header(version=1)
    labels = np.zeros(384)
    labels[[0, 1, 2, 100, 101, 383]] = [1, 2, 1, 2, 2, 1]
    labels[370:380] = 3
    compare("interpolate_bad_channels", lambda: (
        [np.random.default_rng(1).integers(-500, 500, (384, 50)).astype(np.int16)],
        dict(channel_labels=labels, x=h["x"], y=h["y"])))
    compare("interpolate_bad_channels", lambda: (
        [np.asfortranarray(np.random.default_rng(2).normal(size=(384, 50)))],
        dict(channel_labels=labels, x=h["x"], y=h["y"])))
    compare("interpolate_bad_channels", lambda: (
        [np.random.default_rng(3).normal(size=(384, 100))[:, ::2]],
        dict(channel_labels=labels, x=h["x"], y=h["y"])))
    # positional arguments
    compare("interpolate_bad_channels", lambda: (
        [np.random.default_rng(4).normal(size=(384, 20)), labels.copy(), h["x"].copy(), h["y"].copy(), 1.0, 30], {}))
    # error paths: defaults (no labels / no geometry), gpu without cupy, mismatching sizes, list inputs
    for kw in (
        dict(),
        dict(channel_labels=labels),
        dict(channel_labels=labels, x=h["x"]),
        dict(channel_labels=labels, x=h["x"], y=h["y"], gpu=True),
        dict(channel_labels=labels[:100], x=h["x"], y=h["y"]),
        dict(channel_labels=labels, x=h["x"][:100], y=h["y"][:100]),
        dict(channel_labels=labels, x=h["x"], y=h["y"][:100]),
        dict(channel_labels=list(labels), x=h["x"], y=h["y"]),
        dict(channel_labels=labels, x=list(h["x"]), y=list(h["y"])),
        dict(channel_labels=labels.astype(bool), x=h["x"], y=h["y"]),
        dict(channel_labels=labels, x=h["x"], y=h["y"], kriging_distance_um=0),
        dict(channel_labels=labels, x=h["x"], y=h["y"], p=0),
        dict(channel_labels=labels, x=h["x"] * np.nan, y=h["y"]),
    ):
        (status, _), _, _ = compare("interpolate_bad_channels", lambda kw=kw: (
            [np.random.default_rng(5).normal(size=(384, 20))], {k: (v.copy() if isinstance(v, np.ndarray) else v)
                                                                 for k, v in kw.items()}))
        cover("interp_edge:" + status)
    compare("interpolate_bad_channels", lambda: (
        [np.random.default_rng(6).normal(size=384)], dict(channel_labels=labels, x=h["x"], y=h["y"])))


# ----------------------------------------------------------------------------------------------
# detect_bad_channels
# ----------------------------------------------------------------------------------------------
_SYN_CACHE = {}


def synthetic(seed, nc=384, ns=3000, fs=30000, dead=(), noisy=(), incoherent=(), top=0, dtype=np.float64,
              common_uv=30.0, noise_uv=3.0):
    """
    Coherent background (band-limited common signal on every channel + small independent noise), in Volts
    dead: silent channels, noisy: strong broadband noise added, incoherent: channels without the
    common signal, top: size of the block at the tip of the array without the common signal
    With the original implementation this yields exactly: dead -> 1, noisy -> 2, top block -> 3, rest -> 0
    """
    key = (seed, nc, ns, tuple(dead), tuple(noisy), tuple(incoherent), top, np.dtype(dtype).str, common_uv, noise_uv)
    if key in _SYN_CACHE:
        return _SYN_CACHE[key].copy()
    rng = np.random.default_rng(seed)
    sos = scipy.signal.butter(4, 0.3, output="sos")
    common = scipy.signal.sosfiltfilt(sos, rng.normal(size=ns + 200))[100:-100]
    common = common / np.std(common) * common_uv
    gain = np.ones(nc)
    gain[list(incoherent)] = 0
    if top > 0:
        gain[-top:] = 0
    raw = gain[:, np.newaxis] * common[np.newaxis, :] + rng.normal(size=(nc, ns)) * noise_uv
    for i in dead:
        raw[i, :] = rng.normal(size=ns) * 1e-3
    for i in noisy:
        raw[i, :] += rng.normal(size=ns) * 80.0
    _SYN_CACHE.clear()  # keeps only the last one: each input is requested twice in a row
    _SYN_CACHE[key] = (raw * 1e-6).astype(dtype)
    return _SYN_CACHE[key].copy()


def check_detect(rng):
    def go(tag, make):
        (status, out), _, _ = compare("detect_bad_channels", make)
        cover("detect:" + status)
        if status == "ok":
            labels = out[0]
            for v in (0, 1, 2, 3):
                cover(f"detect:label{v}", int(np.sum(labels == v)))
            if np.any(out[1]["xcor_lf"] < -0.75) and not np.any(labels == 3):
                cover("detect:below_lf_threshold_but_no_label3")
            if np.any(labels == 3):
                cover("detect:recordings_with_label3")
        return status, out

    # fault positions over the whole probe, AP band
    for k, pos in enumerate(list(range(0, 384, 32)) + [1, 2, 191, 192, 381, 382, 383]):
        seed = 1000 + k
        go("dead", lambda: ([synthetic(seed, dead=[pos]), 30000], {}))
        go("noisy", lambda: ([synthetic(seed, noisy=[pos])], {"fs": 30000}))
        go("both", lambda: ([synthetic(seed, dead=[pos], noisy=[(pos + 57) % 384]), 30000], {}))
    # top blocks 0..40
    for top in range(0, 41):
        seed = 2000 + top
        go("top", lambda: ([synthetic(seed, top=top), 30000], {}))
    # top blocks with faults inside / adjacent, and several disjoint incoherent blocks
    for k in range(12):
        seed = 3000 + k
        r = np.random.default_rng(seed)
        top = int(r.integers(0, 41))
        dead = list(r.integers(0, 384, int(r.integers(0, 4))))
        noisy = list(r.integers(0, 384, int(r.integers(0, 4))))
        start = int(r.integers(20, 300))
        inco = list(range(start, start + int(r.integers(1, 30))))
        go("mix", lambda: ([synthetic(seed, top=top, dead=dead, noisy=noisy, incoherent=inco), 30000], {}))
    # incoherent blocks that do not reach the top: rule for label 3 must not fire / two blocks, one at the top
    go("mid_block", lambda: ([synthetic(11, incoherent=range(100, 140)), 30000], {}))
    go("near_top", lambda: ([synthetic(12, incoherent=range(340, 383)), 30000], {}))
    go("two_blocks", lambda: ([synthetic(13, incoherent=range(200, 240), top=25), 30000], {}))
    go("three_blocks", lambda: ([synthetic(14, incoherent=list(range(50, 80)) + list(range(200, 240)), top=33), 30000], {}))
    go("gap_in_top", lambda: ([synthetic(15, incoherent=range(330, 360), top=20), 30000], {}))
    go("all_incoherent", lambda: ([synthetic(16, top=384), 30000], {}))
    go("clusters", lambda: ([synthetic(17, dead=range(10, 16), noisy=range(300, 305)), 30000], {}))
    # thresholds given explicitly (tuple, list, array), with very permissive / strict values
    for st in ((-0.5, 1), [-0.2, 0.3], np.array([-0.05, 0.05]), (-10, 10), (0.5, -0.5), (np.nan, np.nan)):
        for pt in (None, 0.02, 0.001, 1e6, 0, np.float32(0.02), np.nan):
            go("thr", lambda: ([synthetic(21, nc=96, dead=[5, 60], noisy=[50, 95], top=17), 30000],
                               {"similarity_threshold": st, "psd_hf_threshold": pt}))
    go("thr_pos", lambda: ([synthetic(22, dead=[7], top=9), 30000, (-0.4, 0.9), 0.05, False], {}))
    # LF band, sampling frequencies around the band switch
    for fs in (2500, 2600, 2601, 1000, 30000.0, 2500.0, 12500):
        go("fs", lambda: ([synthetic(31, fs=fs, dead=[40], noisy=[300], top=12), fs], {}))
    # dtypes, sizes
    for dtype in (np.float32, np.float64):
        for nc in (384, 96, 32, 12, 3, 2, 1):
            go("size", lambda: ([synthetic(41, nc=nc, ns=2000, dead=[0] if nc > 3 else [], top=nc // 4, dtype=dtype), 30000], {}))
    go("int16", lambda: ([(synthetic(42, dead=[3], top=10) / S2V_AP).astype(np.int16), 30000], {}))
    go("short", lambda: ([synthetic(43, ns=200), 30000], {}))
    go("batch_size", lambda: ([synthetic(43, ns=9000, dead=[33], noisy=[34], top=30), 30000], {}))
    go("odd_ns", lambda: ([synthetic(44, ns=4001, top=8), 30000], {}))
    # degenerate data: zeros, constants, nans, random seeds without any common signal
    go("zeros", lambda: ([np.zeros((64, 2000)), 30000], {}))
    go("ones", lambda: ([np.ones((64, 2000)), 30000], {}))
    go("nan_channel", lambda: ([np.where(np.arange(384)[:, None] == 9, np.nan, synthetic(45)), 30000], {}))
    for k in range(6):
        go("white", lambda: ([np.random.default_rng(50 + k).normal(size=(384, 3000)) * 1e-5, 30000], {}))
    # error paths
    for args, kw in (
        ([np.zeros(100), 30000], {}),
        ([np.zeros((4, 5, 6)), 30000], {}),
        ([np.zeros((0, 100)), 30000], {}),
        ([np.zeros((10, 0)), 30000], {}),
        ([synthetic(46, nc=16, ns=1000), 30000], {"similarity_threshold": 0.5}),
        ([synthetic(46, nc=16, ns=1000), 30000], {"similarity_threshold": (0.5,)}),
        ([synthetic(46, nc=16, ns=1000), None], {}),
        ([synthetic(46, nc=16, ns=1000), 0], {}),
        ([synthetic(46, nc=16, ns=1000), 30000], {"psd_hf_threshold": "a"}),
        ([list(map(list, synthetic(46, nc=16, ns=1000))), 30000], {}),
    ):
        status, _ = go("err", lambda: ([a.copy() if isinstance(a, np.ndarray) else a for a in args], dict(kw)))
        cover("detect_edge:" + status)


# ----------------------------------------------------------------------------------------------
# detect_bad_channels_cbin (calls detect_bad_channels on evenly spaced batches, returns the mode)
# ----------------------------------------------------------------------------------------------
def write_bin(path, seed, duration=0.6, fs=30000, **kwargs):
    ns = int(duration * fs)
    raw = synthetic(seed, ns=ns, fs=fs, **kwargs)
    # make one fault intermittent so that the mode across batches matters
    raw[77, : ns // 3] = 0
    data = np.zeros((ns, 385), dtype=np.int16)
    data[:, :384] = np.round(raw.T / S2V_AP).astype(np.int16)
    data.tofile(path)
    return path


def check_cbin():
    global N_CHECKS
    with tempfile.TemporaryDirectory(dir=SCRATCH) as td:
        files = [
            write_bin(Path(td) / "a.bin", 61, dead=[12], noisy=[200], top=21),
            write_bin(Path(td) / "b.bin", 62, dead=[0, 383], noisy=[100, 101], incoherent=range(150, 170)),
        ]
        for j, f in enumerate(files):
            kws = [{"n_batches": 3, "batch_duration": 0.1}, {"n_batches": 7, "batch_duration": 0.05},
                   {"n_batches": 1, "batch_duration": 0.1}, {"n_batches": 4, "batch_duration": 0.15}, {"n_batches": 0},
                   {"display": True, "n_batches": 2, "batch_duration": 0.1}, {"n_batches": 2.5}]
            # the default parameters and a batch longer than the file are slow: only once each
            kws.append({} if j == 0 else {"n_batches": 2, "batch_duration": 1.5})
            for kw in kws:
                ro = run(vo.detect_bad_channels_cbin, f, **kw)
                rn = run(vn.detect_bad_channels_cbin, f, **kw)
                assert ro[0] == rn[0], (kw, ro, rn)
                same(ro[1], rn[1], "cbin")
                N_CHECKS += 1
                cover("cbin:" + ro[0])
                if ro[0] == "ok":
                    for v in (0, 1, 2, 3):
                        cover(f"cbin:label{v}", int(np.sum(ro[1] == v)))
            # Reader instances (one per implementation as each has its own spikeglx module)
            sro, srn = ORIG["spikeglx"].Reader(f), NEW["spikeglx"].Reader(f)
            ro = run(vo.detect_bad_channels_cbin, sro, n_batches=3, batch_duration=0.1)
            rn = run(vn.detect_bad_channels_cbin, srn, n_batches=3, batch_duration=0.1)
            assert ro[0] == rn[0] == "ok", (ro, rn)
            same(ro[1], rn[1], "cbin_reader")
            N_CHECKS += 1
            sro.close()
            srn.close()
        ro = run(vo.detect_bad_channels_cbin, Path(td) / "missing.bin")
        rn = run(vn.detect_bad_channels_cbin, Path(td) / "missing.bin")
        assert ro[0] == rn[0] == "raised"
        same(ro[1], rn[1])
        N_CHECKS += 1


if __name__ == "__main__":
    rng = np.random.default_rng(20240915)
    check_interpolate(rng)
    check_detect(rng)
    check_cbin()
    for k in sorted(COVERAGE):
        print(f"  {k}: {COVERAGE[k]}")
    # make sure the interesting paths were really exercised
    assert COVERAGE.get("interp:channels_zeroed", 0) > 0 and COVERAGE.get("interp:channels_modified", 0) > 0
    assert all(COVERAGE.get(f"detect:label{v}", 0) > 0 for v in (0, 1, 2, 3))
    assert COVERAGE.get("detect:below_lf_threshold_but_no_label3", 0) > 0
    assert COVERAGE.get("cbin:ok", 0) > 0
    print(f"{N_CHECKS} comparisons, original: {vo.__file__}, refactored: {vn.__file__}")
    print("EQUIVALENT")
    sys.exit(0)
