import sys, os; sys.path.insert(0, os.path.join(os.path.dirname(os.path.abspath(__file__)), "src"))
"""
Differential equivalence check for the modernisation of (src/ibldsp/voltage.py)
    interpolate_bad_channels, detect_bad_channels, detect_bad_channels_cbin

The three functions below the REFERENCE banner are verbatim copies of the original implementations;
they are compared bit for bit (values, dtype, shape, exception type, in-place side effects) with the
functions imported from the sources next to this file on several hundred seeded random inputs.
Exits 0 when everything is identical, 1 with a message otherwise.
"""
import tempfile
import warnings
from pathlib import Path

import numpy as np
import scipy.signal
import scipy.stats
import scipy.fft  # noqa

from iblutil.numerical import rcoeff
import spikeglx
import neuropixel

import ibldsp.utils as utils
import ibldsp.plots
import ibldsp.voltage as voltage

# ------------------------------------------------------------------------------------------------
# REFERENCE: verbatim copies of the original implementations (git HEAD)
# ------------------------------------------------------------------------------------------------


def interpolate_bad_channels(
    data, channel_labels=None, x=None, y=None, p=1.3, kriging_distance_um=20, gpu=False
):
    """
    Interpolate the channel labeled as bad channels using linear interpolation.
    The weights applied to neighbouring channels come from an exponential decay function
    :param data: (nc, ns) np.ndarray
    :param channel_labels; (nc) np.ndarray: 0: channel is good, 1: dead, 2:noisy, 3: out of the brain
    :param x: channel x-coordinates, np.ndarray
    :param y: channel y-coordinates, np.ndarray
    :param p:
    :param kriging_distance_um:
    :param gpu: bool
    :return:
    """
    if gpu:
        import cupy as gp
    else:
        gp = np

    # from ibllib.plots.figures import ephys_bad_channels
    # ephys_bad_channels(x, 30000, channel_labels[0], channel_labels[1])

    # we interpolate only noisy channels or dead channels (0: good), out of the brain channels are left
    bad_channels = gp.where(np.logical_or(channel_labels == 1, channel_labels == 2))[0]
    for i in bad_channels:
        # compute the weights to apply to neighbouring traces
        offset = gp.abs(x - x[i] + 1j * (y - y[i]))
        weights = gp.exp(-((offset / kriging_distance_um) ** p))
        weights[bad_channels] = 0
        weights[weights < 0.005] = 0
        weights = weights / gp.sum(weights)
        imult = gp.where(weights > 0)[0]
        if imult.size == 0:
            data[i, :] = 0
            continue
        data[i, :] = gp.matmul(weights[imult], data[imult, :])
    # from viewephys.gui import viewephys
    # f = viewephys(data.T, fs=1/30, h=h, title='interp2')
    return data


def detect_bad_channels(raw, fs, similarity_threshold=(-0.5, 1), psd_hf_threshold=None, display=False):
    """
    Bad channels detection for Neuropixel probes
    Labels channels
     0: all clear
     1: dead low coherence / amplitude
     2: noisy
     3: outside of the brain
    :param raw: [nc, ns]
    :param fs: sampling frequency
    :param similarity_threshold:
    :param psd_hf_threshold:
    :param display: optinal (False) will show a plot of features alongside a raw data snippet
    :return: labels (numpy vector [nc]), xfeats: dictionary of features [nc]
    """

    def rneighbours(raw, n=1):  # noqa
        """
        Computes Pearson correlation with the sum of neighbouring traces
        :param raw: nc, ns
        :param n:
        :return:
        """
        nc = raw.shape[0]
        mixer = np.triu(np.ones((nc, nc)), 1) - np.triu(np.ones((nc, nc)), 1 + n)
        mixer += np.tril(np.ones((nc, nc)), -1) - np.tril(np.ones((nc, nc)), -n - 1)
        r = rcoeff(raw, np.matmul(raw.T, mixer).T)
        r[np.isnan(r)] = 0
        return r

    def detrend(x, nmed):
        """
        Subtract the trend from a vector
        The trend is a median filtered version of the said vector with tapering
        :param x: input vector
        :param nmed: number of points of the median filter
        :return: np.array
        """
        ntap = int(np.ceil(nmed / 2))
        xf = np.r_[np.zeros(ntap) + x[0], x, np.zeros(ntap) + x[-1]]
        # assert np.all(xcorf[ntap:-ntap] == xcor)
        xf = scipy.signal.medfilt(xf, nmed)[ntap:-ntap]
        return x - xf

    def channels_similarity(raw, nmed=0):
        """
        Computes the similarity based on zero-lag crosscorrelation of each channel with the median
        trace referencing
        :param raw: [nc, ns]
        :param nmed:
        :return:
        """

        def fxcor(x, y):
            return scipy.fft.irfft(
                scipy.fft.rfft(x) * np.conj(scipy.fft.rfft(y)), n=raw.shape[-1]
            )

        def nxcor(x, ref):
            ref = ref - np.mean(ref)
            apeak = fxcor(ref, ref)[0]
            x = x - np.mean(x, axis=-1)[:, np.newaxis]  # remove DC component
            return fxcor(x, ref)[:, 0] / apeak

        ref = np.median(raw, axis=0)
        xcor = nxcor(raw, ref)

        if nmed > 0:
            xcor = detrend(xcor, nmed) + 1
        return xcor

    nc, _ = raw.shape
    raw = raw - np.mean(raw, axis=-1)[:, np.newaxis]  # removes DC offset
    xcor = channels_similarity(raw)
    fscale, psd = scipy.signal.welch(raw * 1e6, fs=fs)  # units; uV ** 2 / Hz
    # auto-detection of the band with which we are working
    band = 'ap' if fs > 2600 else 'lf'
    # the LFP band data is obviously much stronger so auto-adjust the default threshold
    if band == 'ap':
        psd_hf_threshold = 0.02 if psd_hf_threshold is None else psd_hf_threshold
        filter_kwargs = {"N": 3, "Wn": 300 / fs * 2, "btype": "highpass"}
    elif band == 'lf':
        psd_hf_threshold = 1.4 if psd_hf_threshold is None else psd_hf_threshold
        filter_kwargs = {"N": 3, "Wn": 1 / fs * 2, "btype": "highpass"}
    sos_hp = scipy.signal.butter(**filter_kwargs, output="sos")
    hf = scipy.signal.sosfiltfilt(sos_hp, raw)
    xcorf = channels_similarity(hf)
    xfeats = {
        "ind": np.arange(nc),
        "rms_raw": utils.rms(raw),  # very similar to the rms avfter butterworth filter
        "xcor_hf": detrend(xcor, 11),
        "xcor_lf": xcorf - detrend(xcorf, 11) - 1,
        "psd_hf": np.mean(psd[:, fscale > (fs / 2 * 0.8)], axis=-1),  # 80% nyquists
    }

    # make recommendation
    ichannels = np.zeros(nc)
    idead = np.where(similarity_threshold[0] > xfeats["xcor_hf"])[0]
    inoisy = np.where(
        np.logical_or(
            xfeats["psd_hf"] > psd_hf_threshold,
            xfeats["xcor_hf"] > similarity_threshold[1],
        )
    )[0]
    # the channels outside of the brains are the contiguous channels below the threshold on the trend coherency
    ioutside = np.where(xfeats["xcor_lf"] < -0.75)[0]  # fixme: hardcoded threshold
    if ioutside.size > 0 and ioutside[-1] == (nc - 1):
        a = np.cumsum(np.r_[0, np.diff(ioutside) - 1])
        ioutside = ioutside[a == np.max(a)]
        ichannels[ioutside] = 3

    # indices
    ichannels[idead] = 1
    ichannels[inoisy] = 2
    # from ibllib.plots.figures import ephys_bad_channels
    # ephys_bad_channels(x, 30000, ichannels, xfeats)
    if display:
        ibldsp.plots.show_channels_labels(
            raw, fs, ichannels, xfeats, similarity_threshold=similarity_threshold, psd_hf_threshold=psd_hf_threshold)
    return ichannels, xfeats


def detect_bad_channels_cbin(bin_file, n_batches=10, batch_duration=0.3, display=False):
    """
    Runs a ap-binary file scan to automatically detect faulty channels
    :param bin_file: full file path to the binary or compressed binary file from spikeglx
    :param n_batches: number of batches throughout the file (defaults to 10)
    :param batch_duration: batch length in seconds, defaults to 0.3
    :param display: if True will return a figure with features and an excerpt of the raw data
    :return: channel_labels: nc int array with 0:ok, 1:dead, 2:high noise, 3:outside of the brain
    """
    sr = (
        bin_file if isinstance(bin_file, spikeglx.Reader) else spikeglx.Reader(bin_file)
    )
    nc = sr.nc - sr.nsync
    channel_labels = np.zeros((nc, n_batches))
    # loop over the file and take the mode of detections
    for i, t0 in enumerate(np.linspace(0, sr.rl - batch_duration, n_batches)):
        sl = slice(int(t0 * sr.fs), int((t0 + batch_duration) * sr.fs))
        channel_labels[:, i], _xfeats = detect_bad_channels(sr[sl, :nc].T, fs=sr.fs)
        if i == 0:  # init the features dictionary if necessary
            xfeats = {k: np.zeros((nc, n_batches)) for k in _xfeats}
        for k in xfeats:
            xfeats[k][:, i] = _xfeats[k]
    # the features are averaged  so there may be a discrepancy between the mode and applying
    # the thresholds to the average of the features - the goal of those features is for display only
    xfeats_med = {k: np.median(xfeats[k], axis=-1) for k in xfeats}
    channel_flags, _ = scipy.stats.mode(channel_labels, axis=1)
    if display:
        raw = sr[sl, :nc].TO
        from ibllib.plots.figures import ephys_bad_channels
        ephys_bad_channels(raw, sr.fs, channel_flags, xfeats_med)
    return channel_flags


ref_interpolate_bad_channels = interpolate_bad_channels
ref_detect_bad_channels = detect_bad_channels
ref_detect_bad_channels_cbin = detect_bad_channels_cbin
new_interpolate_bad_channels = voltage.interpolate_bad_channels
new_detect_bad_channels = voltage.detect_bad_channels
new_detect_bad_channels_cbin = voltage.detect_bad_channels_cbin

# ------------------------------------------------------------------------------------------------
# comparison helpers
# ------------------------------------------------------------------------------------------------
FAILURES = []
COUNTS = {"interpolate": 0, "detect": 0, "cbin": 0, "exceptions": 0}
LABELS_SEEN = set()


def fail(msg):
    FAILURES.append(msg)
    if len(FAILURES) <= 20:
        print("MISMATCH: " + msg)


def same_array(a, b):
    """exact comparison: type, dtype, shape and values (NaNs at the same places)"""
    if type(a) is not type(b):
        return False
    if not isinstance(a, np.ndarray):
        return bool(a == b)
    if a.dtype != b.dtype or a.shape != b.shape:
        return False
    if a.dtype.kind in "fc":
        return np.array_equal(a, b, equal_nan=True)
    return np.array_equal(a, b)


def call(fcn, *args, **kwargs):
    """returns (result, None) or (None, exception)"""
    with warnings.catch_warnings():
        warnings.simplefilter("ignore")
        try:
            return fcn(*args, **kwargs), None
        except Exception as e:  # noqa
            return None, e


def same_exception(tag, e_ref, e_new):
    """returns True if an exception was raised by either implementation (and records a mismatch if they differ)"""
    if e_ref is None and e_new is None:
        return False
    COUNTS["exceptions"] += 1
    if type(e_ref) is not type(e_new):
        fail(f"{tag}: exception {type(e_ref).__name__}({e_ref}) != {type(e_new).__name__}({e_new})")
    elif str(e_ref) != str(e_new):
        fail(f"{tag}: exception message {e_ref} != {e_new}")
    return True


# ------------------------------------------------------------------------------------------------
# 1) interpolate_bad_channels
# ------------------------------------------------------------------------------------------------
def make_geometry(rng, nc, kind):
    if kind == "np1":
        h = neuropixel.trace_header(version=1)
        i0 = int(rng.integers(0, 384 - nc + 1))
        return h["x"][i0:i0 + nc].copy(), h["y"][i0:i0 + nc].copy()
    if kind == "np2":
        h = neuropixel.trace_header(version=2)
        i0 = int(rng.integers(0, 384 - nc + 1))
        return h["x"][i0:i0 + nc].copy(), h["y"][i0:i0 + nc].copy()
    if kind == "np24":
        h = neuropixel.trace_header(version=2.4)
        sel = np.sort(rng.choice(h["x"].size, nc, replace=False))
        return h["x"][sel].copy(), h["y"][sel].copy()
    if kind == "random":
        return rng.uniform(0, 100, nc), rng.uniform(0, 40 * nc / 4, nc)
    if kind == "sparse":  # channels so far apart that no weight passes the threshold
        return np.zeros(nc), np.arange(nc) * 500.0
    if kind == "same":  # all channels at the same location
        return np.zeros(nc) + 11.0, np.zeros(nc) + 20.0
    if kind == "int":
        return (np.arange(nc) % 2 * 32 + 11).astype(np.int64), (np.arange(nc) // 2 * 20).astype(np.int64)
    raise ValueError(kind)


def make_labels(rng, nc, kind):
    labels = np.zeros(nc)
    if kind == "random":
        labels = rng.choice(4, nc, p=[0.7, 0.1, 0.1, 0.1]).astype(float)
    elif kind == "dense":
        labels = rng.choice(4, nc).astype(float)
    elif kind == "cluster":
        i0 = int(rng.integers(0, nc))
        labels[i0:i0 + int(rng.integers(1, 9))] = rng.choice([1, 2])
    elif kind == "ends":
        labels[0] = rng.choice([1, 2])
        labels[-1] = rng.choice([1, 2])
        labels[-int(rng.integers(1, 6)):] = rng.choice([1, 2, 3])
    elif kind == "top_block":
        n = int(rng.integers(0, min(41, nc)))
        if n:
            labels[-n:] = 3
        labels[rng.integers(0, nc, 3)] = [1, 2, 1]
    elif kind == "all_bad":
        labels[:] = rng.choice([1, 2], nc)
    elif kind == "all_good":
        pass
    elif kind == "bad_among_outside":
        labels[:] = 3
        labels[rng.integers(0, nc, 2)] = [1, 2]
    return labels


def check_interpolate(seed):
    rng = np.random.default_rng(seed)
    nc = int(rng.integers(2, 97))
    ns = int(rng.integers(1, 60))
    gkind = rng.choice(["np1", "np1", "np2", "np24", "random", "sparse", "same", "int"])
    lkind = rng.choice(["random", "random", "dense", "cluster", "ends", "top_block", "all_bad", "all_good",
                        "bad_among_outside"])
    x, y = make_geometry(rng, nc, gkind)
    if rng.random() < 0.25 and x.dtype.kind == "f":
        x, y = x.astype(np.float32), y.astype(np.float32)
    labels = make_labels(rng, nc, lkind)
    if rng.random() < 0.4:
        labels = labels.astype(rng.choice([np.int64, np.int8, np.int32]))
    dtype = rng.choice([np.float64, np.float64, np.float32, np.int16])
    if dtype is np.int16:
        data = rng.integers(-2000, 2000, (nc, ns)).astype(np.int16)
    else:
        data = (rng.standard_normal((nc, ns)) * 10 ** rng.uniform(-6, 2)).astype(dtype)
    if rng.random() < 0.1:
        data[int(rng.integers(0, nc)), :] = np.nan if data.dtype.kind == "f" else 0
    if rng.random() < 0.15:
        data = np.asfortranarray(data)
    kwargs = {}
    if rng.random() < 0.4:
        kwargs["p"] = float(rng.choice([0.5, 1, 1.3, 2, 3]))
    if rng.random() < 0.4:
        kwargs["kriging_distance_um"] = float(rng.choice([5, 10, 20, 35.5, 80, 400]))
    if rng.random() < 0.2:
        kwargs["gpu"] = False
    tag = f"interpolate seed={seed} nc={nc} ns={ns} geom={gkind} labels={lkind} dtype={np.dtype(dtype).name} {kwargs}"
    d_ref, d_new = data.copy(order="K"), data.copy(order="K")
    l_ref, l_new = labels.copy(), labels.copy()
    if rng.random() < 0.5:  # keyword call
        o_ref, e_ref = call(ref_interpolate_bad_channels, d_ref, channel_labels=l_ref, x=x.copy(), y=y.copy(), **kwargs)
        o_new, e_new = call(new_interpolate_bad_channels, d_new, channel_labels=l_new, x=x.copy(), y=y.copy(), **kwargs)
    else:
        o_ref, e_ref = call(ref_interpolate_bad_channels, d_ref, l_ref, x.copy(), y.copy(), **kwargs)
        o_new, e_new = call(new_interpolate_bad_channels, d_new, l_new, x.copy(), y.copy(), **kwargs)
    COUNTS["interpolate"] += 1
    if same_exception(tag, e_ref, e_new):
        return
    if (o_ref is d_ref) != (o_new is d_new):
        fail(f"{tag}: in-place / returned object identity differs")
    if not same_array(o_ref, o_new):
        fail(f"{tag}: output differs")
    if not same_array(d_ref, d_new):
        fail(f"{tag}: in-place modified input differs")
    if not same_array(l_ref, l_new) or not same_array(l_ref, labels):
        fail(f"{tag}: labels were modified")
    good = ~np.isin(labels, [1, 2])
    if not same_array(o_new[good], data[good]):
        fail(f"{tag}: a channel that is not bad was modified")


def check_interpolate_exceptions():
    rng = np.random.default_rng(0)
    data = rng.standard_normal((8, 5))
    x, y = make_geometry(rng, 8, "np1")
    labels = np.array([0, 1, 0, 2, 0, 0, 3, 3.])
    cases = [
        ("labels None", (data.copy(),), dict(x=x, y=y)),
        ("all None", (data.copy(),), dict()),
        ("x None", (data.copy(), labels), dict(y=y)),
        ("y None", (data.copy(), labels), dict(x=x)),
        ("labels too long", (data.copy(), np.r_[labels, 1, 1]), dict(x=x, y=y)),
        ("geometry too short", (data.copy(), labels), dict(x=x[:4], y=y[:4])),
        ("data 1d", (data[:, 0].copy(), labels), dict(x=x, y=y)),
        ("data too few channels", (data[:3].copy(), labels), dict(x=x, y=y)),
        ("labels list", (data.copy(), list(labels)), dict(x=x, y=y)),
        ("kriging zero", (data.copy(), labels), dict(x=x, y=y, kriging_distance_um=0)),
        ("p string", (data.copy(), labels), dict(x=x, y=y, p="a")),
        ("unknown kwarg", (data.copy(), labels), dict(x=x, y=y, foo=1)),
    ]
    for name, args, kwargs in cases:
        a_ref = tuple(a.copy() if isinstance(a, np.ndarray) else a for a in args)
        a_new = tuple(a.copy() if isinstance(a, np.ndarray) else a for a in args)
        o_ref, e_ref = call(ref_interpolate_bad_channels, *a_ref, **kwargs)
        o_new, e_new = call(new_interpolate_bad_channels, *a_new, **kwargs)
        COUNTS["interpolate"] += 1
        tag = f"interpolate edge case [{name}]"
        if same_exception(tag, e_ref, e_new):
            continue
        if not same_array(o_ref, o_new) or not same_array(a_ref[0], a_new[0]):
            fail(f"{tag}: output differs")


# ------------------------------------------------------------------------------------------------
# 2) detect_bad_channels
# ------------------------------------------------------------------------------------------------
def make_recording(rng, nc, ns, fs, n_top=0, n_dead=1, n_noisy=1, dtype=np.float64):
    """
    Synthetic recording (volts) with a coherent background, dead channels, noisy channels and a top block
    lacking the common signal. Returns raw [nc, ns] and the injected labels
    """
    common = rng.standard_normal(ns + 200)
    common = np.convolve(common, np.ones(int(rng.integers(3, 30))) / 5, mode="same")[100:-100]
    common = common * rng.uniform(20, 120) * 1e-6
    raw = common[np.newaxis, :] * rng.uniform(0.8, 1.2, (nc, 1)) + rng.standard_normal((nc, ns)) * rng.uniform(2, 15) * 1e-6
    injected = np.zeros(nc)
    if n_top:
        raw[-n_top:, :] = rng.standard_normal((n_top, ns)) * rng.uniform(5, 20) * 1e-6
        injected[-n_top:] = 3
    free = np.arange(nc - n_top)
    faults = rng.choice(free, min(free.size, n_dead + n_noisy), replace=False) if free.size else np.array([], dtype=int)
    for i in faults[:n_dead]:
        raw[i, :] = rng.standard_normal(ns) * 1e-7 if rng.random() < 0.7 else 0
        injected[i] = 1
    for i in faults[n_dead:]:
        raw[i, :] += rng.standard_normal(ns) * rng.uniform(150, 600) * 1e-6
        injected[i] = 2
    raw += rng.uniform(-1, 1, (nc, 1)) * 1e-4  # DC offsets
    return raw.astype(dtype), injected


def compare_detect(tag, out_ref, out_new):
    if type(out_ref) is not type(out_new) or len(out_ref) != len(out_new):
        fail(f"{tag}: output container differs")
        return
    lab_ref, xf_ref = out_ref
    lab_new, xf_new = out_new
    if not same_array(lab_ref, lab_new):
        fail(f"{tag}: labels differ")
    if type(xf_ref) is not type(xf_new) or list(xf_ref.keys()) != list(xf_new.keys()):
        fail(f"{tag}: features keys differ")
        return
    for k in xf_ref:
        if not same_array(xf_ref[k], xf_new[k]):
            fail(f"{tag}: feature {k} differs")
    LABELS_SEEN.update(np.unique(lab_new).tolist())


def check_detect(seed):
    rng = np.random.default_rng(seed)
    band = "ap" if rng.random() < 0.7 else "lf"
    if band == "ap":
        fs = float(rng.choice([30000, 30000, 30000.1234, 29999.5, 20000, 2601]))
        ns = int(rng.integers(1200, 7000))
    else:
        fs = rng.choice([2500, 2500., 2500.1, 2600, 1000, 250])
        fs = int(fs) if rng.random() < 0.3 else float(fs)
        ns = int(rng.integers(600, 3000))
    nc = int(rng.choice([12, 16, 32, 48, 64, 96, 128]))
    n_top = int(rng.integers(0, min(41, nc - 4))) if rng.random() < 0.7 else 0
    dtype = np.float32 if rng.random() < 0.3 else np.float64
    raw, _ = make_recording(rng, nc, ns, fs, n_top=n_top, n_dead=int(rng.integers(0, 4)),
                            n_noisy=int(rng.integers(0, 4)), dtype=dtype)
    if rng.random() < 0.1:  # fault at the probe ends
        raw[0, :] = 0
        raw[nc - n_top - 1, :] = 0
    kwargs = {}
    if rng.random() < 0.3:
        kwargs["psd_hf_threshold"] = float(rng.choice([0.005, 0.02, 0.5, 1.4, 10]))
    if rng.random() < 0.3:
        kwargs["similarity_threshold"] = [(-0.5, 1), (-0.25, 0.25), [-0.8, 2], np.array([-0.1, 0.1])][int(rng.integers(4))]
    if rng.random() < 0.2:
        kwargs["display"] = False
    tag = f"detect seed={seed} band={band} fs={fs!r} nc={nc} ns={ns} top={n_top} dtype={np.dtype(dtype).name} {kwargs}"
    r_ref, r_new = raw.copy(), raw.copy()
    if rng.random() < 0.5:
        o_ref, e_ref = call(ref_detect_bad_channels, r_ref, fs, **kwargs)
        o_new, e_new = call(new_detect_bad_channels, r_new, fs, **kwargs)
    else:
        o_ref, e_ref = call(ref_detect_bad_channels, raw=r_ref, fs=fs, **kwargs)
        o_new, e_new = call(new_detect_bad_channels, raw=r_new, fs=fs, **kwargs)
    COUNTS["detect"] += 1
    if same_exception(tag, e_ref, e_new):
        return
    compare_detect(tag, o_ref, o_new)
    if not same_array(r_ref, raw) or not same_array(r_new, raw):
        fail(f"{tag}: input was modified")


def check_detect_edge_cases():
    rng = np.random.default_rng(1)
    raw, _ = make_recording(rng, 32, 2000, 30000, n_top=6)
    raw_nan = raw.copy()
    raw_nan[3, 100] = np.nan
    cases = [
        ("1d input", (raw[0], 30000), {}),
        ("3d input", (raw[np.newaxis], 30000), {}),
        ("constant data", (np.zeros((16, 1500)), 30000), {}),
        ("all identical channels", (np.tile(raw[0], (16, 1)), 30000), {}),
        ("nan sample", (raw_nan, 30000), {}),
        ("few samples", (raw[:, :40], 30000), {}),
        ("very few samples", (raw[:, :8], 30000), {}),
        ("two channels", (raw[:2], 30000), {}),
        ("one channel", (raw[:1], 30000), {}),
        ("int16 data", ((raw * 1e6).astype(np.int16), 30000), {}),
        ("fs zero", (raw, 0), {}),
        ("fs negative", (raw, -30000), {}),
        ("fs nan", (raw, np.nan), {}),
        ("fs None", (raw, None), {}),
        ("fs at the band limit", (raw, 2600), {}),
        ("fs above the band limit", (raw, 2600.0001), {}),
        ("fs small", (raw, 2), {}),
        ("fs numpy scalar", (raw, np.float32(30000)), {}),
        ("threshold None", (raw, 30000), dict(similarity_threshold=None)),
        ("threshold single", (raw, 30000), dict(similarity_threshold=(-0.5,))),
        ("psd threshold zero", (raw, 30000), dict(psd_hf_threshold=0)),
        ("psd threshold zero lf", (raw, 2500), dict(psd_hf_threshold=0.0)),
        ("unknown kwarg", (raw, 30000), dict(foo=1)),
        ("all outside", (rng.standard_normal((32, 2000)) * 1e-5, 30000), {}),
        ("two outside blocks", (np.r_[raw[-6:], raw[:20], raw[-6:]], 30000), {}),
    ]
    for name, args, kwargs in cases:
        o_ref, e_ref = call(ref_detect_bad_channels, *[a.copy() if isinstance(a, np.ndarray) else a for a in args], **kwargs)
        o_new, e_new = call(new_detect_bad_channels, *[a.copy() if isinstance(a, np.ndarray) else a for a in args], **kwargs)
        COUNTS["detect"] += 1
        tag = f"detect edge case [{name}]"
        if same_exception(tag, e_ref, e_new):
            continue
        compare_detect(tag, o_ref, o_new)


def check_detect_display():
    """the display branch hands the same arguments over to the plotting function"""
    calls = []
    original = ibldsp.plots.show_channels_labels

    def recorder(*args, **kwargs):
        calls.append((args, kwargs))

    ibldsp.plots.show_channels_labels = recorder
    try:
        for seed, fs in ((11, 30000), (12, 2500), (13, 30000)):
            rng = np.random.default_rng(seed)
            raw, _ = make_recording(rng, 32, 1500, fs, n_top=5)
            kwargs = dict(psd_hf_threshold=0.5) if seed == 13 else {}
            calls.clear()
            o_ref, e_ref = call(ref_detect_bad_channels, raw.copy(), fs, display=True, **kwargs)
            o_new, e_new = call(new_detect_bad_channels, raw.copy(), fs, display=True, **kwargs)
            COUNTS["detect"] += 1
            tag = f"detect display seed={seed}"
            if same_exception(tag, e_ref, e_new):
                continue
            compare_detect(tag, o_ref, o_new)
            if len(calls) != 2:
                fail(f"{tag}: plotting function called {len(calls)} times instead of 2")
                continue
            (a_ref, k_ref), (a_new, k_new) = calls
            if len(a_ref) != len(a_new) or list(k_ref) != list(k_new):
                fail(f"{tag}: plotting arguments differ")
                continue
            for u, v in zip(a_ref[:3], a_new[:3]):
                if not same_array(u, v):
                    fail(f"{tag}: plotting positional arguments differ")
            compare_detect(tag + " (plot features)", (a_ref[2], a_ref[3]), (a_new[2], a_new[3]))
            for k in k_ref:
                if not same_array(k_ref[k], k_new[k]):
                    fail(f"{tag}: plotting argument {k} differs")
    finally:
        ibldsp.plots.show_channels_labels = original


# ------------------------------------------------------------------------------------------------
# 3) detect_bad_channels_cbin
# ------------------------------------------------------------------------------------------------
def write_bin(path, rng, nc, ns, fs, n_top, drift=False):
    """writes a flat int16 binary file with nc channels + 1 sync channel, faults may change half-way through"""
    raw, _ = make_recording(rng, nc, ns, fs, n_top=n_top, n_dead=2, n_noisy=2)
    if drift:  # another set of faults on the second half of the file so that the mode over batches matters
        raw2, _ = make_recording(rng, nc, ns, fs, n_top=max(0, n_top - 3), n_dead=2, n_noisy=2)
        raw[:, ns // 2:] = raw2[:, ns // 2:]
    d = np.zeros((ns, nc + 1), dtype=np.int16)
    d[:, :nc] = np.clip(np.round(raw.T / neuropixel.S2V_AP), -32768, 32767).astype(np.int16)
    d[:, -1] = (np.arange(ns) // 500 % 2 * 64).astype(np.int16)
    d.tofile(path)


def compare_cbin(tag, args_ref, args_new, kwargs):
    o_ref, e_ref = call(ref_detect_bad_channels_cbin, *args_ref, **kwargs)
    o_new, e_new = call(new_detect_bad_channels_cbin, *args_new, **kwargs)
    COUNTS["cbin"] += 1
    if same_exception(tag, e_ref, e_new):
        return
    if not same_array(o_ref, o_new):
        fail(f"{tag}: channel labels differ")
    else:
        LABELS_SEEN.update(np.unique(o_new).tolist())


def check_cbin(tmpdir):
    tmpdir = Path(tmpdir)
    # small files without meta-data read through an explicit Reader
    for seed in range(36):
        rng = np.random.default_rng(1000 + seed)
        nc = int(rng.choice([16, 24, 32, 48]))
        fs = 30000
        ns = int(rng.integers(12000, 30000))
        file_bin = tmpdir.joinpath(f"small_{seed}.bin")
        write_bin(file_bin, rng, nc, ns, fs, n_top=int(rng.integers(0, 10)), drift=seed % 2 == 0)
        kwargs = {}
        if rng.random() < 0.8:
            kwargs["n_batches"] = int(rng.integers(1, 9))
        if rng.random() < 0.7:
            kwargs["batch_duration"] = float(rng.choice([0.05, 0.1, 0.2, 0.3]))
        if seed % 9 == 0:
            kwargs["display"] = False
        readers = [spikeglx.Reader(file_bin, nc=nc + 1, ns=ns, fs=fs, nsync=1) for _ in range(2)]
        try:
            compare_cbin(f"cbin reader seed={seed} nc={nc} ns={ns} {kwargs}", (readers[0],), (readers[1],), kwargs)
            if seed < 3:  # display branch, n_batches = 0, batch longer than the file
                compare_cbin(f"cbin reader display seed={seed}", (readers[0],), (readers[1],),
                             dict(display=True, n_batches=2, batch_duration=0.05))
                compare_cbin(f"cbin reader no batch seed={seed}", (readers[0],), (readers[1],), dict(n_batches=0))
                compare_cbin(f"cbin reader long batch seed={seed}", (readers[0],), (readers[1],),
                             dict(n_batches=2, batch_duration=5.))
        finally:
            for sr in readers:
                sr.close()
    # full size 385 channels files without meta-data, given as a path: the Reader is instantiated by the function
    for seed in range(4):
        rng = np.random.default_rng(2000 + seed)
        ns = 6000 + 2 * seed
        file_bin = tmpdir.joinpath(f"full_{seed}.bin")
        write_bin(file_bin, rng, 384, ns, 30000, n_top=int(rng.integers(0, 41)), drift=True)
        kwargs = dict(n_batches=int(rng.integers(2, 4)), batch_duration=0.04)
        arg = str(file_bin) if seed % 2 else file_bin
        compare_cbin(f"cbin path seed={seed} {kwargs}", (arg,), (arg,), kwargs)
    # bad arguments
    compare_cbin("cbin missing file", (tmpdir.joinpath("nothing.bin"),), (tmpdir.joinpath("nothing.bin"),), {})
    compare_cbin("cbin None", (None,), (None,), {})
    compare_cbin("cbin unknown kwarg", (tmpdir.joinpath("full_0.bin"),), (tmpdir.joinpath("full_0.bin"),), dict(foo=1))


def main():
    for seed in range(420):
        check_interpolate(seed)
    check_interpolate_exceptions()
    for seed in range(260):
        check_detect(5000 + seed)
    check_detect_edge_cases()
    check_detect_display()
    with tempfile.TemporaryDirectory() as tmpdir:
        check_cbin(tmpdir)
    print(f"cases: {COUNTS}, labels seen in detection outputs: {sorted(LABELS_SEEN)}")
    if FAILURES:
        print(f"FAILED: {len(FAILURES)} mismatches between the reference and the refactored implementations")
        return 1
    print("OK: reference and refactored implementations are identical on all inputs")
    return 0


if __name__ == "__main__":
    sys.exit(main())
