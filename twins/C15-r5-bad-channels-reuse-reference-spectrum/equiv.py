import sys, os; sys.path.insert(0, os.path.join(os.path.dirname(os.path.abspath(__file__)), "src"))
"""
Differential equivalence check for the performance clean-up of
    ibldsp.voltage.interpolate_bad_channels
    ibldsp.voltage.detect_bad_channels
    ibldsp.voltage.detect_bad_channels_cbin
The three functions below are verbatim copies of the ORIGINAL implementations (they keep their original names so
that the reference detect_bad_channels_cbin calls the reference detect_bad_channels). The implementations under
test are reached through the module: voltage.<function>.
Exits 0 when every result is identical bit for bit (dtype, shape, bytes, exception type and message), 1 otherwise.
"""
import shutil
import tempfile
import time
import warnings
from pathlib import Path

import numpy as np
import scipy.signal
import scipy.stats
import scipy.fft

from iblutil.numerical import rcoeff
import spikeglx
import neuropixel

import ibldsp.utils as utils
import ibldsp.plots
import ibldsp.voltage as voltage

warnings.simplefilter("ignore")
np.seterr(all="ignore")


# --------------------------------------------------------------------------------------------------------------
# verbatim copies of the original implementations
# --------------------------------------------------------------------------------------------------------------
def interpolate_bad_channels(
    data, channel_labels=None, x=None, y=None, p=1.3, kriging_distance_um=20, gpu=False
):
    """
    Interpolate the channel labeled as bad channels using linear interpolation.
    The weights applied to neighbouring channels come from an exponential decay function
    :param data: (nc, ns) np.ndarray
    :param channel_labels; (nc) np.ndarray: 0: channel is good, 1: dead, 2:noisy, 3: out of the brain
    :param x: channel x-coordinates, np.ndarray
    :param y: channel y-coordinates, np.ndarray
    :param p:
    :param kriging_distance_um:
    :param gpu: bool
    :return:
    """
    if gpu:
        import cupy as gp
    else:
        gp = np

    # from ibllib.plots.figures import ephys_bad_channels
    # ephys_bad_channels(x, 30000, channel_labels[0], channel_labels[1])

    # we interpolate only noisy channels or dead channels (0: good), out of the brain channels are left
    bad_channels = gp.where(np.logical_or(channel_labels == 1, channel_labels == 2))[0]
    for i in bad_channels:
        # compute the weights to apply to neighbouring traces
        offset = gp.abs(x - x[i] + 1j * (y - y[i]))
        weights = gp.exp(-((offset / kriging_distance_um) ** p))
        weights[bad_channels] = 0
        weights[weights < 0.005] = 0
        weights = weights / gp.sum(weights)
        imult = gp.where(weights > 0)[0]
        if imult.size == 0:
            data[i, :] = 0
            continue
        data[i, :] = gp.matmul(weights[imult], data[imult, :])
    # from viewephys.gui import viewephys
    # f = viewephys(data.T, fs=1/30, h=h, title='interp2')
    return data


def detect_bad_channels(raw, fs, similarity_threshold=(-0.5, 1), psd_hf_threshold=None, display=False):
    """
    Bad channels detection for Neuropixel probes
    Labels channels
     0: all clear
     1: dead low coherence / amplitude
     2: noisy
     3: outside of the brain
    :param raw: [nc, ns]
    :param fs: sampling frequency
    :param similarity_threshold:
    :param psd_hf_threshold:
    :param display: optinal (False) will show a plot of features alongside a raw data snippet
    :return: labels (numpy vector [nc]), xfeats: dictionary of features [nc]
    """

    def rneighbours(raw, n=1):  # noqa
        """
        Computes Pearson correlation with the sum of neighbouring traces
        :param raw: nc, ns
        :param n:
        :return:
        """
        nc = raw.shape[0]
        mixer = np.triu(np.ones((nc, nc)), 1) - np.triu(np.ones((nc, nc)), 1 + n)
        mixer += np.tril(np.ones((nc, nc)), -1) - np.tril(np.ones((nc, nc)), -n - 1)
        r = rcoeff(raw, np.matmul(raw.T, mixer).T)
        r[np.isnan(r)] = 0
        return r

    def detrend(x, nmed):
        """
        Subtract the trend from a vector
        The trend is a median filtered version of the said vector with tapering
        :param x: input vector
        :param nmed: number of points of the median filter
        :return: np.array
        """
        ntap = int(np.ceil(nmed / 2))
        xf = np.r_[np.zeros(ntap) + x[0], x, np.zeros(ntap) + x[-1]]
        # assert np.all(xcorf[ntap:-ntap] == xcor)
        xf = scipy.signal.medfilt(xf, nmed)[ntap:-ntap]
        return x - xf

    def channels_similarity(raw, nmed=0):
        """
        Computes the similarity based on zero-lag crosscorrelation of each channel with the median
        trace referencing
        :param raw: [nc, ns]
        :param nmed:
        :return:
        """

        def fxcor(x, y):
            return scipy.fft.irfft(
                scipy.fft.rfft(x) * np.conj(scipy.fft.rfft(y)), n=raw.shape[-1]
            )

        def nxcor(x, ref):
            ref = ref - np.mean(ref)
            apeak = fxcor(ref, ref)[0]
            x = x - np.mean(x, axis=-1)[:, np.newaxis]  # remove DC component
            return fxcor(x, ref)[:, 0] / apeak

        ref = np.median(raw, axis=0)
        xcor = nxcor(raw, ref)

        if nmed > 0:
            xcor = detrend(xcor, nmed) + 1
        return xcor

    nc, _ = raw.shape
    raw = raw - np.mean(raw, axis=-1)[:, np.newaxis]  # removes DC offset
    xcor = channels_similarity(raw)
    fscale, psd = scipy.signal.welch(raw * 1e6, fs=fs)  # units; uV ** 2 / Hz
    # auto-detection of the band with which we are working
    band = 'ap' if fs > 2600 else 'lf'
    # the LFP band data is obviously much stronger so auto-adjust the default threshold
    if band == 'ap':
        psd_hf_threshold = 0.02 if psd_hf_threshold is None else psd_hf_threshold
        filter_kwargs = {"N": 3, "Wn": 300 / fs * 2, "btype": "highpass"}
    elif band == 'lf':
        psd_hf_threshold = 1.4 if psd_hf_threshold is None else psd_hf_threshold
        filter_kwargs = {"N": 3, "Wn": 1 / fs * 2, "btype": "highpass"}
    sos_hp = scipy.signal.butter(**filter_kwargs, output="sos")
    hf = scipy.signal.sosfiltfilt(sos_hp, raw)
    xcorf = channels_similarity(hf)
    xfeats = {
        "ind": np.arange(nc),
        "rms_raw": utils.rms(raw),  # very similar to the rms avfter butterworth filter
        "xcor_hf": detrend(xcor, 11),
        "xcor_lf": xcorf - detrend(xcorf, 11) - 1,
        "psd_hf": np.mean(psd[:, fscale > (fs / 2 * 0.8)], axis=-1),  # 80% nyquists
    }

    # make recommendation
    ichannels = np.zeros(nc)
    idead = np.where(similarity_threshold[0] > xfeats["xcor_hf"])[0]
    inoisy = np.where(
        np.logical_or(
            xfeats["psd_hf"] > psd_hf_threshold,
            xfeats["xcor_hf"] > similarity_threshold[1],
        )
    )[0]
    # the channels outside of the brains are the contiguous channels below the threshold on the trend coherency
    ioutside = np.where(xfeats["xcor_lf"] < -0.75)[0]  # fixme: hardcoded threshold
    if ioutside.size > 0 and ioutside[-1] == (nc - 1):
        a = np.cumsum(np.r_[0, np.diff(ioutside) - 1])
        ioutside = ioutside[a == np.max(a)]
        ichannels[ioutside] = 3

    # indices
    ichannels[idead] = 1
    ichannels[inoisy] = 2
    # from ibllib.plots.figures import ephys_bad_channels
    # ephys_bad_channels(x, 30000, ichannels, xfeats)
    if display:
        ibldsp.plots.show_channels_labels(
            raw, fs, ichannels, xfeats, similarity_threshold=similarity_threshold, psd_hf_threshold=psd_hf_threshold)
    return ichannels, xfeats


def detect_bad_channels_cbin(bin_file, n_batches=10, batch_duration=0.3, display=False):
    """
    Runs a ap-binary file scan to automatically detect faulty channels
    :param bin_file: full file path to the binary or compressed binary file from spikeglx
    :param n_batches: number of batches throughout the file (defaults to 10)
    :param batch_duration: batch length in seconds, defaults to 0.3
    :param display: if True will return a figure with features and an excerpt of the raw data
    :return: channel_labels: nc int array with 0:ok, 1:dead, 2:high noise, 3:outside of the brain
    """
    sr = (
        bin_file if isinstance(bin_file, spikeglx.Reader) else spikeglx.Reader(bin_file)
    )
    nc = sr.nc - sr.nsync
    channel_labels = np.zeros((nc, n_batches))
    # loop over the file and take the mode of detections
    for i, t0 in enumerate(np.linspace(0, sr.rl - batch_duration, n_batches)):
        sl = slice(int(t0 * sr.fs), int((t0 + batch_duration) * sr.fs))
        channel_labels[:, i], _xfeats = detect_bad_channels(sr[sl, :nc].T, fs=sr.fs)
        if i == 0:  # init the features dictionary if necessary
            xfeats = {k: np.zeros((nc, n_batches)) for k in _xfeats}
        for k in xfeats:
            xfeats[k][:, i] = _xfeats[k]
    # the features are averaged  so there may be a discrepancy between the mode and applying
    # the thresholds to the average of the features - the goal of those features is for display only
    xfeats_med = {k: np.median(xfeats[k], axis=-1) for k in xfeats}
    channel_flags, _ = scipy.stats.mode(channel_labels, axis=1)
    if display:
        raw = sr[sl, :nc].TO
        from ibllib.plots.figures import ephys_bad_channels
        ephys_bad_channels(raw, sr.fs, channel_flags, xfeats_med)
    return channel_flags


# --------------------------------------------------------------------------------------------------------------
# comparison helpers
# --------------------------------------------------------------------------------------------------------------
N_CASES = {"interpolate": 0, "detect": 0, "cbin": 0}
N_RAISED = {"interpolate": 0, "detect": 0, "cbin": 0}
FAILURES = []


def describe(a):
    if isinstance(a, np.ndarray):
        return f"ndarray dtype={a.dtype} shape={a.shape}"
    return f"{type(a).__name__}: {a!r}"[:200]


def identical(a, b):
    """Exact comparison: types, dtypes, shapes and raw bytes (so NaNs and signed zeros count too)"""
    if isinstance(a, BaseException) or isinstance(b, BaseException):
        return type(a) is type(b) and str(a) == str(b)
    if isinstance(a, dict) or isinstance(b, dict):
        if not (isinstance(a, dict) and isinstance(b, dict)) or list(a.keys()) != list(b.keys()):
            return False
        return all(identical(a[k], b[k]) for k in a)
    if isinstance(a, (tuple, list)) or isinstance(b, (tuple, list)):
        if type(a) is not type(b) or len(a) != len(b):
            return False
        return all(identical(u, v) for u, v in zip(a, b))
    if isinstance(a, (np.ndarray, np.generic)) or isinstance(b, (np.ndarray, np.generic)):
        if type(a) is not type(b):
            return False
        a_, b_ = np.asarray(a), np.asarray(b)
        if a_.dtype != b_.dtype or a_.shape != b_.shape:
            return False
        return np.array_equal(a_, b_, equal_nan=a_.dtype.kind in "fc") and (
            np.ascontiguousarray(a_).tobytes() == np.ascontiguousarray(b_).tobytes())
    return type(a) is type(b) and a == b


def call(fcn, *args, **kwargs):
    try:
        return fcn(*args, **kwargs)
    except Exception as e:  # noqa
        return e


def check(group, label, res_ref, res_new):
    N_CASES[group] += 1
    if isinstance(res_ref, BaseException):
        N_RAISED[group] += 1
    if not identical(res_ref, res_new):
        FAILURES.append(f"[{group}] {label}: reference -> {describe(res_ref)} / refactored -> {describe(res_new)}")


# --------------------------------------------------------------------------------------------------------------
# interpolate_bad_channels
# --------------------------------------------------------------------------------------------------------------
def geometry(rng, nc, kind):
    if kind in ("np1", "np2"):
        h = neuropixel.trace_header(version=1 if kind == "np1" else 2)
        first = int(rng.integers(0, 384 - nc + 1))
        x, y = h["x"][first:first + nc].astype(np.float64), h["y"][first:first + nc].astype(np.float64)
    elif kind == "line":
        x, y = np.zeros(nc), np.arange(nc) * float(rng.choice([10., 15., 20., 40.]))
    elif kind == "random":
        x, y = rng.uniform(0, 70, nc), rng.uniform(0, nc * 10 + 1, nc)
    elif kind == "duplicates":  # several channels on the same site
        x, y = np.round(rng.uniform(0, 2, nc)) * 16, np.round(rng.uniform(0, nc / 4 + 1, nc)) * 20
    elif kind == "sparse":  # channels so far apart that a bad channel has no neighbour within range
        x, y = np.zeros(nc), np.arange(nc) * 500.
    return x, y


def random_labels(rng, nc, kind):
    if kind == "none":
        return np.zeros(nc)
    if kind == "all_bad":
        return rng.choice([1., 2.], nc)
    if kind == "all_3":
        return np.zeros(nc) + 3
    if kind == "sparse":
        labels = np.zeros(nc)
        labels[rng.integers(0, nc, max(1, nc // 20))] = rng.choice([1, 2, 3], max(1, nc // 20))
        return labels
    if kind == "clusters":
        labels = np.zeros(nc)
        for _ in range(int(rng.integers(1, 4))):
            i0, w = int(rng.integers(0, nc)), int(rng.integers(1, 9))
            labels[i0:i0 + w] = rng.choice([1, 2])
        return labels
    if kind == "ends":
        labels = np.zeros(nc)
        labels[:int(rng.integers(1, 4))] = rng.choice([1, 2])
        labels[-int(rng.integers(1, 4)):] = rng.choice([1, 2])
        top = int(rng.integers(0, 6))
        if top:
            labels[-top:] = 3
        return labels
    return rng.choice([0., 1., 2., 3.], nc, p=[0.55, 0.15, 0.15, 0.15])


def run_interpolate(data, label, **kwargs):
    d_ref, d_new = data.copy(order="K"), data.copy(order="K")  # keeps the memory layout of the input
    kw_ref = {k: (v.copy() if isinstance(v, np.ndarray) else v) for k, v in kwargs.items()}
    kw_new = {k: (v.copy() if isinstance(v, np.ndarray) else v) for k, v in kwargs.items()}
    r_ref = call(interpolate_bad_channels, d_ref, **kw_ref)
    r_new = call(voltage.interpolate_bad_channels, d_new, **kw_new)
    check("interpolate", label, r_ref, r_new)
    # the interpolation is done in place and the input array is the one returned
    check("interpolate", label + " (in place buffer)", d_ref, d_new)
    if not isinstance(r_ref, BaseException) and ((r_ref is d_ref) != (r_new is d_new)):
        FAILURES.append(f"[interpolate] {label}: identity of the returned array differs")
    for k in kw_ref:  # arguments are left untouched in the same way
        check("interpolate", label + f" (argument {k})", kw_ref[k], kw_new[k])


def test_interpolate(rng):
    geoms = ["np1", "np2", "line", "random", "duplicates", "sparse"]
    kinds = ["none", "all_bad", "all_3", "sparse", "clusters", "ends", "random"]
    dtypes = [np.float32, np.float64, np.float64, np.float32, np.int16, np.float16]
    for it in range(330):
        nc = int(rng.choice([1, 2, 3, 5, 16, 32, 96, 384]))
        ns = int(rng.choice([0, 1, 2, 7, 64, 257, 1000]))
        gkind, lkind, dtype = geoms[it % len(geoms)], kinds[it % len(kinds)], dtypes[it % len(dtypes)]
        x, y = geometry(rng, nc, gkind)
        labels = random_labels(rng, nc, lkind)
        data = (rng.standard_normal((nc, ns)) * 50).astype(dtype)
        kwargs = dict(channel_labels=labels, x=x, y=y)
        variant = it % 11
        if variant == 1:
            kwargs["p"], kwargs["kriging_distance_um"] = float(rng.choice([1, 1.3, 2, 0.5])), float(rng.choice([5, 20, 40, 100]))
        elif variant == 2:
            kwargs["x"], kwargs["y"] = x.astype(np.float32), y.astype(np.float32)
        elif variant == 3:
            kwargs["x"], kwargs["y"] = x.astype(np.float32), y  # mixed precision coordinates
        elif variant == 4:
            kwargs["channel_labels"] = labels.astype(np.int64)
        elif variant == 5:
            data = np.asfortranarray(data)
        elif variant == 6:
            kwargs["x"], kwargs["y"] = np.round(x).astype(np.int64), np.round(y).astype(np.int64)
        elif variant == 7:
            kwargs["kriging_distance_um"] = 0  # division by zero in the weights
        elif variant == 8 and nc > 1:
            kwargs["x"][int(rng.integers(0, nc))] = np.nan
        run_interpolate(data, f"case {it} nc={nc} ns={ns} geom={gkind} labels={lkind} dtype={np.dtype(dtype).name} v{variant}",
                        **kwargs)
    # hand written edge cases
    h = neuropixel.trace_header(version=1)
    x, y = h["x"].astype(np.float64), h["y"].astype(np.float64)
    data = rng.standard_normal((384, 300)).astype(np.float32)
    labels = random_labels(rng, 384, "random")
    run_interpolate(data, "defaults: no labels, no geometry")
    run_interpolate(data, "no labels", x=x, y=y)
    run_interpolate(data, "clean probe without geometry", channel_labels=np.zeros(384))
    run_interpolate(data, "only outside channels without geometry", channel_labels=np.zeros(384) + 3)
    run_interpolate(data, "bad channels without geometry", channel_labels=labels)
    run_interpolate(data, "bad channels with x only", channel_labels=labels, x=x)
    run_interpolate(data, "geometry as lists", channel_labels=labels, x=list(x), y=list(y))
    run_interpolate(data, "labels as list", channel_labels=list(labels), x=x, y=y)
    run_interpolate(data, "labels as bool", channel_labels=labels == 1, x=x, y=y)
    run_interpolate(data, "labels longer than the probe", channel_labels=np.r_[labels, 1, 2], x=x, y=y)
    run_interpolate(data, "labels shorter than the probe", channel_labels=labels[:100], x=x, y=y)
    run_interpolate(data, "geometry shorter than the probe", channel_labels=labels, x=x[:100], y=y[:100])
    run_interpolate(data, "2d labels", channel_labels=np.tile(labels, (2, 1)), x=x, y=y)
    run_interpolate(data, "nan labels", channel_labels=labels * np.nan, x=x, y=y)
    run_interpolate(data, "labels outside of 0..3", channel_labels=labels * 2 - 1, x=x, y=y)
    run_interpolate(data[0], "1d data", channel_labels=labels, x=x, y=y)
    run_interpolate(data[:, :0], "no samples", channel_labels=labels, x=x, y=y)
    run_interpolate(data[:0], "no channels", channel_labels=labels[:0], x=x[:0], y=y[:0])
    run_interpolate(data, "gpu flag, clean probe", channel_labels=np.zeros(384), x=x, y=y, gpu=True)
    run_interpolate(data, "gpu flag, bad channels", channel_labels=labels, x=x, y=y, gpu=True)
    run_interpolate(np.stack([data, data]), "3d data", channel_labels=np.r_[1, 0], x=x[:2], y=y[:2])
    run_interpolate(data * np.nan, "nan data", channel_labels=labels, x=x, y=y)
    run_interpolate(data.T.copy().T, "transposed layout", channel_labels=labels, x=x, y=y)


# --------------------------------------------------------------------------------------------------------------
# detect_bad_channels
# --------------------------------------------------------------------------------------------------------------
def synthetic_recording(rng, nc, ns, fs, ntop=0, ndead=0, nnoisy=0, scale=20e-6, clustered=False):
    """
    A recording with a coherent background shared by all channels, channel specific noise, and injected faults:
    silent channels, channels with strong broadband noise and a top block lacking the common signal
    """
    t = np.arange(ns) / fs
    common = np.zeros(ns)
    for f in rng.uniform(2, min(fs / 8, 400), 6):
        common += np.sin(2 * np.pi * f * t + rng.uniform(0, 2 * np.pi)) * rng.uniform(0.5, 1.5)
    common += np.convolve(rng.standard_normal(ns + 20), np.ones(21) / 21, mode="valid") * 2
    gains = 1 + 0.1 * rng.standard_normal(nc)
    raw = (gains[:, np.newaxis] * common[np.newaxis, :] + 0.35 * rng.standard_normal((nc, ns))) * scale
    expected = np.zeros(nc)
    if ntop:
        raw[nc - ntop:] = 0.35 * rng.standard_normal((ntop, ns)) * scale
        expected[nc - ntop:] = 3
    free = np.arange(0, nc - ntop)
    nfaults = min(ndead + nnoisy, free.size)
    if nfaults:
        if clustered:
            i0 = int(rng.integers(0, free.size - nfaults + 1))
            ifaults = free[i0:i0 + nfaults]
        else:
            ifaults = rng.choice(free, nfaults, replace=False)
        for j, ic in enumerate(ifaults):
            if j < ndead:
                raw[ic] = rng.standard_normal(ns) * scale * 1e-3 * float(rng.choice([0, 1]))
                expected[ic] = 1
            else:
                raw[ic] += rng.standard_normal(ns) * scale * 40
                expected[ic] = 2
    return raw, expected


def run_detect(raw, label, **kwargs):
    raw_ref, raw_new = raw.copy(), raw.copy()
    r_ref = call(detect_bad_channels, raw_ref, **kwargs)
    r_new = call(voltage.detect_bad_channels, raw_new, **kwargs)
    check("detect", label, r_ref, r_new)
    check("detect", label + " (input untouched)", raw_ref, raw_new)
    return r_ref


def test_detect(rng):
    n_expected, n_eligible = 0, 0
    for it in range(110):
        band = "lf" if it % 5 == 4 else "ap"
        fs = 2500 if band == "lf" else int(rng.choice([30000, 30000, 30000, 20000, 32000]))
        nc = int(rng.choice([24, 32, 33, 64, 96, 97, 128, 384], p=[.15, .15, .1, .2, .15, .1, .1, .05]))
        ns = int(rng.choice([600, 601, 1024, 1500, 2047, 3000, 4501]))
        if nc == 384:
            ns = min(ns, 3000)
        ntop = int(rng.integers(0, min(41, nc // 2))) if it % 3 else 0
        ndead, nnoisy = int(rng.integers(0, 4)), int(rng.integers(0, 4))
        raw, expected = synthetic_recording(rng, nc, ns, fs, ntop=ntop, ndead=ndead, nnoisy=nnoisy, clustered=it % 4 == 0,
                                            scale=float(rng.choice([20e-6, 5e-6, 1e-4])))
        dtype = [np.float64, np.float32, np.float64, np.float32, np.float64, np.float16, np.int16][it % 7]
        if dtype == np.int16:
            raw = np.round(raw / 2.34375e-06)
        raw = raw.astype(dtype)
        kwargs = dict(fs=fs)
        variant = it % 9
        if variant == 1:
            kwargs["psd_hf_threshold"] = float(rng.choice([0.005, 0.05, 1.0, 100.]))
        elif variant == 2:
            kwargs["similarity_threshold"] = (float(rng.uniform(-1, 0)), float(rng.uniform(0.2, 2)))
        elif variant == 3:
            kwargs["fs"] = float(fs) + 0.5
        elif variant == 4:
            kwargs["similarity_threshold"] = [-0.5, 1]
        elif variant == 5:
            kwargs["fs"] = np.float64(fs)
        elif variant == 6:
            raw = np.asfortranarray(raw)
        res = run_detect(raw, f"case {it} nc={nc} ns={ns} fs={fs} top={ntop} dead={ndead} noisy={nnoisy} "
                              f"dtype={np.dtype(dtype).name} v{variant}", **kwargs)
        if not isinstance(res, BaseException) and variant in (0, 6) and band == "ap" and dtype != np.float16:
            n_eligible += 1
            n_expected += int(np.array_equal(res[0], expected))
    # edge cases
    raw, _ = synthetic_recording(rng, 64, 2000, 30000, ntop=8, ndead=2, nnoisy=2)
    run_detect(raw, "fs exactly at the band limit", fs=2600)
    run_detect(raw, "fs just above the band limit", fs=2601)
    rawc = raw.copy()
    rawc[10:20] = 1.0
    run_detect(rawc, "constant channels", fs=30000)
    run_detect(np.zeros((32, 1000)), "all zeros", fs=30000)
    run_detect(np.ones((32, 1000), dtype=np.float32), "all ones float32", fs=30000)
    run_detect(raw[:, :0], "no samples", fs=30000)
    run_detect(raw[:0, :], "no channels", fs=30000)
    run_detect(raw[:1, :], "single channel", fs=30000)
    run_detect(raw[:2, :], "two channels", fs=30000)
    run_detect(raw[:12, :], "twelve channels", fs=30000)
    run_detect(raw[:, :1], "single sample", fs=30000)
    run_detect(raw[:, :2], "two samples", fs=30000)
    run_detect(raw[:, :21], "twenty one samples (filter padding)", fs=30000)
    run_detect(raw[:, :22], "twenty two samples", fs=30000)
    run_detect(raw[:, :28], "twenty eight samples", fs=30000)
    run_detect(raw[:, :29], "twenty nine samples", fs=30000)
    run_detect(raw[:, :255], "shorter than a welch segment, odd", fs=30000)
    run_detect(raw[:, :256], "one welch segment", fs=30000)
    run_detect(raw[0], "1d input", fs=30000)
    run_detect(np.stack([raw, raw]), "3d input", fs=30000)
    run_detect(raw, "fs zero", fs=0)
    run_detect(raw, "fs negative", fs=-30000)
    run_detect(raw, "fs nan", fs=np.nan)
    run_detect(raw, "fs None", fs=None)
    run_detect(raw, "fs as 1-element array", fs=np.array([30000.]))
    run_detect(raw, "scalar similarity threshold", fs=30000, similarity_threshold=-0.5)
    run_detect(raw, "one-element similarity threshold", fs=30000, similarity_threshold=(-0.5,))
    run_detect(raw * np.nan, "all nan", fs=30000)
    rawn = raw.copy()
    rawn[5, 100] = np.nan
    run_detect(rawn, "one nan", fs=30000)
    rawn[7, 50] = np.inf
    run_detect(rawn, "nan and inf", fs=30000)
    run_detect(raw.astype(np.complex128), "complex input", fs=30000)
    run_detect(raw.astype(np.longdouble), "long double input", fs=30000)
    run_detect(raw > 0, "boolean input", fs=30000)
    run_detect(raw[::2, ::3], "strided view", fs=30000)
    run_detect(raw[::-1, ::-1], "reversed view", fs=30000)
    return n_expected, n_eligible


# --------------------------------------------------------------------------------------------------------------
# detect_bad_channels_cbin
# --------------------------------------------------------------------------------------------------------------
def write_bin(path, rng, nc, ns, fs, nsync, ntop, ndead, nnoisy, drift=False):
    """Writes a flat int16 binary file whose fault pattern may change along the file"""
    s2v = 2.34375e-06
    n_chunk = int(fs * 0.25) if drift else ns  # with drift the faulty channels change every quarter of a second
    with open(path, "wb") as fid:
        done = 0
        while done < ns:
            n = min(n_chunk, ns - done)
            volts, _ = synthetic_recording(rng, nc, n, fs, ntop=ntop, ndead=ndead, nnoisy=nnoisy)
            d = np.clip(np.round(volts / s2v), -32768, 32767).astype(np.int16).T
            if nsync:
                d = np.c_[d, (rng.uniform(size=(n, nsync)) > 0.5).astype(np.int16) * 64]
            fid.write(np.ascontiguousarray(d).tobytes())
            done += n


def run_cbin(label, make_reader, **kwargs):
    sr_ref, sr_new = make_reader(), make_reader()
    r_ref = call(detect_bad_channels_cbin, sr_ref, **kwargs)
    r_new = call(voltage.detect_bad_channels_cbin, sr_new, **kwargs)
    check("cbin", label, r_ref, r_new)
    for sr in (sr_ref, sr_new):
        if isinstance(sr, spikeglx.Reader):
            call(sr.close)


def test_cbin(rng, tmp):
    fixtures = Path(__file__).resolve().parent.joinpath("src", "tests", "fixtures")
    specs = [  # nc, nsync, ns, fs, ntop, ndead, nnoisy, drift
        (48, 0, 30000, 30000, 6, 1, 1, False),
        (64, 1, 24000, 30000, 0, 2, 1, True),
        (97, 1, 20011, 30000, 12, 1, 2, True),
        (32, 2, 15000, 2500, 4, 1, 0, False),
        (128, 0, 12000, 30000, 20, 2, 2, True),
    ]
    for j, (nc, nsync, ns, fs, ntop, ndead, nnoisy, drift) in enumerate(specs):
        file_bin = tmp.joinpath(f"flat_{j}.bin")
        write_bin(file_bin, rng, nc, ns, fs, nsync, ntop, ndead, nnoisy, drift=drift)
        kw = dict(nc=nc + nsync, ns=ns, fs=fs, nsync=nsync, dtype="int16")
        for n_batches, batch_duration in [(10, 0.05), (3, 0.1), (1, 0.08), (4, 0.031), (7, 0.02)]:
            run_cbin(f"flat file {j} n_batches={n_batches} batch_duration={batch_duration}",
                     lambda: spikeglx.Reader(file_bin, **kw), n_batches=n_batches, batch_duration=batch_duration)
        run_cbin(f"flat file {j} no batches", lambda: spikeglx.Reader(file_bin, **kw), n_batches=0, batch_duration=0.05)
        run_cbin(f"flat file {j} display", lambda: spikeglx.Reader(file_bin, **kw), n_batches=2, batch_duration=0.05, display=True)
        run_cbin(f"flat file {j} batch longer than the file", lambda: spikeglx.Reader(file_bin, **kw), n_batches=3, batch_duration=5.)
        run_cbin(f"flat file {j} negative batch duration", lambda: spikeglx.Reader(file_bin, **kw), n_batches=3, batch_duration=-0.05)
        run_cbin(f"flat file {j} tiny batch", lambda: spikeglx.Reader(file_bin, **kw), n_batches=3, batch_duration=0.0005)
        run_cbin(f"flat file {j} float n_batches", lambda: spikeglx.Reader(file_bin, **kw), n_batches=2.0, batch_duration=0.05)
        run_cbin(f"flat file {j} closed reader", lambda: spikeglx.Reader(file_bin, open=False, **kw), n_batches=2, batch_duration=0.05)
    # files with meta-data: 3B probe with 384 channels + 1 sync channel, default arguments included
    ns, fs = 18000, 30000
    bin_3b = tmp.joinpath("sample3B_g0_t0.imec1.ap.bin")
    write_bin(bin_3b, rng, 384, ns, fs, 1, 15, 2, 2, drift=True)
    meta = fixtures.joinpath("sample3B_g0_t0.imec1.ap.meta").read_text().splitlines()
    meta = [f"fileSizeBytes={ns * 385 * 2}" if ln.startswith("fileSizeBytes") else ln for ln in meta]
    meta = [f"fileTimeSecs={ns / fs}" if ln.startswith("fileTimeSecs") else ln for ln in meta]
    bin_3b.with_suffix(".meta").write_text("\n".join(meta) + "\n")
    run_cbin("3B file, path as argument, default number of batches", lambda: bin_3b, batch_duration=0.04)
    run_cbin("3B file, path as argument, default batch duration", lambda: bin_3b, n_batches=2)
    run_cbin("3B file, path as string", lambda: str(bin_3b), n_batches=3, batch_duration=0.1)
    run_cbin("3B file, meta file as argument", lambda: bin_3b.with_suffix(".meta"), n_batches=2, batch_duration=0.1)
    run_cbin("3B file, reader as argument", lambda: spikeglx.Reader(bin_3b), n_batches=5, batch_duration=0.06)
    run_cbin("3B file, unsorted reader", lambda: spikeglx.Reader(bin_3b, sort=False), n_batches=2, batch_duration=0.06)
    run_cbin("3B file, no batches", lambda: bin_3b, n_batches=0)
    run_cbin("3B file, display", lambda: bin_3b, n_batches=1, batch_duration=0.05, display=True)
    run_cbin("missing file", lambda: tmp.joinpath("not_there.ap.bin"))
    run_cbin("wrong argument type", lambda: 12)
    # compressed version of the same file
    try:
        import mtscomp
        cbin_3b = tmp.joinpath("compressed", "sample3B_g0_t0.imec1.ap.cbin")
        cbin_3b.parent.mkdir()
        shutil.copy(bin_3b.with_suffix(".meta"), cbin_3b.with_suffix(".meta"))
        mtscomp.compress(bin_3b, cbin_3b, cbin_3b.with_suffix(".ch"), sample_rate=fs, n_channels=385, dtype=np.int16,
                         chunk_duration=.1, check_after_compress=False, n_threads=1)
    except Exception as e:  # noqa
        print(f"    (compressed file not tested: {type(e).__name__} {e})")
    else:
        run_cbin("cbin file, path as argument", lambda: cbin_3b, n_batches=4, batch_duration=0.07)
        run_cbin("cbin file, reader as argument", lambda: spikeglx.Reader(cbin_3b), n_batches=2, batch_duration=0.1)


def main():
    t_start = time.time()
    rng = np.random.default_rng(20241004)
    test_interpolate(rng)
    print(f"interpolate_bad_channels: {N_CASES['interpolate']} comparisons ({N_RAISED['interpolate']} of an exception), "
          f"{time.time() - t_start:.1f}s")
    n_expected, n_eligible = test_detect(rng)
    print(f"detect_bad_channels: {N_CASES['detect']} comparisons ({N_RAISED['detect']} of an exception), "
          f"{n_expected}/{n_eligible} plain AP recordings labelled exactly as injected, {time.time() - t_start:.1f}s")
    tmp_root = os.environ.get("TMPDIR") or os.path.join(os.path.dirname(os.path.abspath(__file__)), ".tmp")
    os.makedirs(tmp_root, exist_ok=True)
    tmp = Path(tempfile.mkdtemp(prefix="demo_c15_", dir=tmp_root))
    try:
        test_cbin(rng, tmp)
    finally:
        shutil.rmtree(tmp, ignore_errors=True)
    print(f"detect_bad_channels_cbin: {N_CASES['cbin']} comparisons ({N_RAISED['cbin']} of an exception), "
          f"{time.time() - t_start:.1f}s")
    if FAILURES:
        print(f"{len(FAILURES)} DIFFERENCES between the reference and the refactored implementations:")
        for f in FAILURES[:40]:
            print("   ", f)
        return 1
    print(f"OK: {sum(N_CASES.values())} comparisons, all results identical bit for bit")
    return 0


if __name__ == "__main__":
    sys.exit(main())
