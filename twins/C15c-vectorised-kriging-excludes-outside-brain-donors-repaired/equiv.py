import sys, os; sys.path.insert(0, os.path.join(os.path.dirname(os.path.abspath(__file__)), "src"))
"""
C15 - bad-channel repair touches only bad channels, and every dead / noisy channel is replaced by the
convex combination of its nearby *good or outside-brain* channels (zeros only when it has none).

The oracle below is the definition written with plain NumPy loops (distance-decay weights exp(-(d/20)**1.3),
zeroed on dead/noisy channels and below 0.005, normalised to 1).  It is checked on label vectors without
and with an outside-brain block (label 3), with bad channels isolated, clustered, at the probe ends,
next to the block and inside the block.
"""
import numpy as np

import neuropixel
from ibldsp.voltage import interpolate_bad_channels

P, KRIGING_UM, WMIN = 1.3, 20, 0.005


def oracle(data, labels, x, y):
    """Expected output and, for each repaired channel, its donors"""
    expected = data.copy()
    donors = {}
    bad = [i for i in range(labels.size) if labels[i] in (1, 2)]
    for i in bad:
        w = np.zeros(labels.size)
        for j in range(labels.size):
            if labels[j] in (1, 2):  # dead and noisy channels never contribute, good (0) and outside (3) do
                continue
            wj = np.exp(-((np.sqrt((x[j] - x[i]) ** 2 + (y[j] - y[i]) ** 2) / KRIGING_UM) ** P))
            w[j] = wj if wj >= WMIN else 0
        donors[i] = np.flatnonzero(w)
        expected[i, :] = 0 if donors[i].size == 0 else (w[donors[i]] / w.sum()) @ data[donors[i], :]
    return expected, donors


def check(name, labels, x, y, seed):
    rng = np.random.default_rng(seed)
    nc, ns = labels.size, 300
    # coherent background + channel noise, on top of a positive offset so that 0 is never inside the data range
    data = 50 + rng.standard_normal(ns)[np.newaxis, :] * 4 + rng.standard_normal((nc, ns))
    data[labels == 1, :] = 1e-3 * rng.standard_normal((int(np.sum(labels == 1)), ns))  # dead
    data[labels == 2, :] += 400 * rng.standard_normal((int(np.sum(labels == 2)), ns))  # noisy
    expected, donors = oracle(data, labels, x, y)
    out = interpolate_bad_channels(data.copy(), labels.copy(), x.copy(), y.copy())
    problems = []
    other = np.flatnonzero(~np.isin(labels, (1, 2)))
    changed = other[np.any(out[other] != data[other], axis=1)]
    if changed.size:
        problems.append(f"channels {changed.tolist()} are not labelled dead/noisy but were modified")
    for i, idon in donors.items():
        if idon.size == 0:
            if np.any(out[i] != 0):
                problems.append(f"channel {i} (label {labels[i]}) has no donor and should be zeroed")
            continue
        lo, hi = data[idon].min(axis=0), data[idon].max(axis=0)
        tol = 1e-9 * np.maximum(1, np.abs(hi))
        if np.any(out[i] < lo - tol) or np.any(out[i] > hi + tol):
            problems.append(
                f"channel {i} (label {labels[i]}) leaves the range of its {idon.size} donors "
                f"{idon.tolist()} (labels {sorted(set(labels[idon].tolist()))}): "
                f"donors span [{lo.min():.2f}, {hi.max():.2f}], output spans [{out[i].min():.2f}, {out[i].max():.2f}]")
        elif not np.allclose(out[i], expected[i], rtol=1e-9, atol=1e-9):
            problems.append(
                f"channel {i} (label {labels[i]}) is not the distance-weighted combination of its donors "
                f"{idon.tolist()} (labels {sorted(set(labels[idon].tolist()))}): "
                f"max abs deviation {np.max(np.abs(out[i] - expected[i])):.4f}")
    print(f"[{'FAIL' if problems else ' ok '}] {name}")
    for pb in problems:
        print("        " + pb)
    return len(problems)


def main():
    nerr = 0
    for version in (1, 2):
        h = neuropixel.trace_header(version=version)
        x, y = h["x"].astype(float), h["y"].astype(float)
        nc = x.size
        # 1) no outside-brain block: isolated, clustered and probe-end bad channels
        labels = np.zeros(nc, dtype=int)
        labels[[0, 1, 37, 120, 121, 122, 123, 250, nc - 1]] = [1, 2, 1, 2, 1, 1, 2, 2, 1]
        nerr += check(f"NP{version}: dead/noisy channels only (isolated, cluster, both probe ends)", labels, x, y, 1)
        # 2) a wide cluster whose middle channels have no donor at all
        labels = np.zeros(nc, dtype=int)
        labels[180:212] = 1
        nerr += check(f"NP{version}: 32 adjacent dead channels", labels, x, y, 2)
        # 3) outside-brain block at the top of the probe, bad channels far below it
        labels = np.zeros(nc, dtype=int)
        labels[nc - 24:] = 3
        labels[[12, 200, 201]] = [1, 2, 1]
        nerr += check(f"NP{version}: top 24 channels outside, bad channels far from the block", labels, x, y, 3)
        # 4) a noisy channel just below the outside-brain block
        labels = np.zeros(nc, dtype=int)
        labels[nc - 24:] = 3
        labels[nc - 26] = 2
        nerr += check(f"NP{version}: top 24 channels outside, noisy channel next to the block", labels, x, y, 4)
        # 5) dead and noisy channels inside the outside-brain block, including the tip of the block
        labels = np.zeros(nc, dtype=int)
        labels[nc - 40:] = 3
        labels[[nc - 12, nc - 11, nc - 1]] = [1, 2, 1]
        nerr += check(f"NP{version}: top 40 channels outside, dead/noisy channels inside the block", labels, x, y, 5)
    if nerr:
        print(f"\nC15 violated: {nerr} problem(s) - repaired channels are not the convex combination of their "
              "nearby good or outside-brain channels")
        return 1
    print("\nC15 holds on all the cases")
    return 0


if __name__ == "__main__":
    sys.exit(main())
