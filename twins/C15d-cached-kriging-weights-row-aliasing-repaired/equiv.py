import sys, os; sys.path.insert(0, os.path.join(os.path.dirname(os.path.abspath(__file__)), "src"))
"""
C15 - bad-channel repair: every dead / noisy channel is replaced by the normalised distance-decay
combination of its nearby good or outside-brain channels (zeros only if it has none), all the
other channels are returned bit-identical.

Two recordings made with the same probe layout are repaired one after the other in the same
Python session, the way a batch job over several sessions does.  The second recording shares one
bad channel with the first one, but not its bad neighbours.  Each result is compared with an
oracle written from the definition in plain NumPy.
"""
import numpy as np

import neuropixel
from ibldsp.voltage import interpolate_bad_channels

P, KRIGING_UM, FLOOR = 1.3, 20, 0.005


def oracle(data, labels, x, y):
    """The definition, channel by channel, without any shared state"""
    out = data.copy()
    bad = np.flatnonzero((labels == 1) | (labels == 2))
    donors = {}
    for i in bad:
        w = np.exp(-((np.hypot(x - x[i], y - y[i]) / KRIGING_UM) ** P))
        w[bad] = 0
        w[w < FLOOR] = 0
        donors[i] = np.flatnonzero(w)
        out[i] = 0 if donors[i].size == 0 else (w[donors[i]] / w[donors[i]].sum()) @ data[donors[i]]
    return out, bad, donors


def check(name, data, labels, x, y):
    expected, bad, donors = oracle(data, labels, x, y)
    got = interpolate_bad_channels(data.copy(), labels.copy(), x.copy(), y.copy())
    problems = []
    good = np.setdiff1d(np.arange(data.shape[0]), bad)
    if not np.array_equal(got[good], data[good]):
        problems.append("channels that are not dead / noisy were modified")
    for i in bad:
        if np.allclose(got[i], expected[i], rtol=1e-9, atol=1e-12):
            continue
        d = donors[i]
        msg = f"channel {i} (label {int(labels[i])}, {d.size} good neighbours within reach {d.tolist()})"
        if d.size and not np.any(got[i]):
            msg += " was set to zeros although it has neighbours to be interpolated from"
        elif d.size:
            lo, hi = data[d].min(axis=0), data[d].max(axis=0)
            outside = int(np.sum((got[i] < lo - 1e-9) | (got[i] > hi + 1e-9)))
            msg += (f" is not the normalised distance-decay combination of its neighbours: max abs deviation"
                    f" {np.max(np.abs(got[i] - expected[i])):.3g}, {outside} samples outside of their range")
        else:
            msg += " should be zeros as it has no neighbour"
        problems.append(msg)
    print(f"{name}: {bad.size} dead / noisy channels -> " + ("OK" if not problems else "WRONG"))
    for pb in problems:
        print("    " + pb)
    return not problems


def main():
    h = neuropixel.trace_header(version=1)
    x, y = h["x"].astype(np.float64), h["y"].astype(np.float64)
    nc, ns = x.size, 300
    rng = np.random.default_rng(15)

    # first recording: a damaged stretch of the shank (cluster of adjacent bad channels) + the usual channel 191
    labels_a = np.zeros(nc)
    labels_a[96:126] = 1
    labels_a[100:104] = 2
    labels_a[191] = 1
    labels_a[360:] = 3
    data_a = rng.standard_normal((nc, ns)) + 5
    ok_a = check("recording A", data_a, labels_a, x, y)

    # second recording, same probe layout: channel 110 is noisy, channel 98 dead, their neighbours are fine
    labels_b = np.zeros(nc)
    labels_b[110] = 2
    labels_b[98] = 1
    labels_b[191] = 1
    labels_b[370:] = 3
    data_b = rng.standard_normal((nc, ns)) + 5
    ok_b = check("recording B", data_b, labels_b, x, y)

    if ok_a and ok_b:
        print("bad-channel repair agrees with the definition on both recordings")
        return 0
    print("PROPERTY C15 VIOLATED: the repair of a recording depends on the labels of the recording processed before it")
    return 1


if __name__ == "__main__":
    sys.exit(main())
