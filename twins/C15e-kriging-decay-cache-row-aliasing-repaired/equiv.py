import sys, os; sys.path.insert(0, os.path.join(os.path.dirname(os.path.abspath(__file__)), "src"))
"""
C15: bad-channel repair replaces each dead / noisy channel by a convex combination of its nearby
good (or outside-brain) channels, and leaves every other channel bit-identical.

The property must hold for every call, whatever calls were made before.  Here two recordings of
the same probe (same geometry) are repaired one after the other with different label vectors and
each result is compared with the definition written in plain NumPy.
"""
import numpy as np

import neuropixel
from ibldsp.voltage import interpolate_bad_channels


def oracle(data, labels, x, y, p=1.3, kriging_distance_um=20):
    """The definition: distance-decay weights, zero on bad channels and below 0.005, normalised to 1"""
    out = data.copy()
    bad = np.where((labels == 1) | (labels == 2))[0]
    for i in bad:
        d = np.sqrt((x - x[i]) ** 2 + (y - y[i]) ** 2)
        w = np.exp(-((d / kriging_distance_um) ** p))
        w[bad] = 0
        w[w < 0.005] = 0
        if w.sum() == 0:
            out[i] = 0
        else:
            out[i] = (w / w.sum()) @ data
    return out


def check(tag, data, labels, x, y):
    """returns a list of messages, empty if the property holds for this call"""
    msgs = []
    expected = oracle(data, labels, x, y)
    got = interpolate_bad_channels(data.copy(), labels.copy(), x.copy(), y.copy())
    bad = np.where((labels == 1) | (labels == 2))[0]
    untouched = np.setdiff1d(np.arange(data.shape[0]), bad)
    if not np.array_equal(got[untouched], data[untouched]):
        msgs.append(f"{tag}: channels that are neither dead nor noisy were modified")
    for i in bad:
        d = np.sqrt((x - x[i]) ** 2 + (y - y[i]) ** 2)
        w = np.exp(-((d / 20) ** 1.3))
        donors = np.setdiff1d(np.where(w >= 0.005)[0], bad)
        if donors.size == 0:
            if np.any(got[i] != 0):
                msgs.append(f"{tag}: channel {i} has no good neighbour and should be zeros")
            continue
        lo, hi = data[donors].min(axis=0), data[donors].max(axis=0)
        tol = 1e-9 * np.maximum(np.abs(lo), np.abs(hi))
        nout = int(np.sum((got[i] < lo - tol) | (got[i] > hi + tol)))
        if nout:
            msgs.append(
                f"{tag}: channel {i} (label {int(labels[i])}) has {donors.size} good neighbours {donors.tolist()} "
                f"but {nout}/{got.shape[1]} samples are outside of their range "
                f"(first sample: got {got[i, 0]:.3f}, neighbours within [{lo[0]:.3f}, {hi[0]:.3f}])")
        elif not np.allclose(got[i], expected[i], rtol=1e-9, atol=1e-9):
            msgs.append(
                f"{tag}: channel {i} is not the normalised distance-decay average of its good neighbours "
                f"(max abs deviation {np.max(np.abs(got[i] - expected[i])):.3g})")
    return msgs


def main():
    h = neuropixel.trace_header(version=1)
    x, y = h["x"].astype(np.float64), h["y"].astype(np.float64)
    nc, ns = x.size, 400
    rng = np.random.default_rng(15)
    msgs = []

    # recording A: a whole cluster of adjacent channels is dead (e.g. a damaged stretch of the shank)
    data_a = 100 + rng.normal(size=(nc, ns))
    labels_a = np.zeros(nc)
    labels_a[92:111] = 1
    msgs += check("recording A (cluster 92..110 dead)", data_a, labels_a, x, y)

    # recording B, same probe geometry: only one noisy channel sitting among good channels
    data_b = 100 + rng.normal(size=(nc, ns))
    labels_b = np.zeros(nc)
    labels_b[101] = 2
    msgs += check("recording B (only channel 101 noisy) after A", data_b, labels_b, x, y)

    # recording C, same probe: the channel at the edge of the old cluster is noisy, its neighbours are all good
    data_c = 100 + rng.normal(size=(nc, ns))
    labels_c = np.zeros(nc)
    labels_c[92] = 2
    labels_c[370:] = 3
    msgs += check("recording C (only channel 92 noisy, top block outside) after A and B", data_c, labels_c, x, y)

    if msgs:
        print("C15 VIOLATED: bad-channel interpolation depends on the labels of earlier calls")
        for m in msgs:
            print(" -", m)
        return 1
    print("C15 holds: every repaired channel is the convex combination of its good neighbours, others untouched")
    return 0


if __name__ == "__main__":
    sys.exit(main())
