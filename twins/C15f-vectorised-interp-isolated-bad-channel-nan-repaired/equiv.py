import sys, os; sys.path.insert(0, os.path.join(os.path.dirname(os.path.abspath(__file__)), "src"))
"""
C15 - bad-channel repair touches only bad channels: every channel labelled dead (1) or noisy (2) is
replaced by a convex combination of its nearby good / outside-brain channels, or by zeros when it has
none; every other channel comes back bit-identical.

The oracle below is the definition, written with plain NumPy and scalar loops: for each bad channel
we list the non-bad channels whose distance-decay weight exp(-(d / 20) ** 1.3) is at least 0.005.
 - no such channel  -> the repaired trace must be exactly zero
 - otherwise        -> the repaired trace must be finite and lie within [min, max] of those channels
"""
import warnings

import numpy as np

from ibldsp.voltage import interpolate_bad_channels

warnings.simplefilter("ignore")

P, KRIG, WMIN = 1.3, 20, 0.005
nc, ns = 384, 500
# Neuropixel 1 like geometry: 2 sites per row, rows 20 um apart, staggered columns
x = np.tile(np.array([43.0, 11.0, 59.0, 27.0]), nc // 4)
y = np.repeat(np.arange(nc // 2), 2) * 20.0

rng = np.random.default_rng(15)
data0 = (rng.standard_normal((nc, ns)) * 20 + 5 * np.sin(np.arange(ns) / 30)[np.newaxis, :]).astype(np.float32)

labels = np.zeros(nc)
labels[[0, 57, 58, 201, 383 - 30]] = 1  # isolated dead channels, one at the probe tip
labels[[130, 133]] = 2  # noisy channels
labels[240:264] = 1  # a dead block of 12 rows (e.g. a broken reference group) ...
labels[250] = 2  # ... with a noisy one in the middle
labels[-20:] = 3  # outside of the brain
labels[-22] = 2  # noisy channel just below the outside-brain block

data = interpolate_bad_channels(data0.copy(), channel_labels=labels.copy(), x=x.copy(), y=y.copy())

errors = []
bad = np.logical_or(labels == 1, labels == 2)
# 1) the other channels are bit-identical
for i in np.where(~bad)[0]:
    if not np.array_equal(data[i], data0[i]):
        errors.append(f"channel {i} (label {int(labels[i])}) is not bad but was modified")
# 2) the bad channels are zeros or a convex combination of neighbours
n_isolated = 0
for i in np.where(bad)[0]:
    neighbours = []
    for j in range(nc):
        if bad[j]:
            continue
        d = np.hypot(x[j] - x[i], y[j] - y[i])
        if np.exp(-((d / KRIG) ** P)) >= WMIN:
            neighbours.append(j)
    if len(neighbours) == 0:
        n_isolated += 1
        if not np.all(data[i] == 0):
            n_nan = int(np.sum(np.isnan(data[i])))
            errors.append(
                f"channel {i} (label {int(labels[i])}) has no usable neighbour and should be zeros, "
                f"got {n_nan}/{ns} NaN samples, max abs {np.nanmax(np.abs(data[i])) if n_nan < ns else np.nan}"
            )
        continue
    lo = data0[neighbours].min(axis=0)
    hi = data0[neighbours].max(axis=0)
    tol = 1e-4 * np.maximum(np.abs(lo), np.abs(hi)) + 1e-6
    if not np.all(np.isfinite(data[i])):
        errors.append(f"channel {i} (label {int(labels[i])}) has neighbours {neighbours} but is not finite")
    elif np.any(data[i] < lo - tol) or np.any(data[i] > hi + tol):
        errors.append(f"channel {i} (label {int(labels[i])}) leaves the range of its neighbours {neighbours}")

print(f"{int(bad.sum())} bad channels, {n_isolated} of them without any usable neighbour")
if errors:
    print("C15 BROKEN:")
    for e in errors[:20]:
        print("  " + e)
    if len(errors) > 20:
        print(f"  ... and {len(errors) - 20} more")
    sys.exit(1)
print("C15 holds: only bad channels changed, each is zeros or within the range of its neighbours")
sys.exit(0)
