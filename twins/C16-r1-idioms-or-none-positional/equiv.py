"""
Differential check for refactor_1.diff (ibldsp.voltage.saturation: idiom replacements and local renames).
Loads the ORIGINAL voltage.py from the pristine copy and the refactored one from the worktree,
and compares the outputs (values, dtypes, shapes, exceptions) on many inputs.
"""
import importlib.util
import sys
import warnings
from pathlib import Path

WT_SRC = Path('/tmp/wt_C16/src')
ORIG_SRC = Path('/tmp/wt_C16_tmp/orig/src')
# dependencies of voltage.py (ibldsp.utils, ibldsp.fourier, spikeglx, neuropixel...) come from the worktree
sys.path.insert(0, str(WT_SRC))

import numpy as np  # noqa: E402


def load(name, path):
    spec = importlib.util.spec_from_file_location(name, str(path))
    mod = importlib.util.module_from_spec(spec)
    sys.modules[name] = mod
    spec.loader.exec_module(mod)
    return mod


v_orig = load('voltage_orig', ORIG_SRC / 'ibldsp' / 'voltage.py')
v_new = load('voltage_new', WT_SRC / 'ibldsp' / 'voltage.py')
assert Path(v_orig.__file__).resolve() == (ORIG_SRC / 'ibldsp' / 'voltage.py').resolve(), v_orig.__file__
assert Path(v_new.__file__).resolve() == (WT_SRC / 'ibldsp' / 'voltage.py').resolve(), v_new.__file__
import ibldsp.utils  # noqa: E402
assert Path(ibldsp.utils.__file__).resolve().is_relative_to(WT_SRC), ibldsp.utils.__file__
assert v_orig.saturation is not v_new.saturation
import inspect  # noqa: E402
assert inspect.signature(v_orig.saturation) == inspect.signature(v_new.saturation)

warnings.simplefilter('ignore')
N_CASES = 0
N_ERR = 0
N_FLAGGED = 0
N_PARTIAL_MUTE = 0


def run(fun, args, kwargs):
    try:
        return 'ok', fun(*args, **kwargs)
    except Exception as e:  # noqa
        return 'err', (type(e), str(e))


def same_array(a, b):
    a, b = np.asarray(a), np.asarray(b)
    return type(a) is type(b) and a.dtype == b.dtype and a.shape == b.shape and a.tobytes() == b.tobytes()


def check(*args, **kwargs):
    global N_CASES, N_ERR, N_FLAGGED, N_PARTIAL_MUTE
    N_CASES += 1
    # each implementation receives its own copy so that in-place modifications would be detected too
    args_o = [a.copy() if isinstance(a, np.ndarray) else a for a in args]
    args_n = [a.copy() if isinstance(a, np.ndarray) else a for a in args]
    kw_o = {k: (a.copy() if isinstance(a, np.ndarray) else a) for k, a in kwargs.items()}
    kw_n = {k: (a.copy() if isinstance(a, np.ndarray) else a) for k, a in kwargs.items()}
    so, ro = run(v_orig.saturation, args_o, kw_o)
    sn, rn = run(v_new.saturation, args_n, kw_n)
    assert so == sn, (so, ro, sn, rn)
    if so == 'err':
        N_ERR += 1
        assert ro == rn, (ro, rn)
        return
    assert type(ro) is type(rn) and len(ro) == len(rn) == 2
    for o, n in zip(ro, rn):
        assert type(o) is type(n), (type(o), type(n))
        assert same_array(o, n), (args, kwargs, o, n)
    N_FLAGGED += bool(np.any(ro[0]) and not np.all(ro[0]))
    N_PARTIAL_MUTE += bool(np.any((np.asarray(ro[1]) > 0) & (np.asarray(ro[1]) < 1)))
    # inputs left untouched in the same way
    for ao, an in zip(args_o, args_n):
        if isinstance(ao, np.ndarray):
            assert same_array(ao, an)
    for k in kw_o:
        if isinstance(kw_o[k], np.ndarray):
            assert same_array(kw_o[k], kw_n[k])


rng = np.random.default_rng(16)

# ---- 1) random data, several shapes, dtypes, scalar and per channel ranges
for nc in (1, 2, 3, 4, 5, 7, 10, 33, 100, 384, 400):
    for ns in (1, 2, 3, 6, 7, 8, 20, 131):
        for dtype in (np.float64, np.float32):
            rng_v = 1.2e-3
            data = (rng.standard_normal((nc, ns)) * rng_v * 0.6).astype(dtype)
            check(data, rng_v)
            check(data, max_voltage=np.ones(nc) * rng_v)
            check(data, max_voltage=(rng.uniform(0.5, 1.5, nc) * rng_v).astype(np.float32), fs=2500)
            check(data, rng_v, v_per_sec=1e-7, proportion=float(rng.uniform(0, 1)),
                  mute_window_samples=int(rng.integers(0, 15)))

# ---- 2) values just below / at / just above 0.98 * range on just below / at / just above the proportion of channels
for nc in (1, 2, 3, 5, 10, 16, 50, 384, 400):
    for proportion in (0.0, 0.1, 0.2, 0.25, 0.5, 1 / 3, 0.999, 1.0):
        for per_channel in (False, True):
            mv = rng.uniform(0.5, 2, nc) if per_channel else np.array([1.2])
            thr = (np.atleast_1d(mv) * 0.98) * np.ones(nc)
            k0 = int(np.floor(proportion * nc))
            for k in sorted({max(0, k0 - 1), k0, min(nc, k0 + 1), 0, nc}):
                for eps in (-1, 0, 1):
                    ns = 40
                    data = np.zeros((nc, ns))
                    val = np.nextafter(thr, np.inf) if eps > 0 else (np.nextafter(thr, -np.inf) if eps < 0 else thr)
                    for s, sign in ((0, 1), (10, -1), (11, 1), (12, 1), (25, -1), (39, 1)):
                        data[:k, s] = sign * val[:k]
                    # huge slew limit: only the amplitude criterion can fire
                    check(data, mv if per_channel else 1.2, v_per_sec=1e9, proportion=proportion)
                    check(data, mv if per_channel else 1.2, v_per_sec=1e9, proportion=proportion, mute_window_samples=3)
                    # and with the default one
                    check(data, mv if per_channel else 1.2, proportion=proportion)

# ---- 3) slew criterion just below / at / just above the limit on k channels
for nc in (1, 2, 5, 10, 384, 400):
    for proportion in (0.0, 0.2, 0.5, 1.0):
        k0 = int(np.floor(proportion * nc))
        for k in sorted({max(0, k0 - 1), k0, min(nc, k0 + 1), 0, nc}):
            for fs in (30_000, 2500, 1):
                for v_per_sec in (1e-8, 1e-3, 0.5):
                    step = v_per_sec * fs
                    for step_ in (step, np.nextafter(step, np.inf), np.nextafter(step, -np.inf), step * 1.01, step * 0.99):
                        ns = 30
                        data = np.zeros((nc, ns))
                        data[:k, 5:] += step_
                        data[:k, 15:] -= step_
                        data[:k, 16:] -= step_
                        data[:k, 29:] += step_
                        data[:k, 1:] += step_
                        check(data, 1e6, v_per_sec=v_per_sec, fs=fs, proportion=proportion)
                        check(data, max_voltage=np.ones(nc) * 1e6, v_per_sec=v_per_sec, fs=fs, proportion=proportion,
                              mute_window_samples=5)

# ---- 4) taper widths, isolated / adjacent runs, runs touching the array ends
for mws in (0, 1, 2, 3, 4, 7, 8, 15, 31, 64, 100):
    for ns in (1, 2, 5, 7, 8, 50):
        for _ in range(6):
            nc = int(rng.integers(1, 6))
            flags = rng.uniform(size=ns) < rng.uniform(0, 0.6)
            for edge in ('none', 'first', 'last', 'both', 'all'):
                f = flags.copy()
                if edge in ('first', 'both'):
                    f[0] = True
                if edge in ('last', 'both'):
                    f[-1] = True
                if edge == 'all':
                    f[:] = True
                data = np.zeros((nc, ns)) + f[np.newaxis, :] * 2.0
                check(data, 1.0, v_per_sec=1e9, mute_window_samples=mws)
                check(data, 1.0, mute_window_samples=mws)
                check(data.astype(np.float32), np.ones(nc, dtype=np.float32), 1e9, 30_000, 0.2, mws)

# ---- 5) other dtypes / containers / nan / inf
data = rng.integers(-600, 600, size=(12, 50)).astype(np.int16)
check(data, 512)
check(data, np.full(12, 512, dtype=np.int16), v_per_sec=0.01, fs=30000)
check(data.tolist(), 512)
check(data.astype(np.float16), 512.)
d = rng.standard_normal((6, 40))
d[2, 5] = np.nan
d[3, 9] = np.inf
d[1, 10] = -np.inf
check(d, 2.0)
check(d, np.array([np.nan, 1, 1, 1, 1, np.inf]))
check(d, 2.0, proportion=np.float32(0.2))
check(d, 2.0, proportion=np.linspace(0, 1, 40))  # array-like proportion broadcasts over samples
check(d, 2.0, fs=np.int64(30000), v_per_sec=np.float32(1e-8))
check(np.asfortranarray(d), 2.0)
check(d[:, ::2], 2.0)
check(d.T, 2.0)  # transposed: max_voltage scalar still broadcasts

# ---- 6) erroneous inputs must raise the same exception
check(np.zeros((4, 0)), 1.0)
check(np.zeros((0, 10)), 1.0)
check(np.zeros((0, 0)), 1.0)
check(np.zeros(10), 1.0)
check(np.zeros((3, 4, 5)), 1.0)
check(np.zeros((3, 4, 1)), 1.0)
check(np.float64(3.0), 1.0)
check(np.zeros((4, 10)), np.ones(3))
check(np.zeros((4, 10)), np.ones((4, 1)))
check(np.zeros((4, 10)), None)
check(np.zeros((4, 10)), 'a')
check(None, 1.0)
check(np.zeros((4, 10)), 1.0, mute_window_samples=-1)
check(np.zeros((4, 10)), 1.0, mute_window_samples=2.5)
check(np.zeros((4, 10)), 1.0, mute_window_samples=None)
check(np.zeros((4, 10)), 1.0, fs=0)
check(np.zeros((4, 10)), 1.0, fs=None)
check(np.zeros((4, 10)), 1.0, proportion=None)
check(np.zeros((4, 10)), 1.0, proportion='0.2')
check(np.zeros((4, 10)), 1.0, proportion=np.ones(3))
check(np.zeros((4, 10)), 1.0, v_per_sec=None)
check(np.zeros((4, 10), dtype=object), 1.0)
check(np.zeros((4, 10), dtype=complex) + 2j, 1.0)
check(np.zeros((4, 10), dtype=bool), 1.0)
check(np.ones((4, 10), dtype=np.uint8), 1)

assert N_CASES > 5000 and N_ERR > 5, (N_CASES, N_ERR)
assert N_FLAGGED > 1000 and N_PARTIAL_MUTE > 1000, (N_FLAGGED, N_PARTIAL_MUTE)
print(f'{N_CASES} cases compared ({N_ERR} raising identical exceptions, {N_FLAGGED} with some but not all samples flagged, '
      f'{N_PARTIAL_MUTE} with a partial mute)')
print('EQUIVALENT')
