"""
Differential check for refactor_3.diff (spikeglx.Reader.range_volts and spikeglx._get_max_int_from_meta:
branches restructured, early returns).
Loads the ORIGINAL spikeglx.py from the pristine copy and the refactored one from the worktree and compares
return values (type, dtype, shape, bytes) and exceptions on many inputs.
"""
import importlib.util
import inspect
import itertools
import shutil
import sys
import tempfile
import warnings
from pathlib import Path

WT_SRC = Path('/tmp/wt_C16/src')
ORIG_SRC = Path('/tmp/wt_C16_tmp/orig/src')
# dependencies of spikeglx.py (neuropixel, ibldsp.utils ...) come from the worktree
sys.path.insert(0, str(WT_SRC))

import numpy as np  # noqa: E402


def load(name, path):
    spec = importlib.util.spec_from_file_location(name, str(path))
    mod = importlib.util.module_from_spec(spec)
    sys.modules[name] = mod
    spec.loader.exec_module(mod)
    return mod


s_orig = load('spikeglx_orig', ORIG_SRC / 'spikeglx.py')
s_new = load('spikeglx_new', WT_SRC / 'spikeglx.py')
assert Path(s_orig.__file__).resolve() == (ORIG_SRC / 'spikeglx.py').resolve(), s_orig.__file__
assert Path(s_new.__file__).resolve() == (WT_SRC / 'spikeglx.py').resolve(), s_new.__file__
import neuropixel  # noqa: E402
assert Path(neuropixel.__file__).resolve().is_relative_to(WT_SRC), neuropixel.__file__
assert s_orig._get_max_int_from_meta is not s_new._get_max_int_from_meta
assert inspect.signature(s_orig._get_max_int_from_meta) == inspect.signature(s_new._get_max_int_from_meta)
assert isinstance(s_orig.Reader.range_volts, property) and isinstance(s_new.Reader.range_volts, property)
# the sources really differ (i.e. the refactoring is applied) ...
assert inspect.getsource(s_orig._get_max_int_from_meta) != inspect.getsource(s_new._get_max_int_from_meta)
assert inspect.getsource(s_orig.Reader.range_volts.fget) != inspect.getsource(s_new.Reader.range_volts.fget)

warnings.simplefilter('ignore')
import logging  # noqa: E402
logging.disable(logging.CRITICAL)
N_CASES = 0
N_ERR = 0
N_NAN = 0
N_BIN = 0


def run(fun, *args, **kwargs):
    try:
        return 'ok', fun(*args, **kwargs)
    except Exception as e:  # noqa
        return 'err', (type(e), str(e))


def same(o, n):
    if type(o) is not type(n):
        return False
    if isinstance(o, np.ndarray):
        return o.dtype == n.dtype and o.shape == n.shape and o.tobytes() == n.tobytes()
    return o == n


def compare(ro, rn, ctx):
    global N_CASES, N_ERR
    N_CASES += 1
    assert ro[0] == rn[0], (ctx, ro, rn)
    if ro[0] == 'err':
        N_ERR += 1
        assert ro[1] == rn[1], (ctx, ro, rn)
    else:
        assert same(ro[1], rn[1]), (ctx, ro, rn)


# ---------------------------------------------------------------- 1) _get_max_int_from_meta on synthetic meta data
MISSING = object()
type_this = [MISSING, None, 'imec', 'nidq', 'obx', 'IMEC', '', 0, 1.0]
im_max_int = [MISSING, None, 512, 512.0, '512', 8192, 8192.0, '8192', 32768.0, 2047.9, -3, 'abc', np.float32(8192), [1]]
prb_type = [MISSING, None, 0, 0.0, 1020, 1100, 21, 21.0, 24, 2013, 1030, 1120, 1123, 2020, 2021, 3010, 999, 'x']
extras = [{}, {'typeEnabled': 1}, {'typeImEnabled': 1}]
versions = [MISSING, None, '', '3A', '3B1', '3B2', 'NP2.1', 'NP2.4', 'NPultra', 'NP2', 'np2', 0, 2.4, ('NP2',), ['NP2'], b'NP2']


def make_md(tt, mi, pt, extra, cls):
    md = cls()
    if tt is not MISSING:
        md['typeThis'] = tt
    if mi is not MISSING:
        md['imMaxInt'] = mi
    if pt is not MISSING:
        md['imDatPrb_type'] = pt
    md.update(extra)
    return md


from iblutil.util import Bunch  # noqa: E402  (read_meta_data returns a Bunch)

for tt, mi, pt, extra in itertools.product(type_this, im_max_int, prb_type, extras):
    for cls in (dict, Bunch):
        md_o, md_n = make_md(tt, mi, pt, extra, cls), make_md(tt, mi, pt, extra, cls)
        compare(run(s_orig._get_max_int_from_meta, md_o), run(s_new._get_max_int_from_meta, md_n), (tt, mi, pt, extra))
        assert md_o == md_n == make_md(tt, mi, pt, extra, cls)  # meta data left untouched
for tt, mi, ver in itertools.product(type_this, im_max_int, versions):
    for pt in (MISSING, 0, 24):
        md_o, md_n = make_md(tt, mi, pt, {}, dict), make_md(tt, mi, pt, {}, dict)
        if ver is MISSING:
            ro, rn = run(s_orig._get_max_int_from_meta, md_o), run(s_new._get_max_int_from_meta, md_n)
        else:
            ro = run(s_orig._get_max_int_from_meta, md_o, ver)
            rn = run(s_new._get_max_int_from_meta, md_n, neuropixel_version=ver)
            compare(run(s_orig._get_max_int_from_meta, md_o, neuropixel_version=ver),
                    run(s_new._get_max_int_from_meta, md_n, ver), (tt, mi, pt, ver))
        compare(ro, rn, (tt, mi, pt, ver))
# not a mapping at all
for bad in (None, [], 'imec', 3):
    compare(run(s_orig._get_max_int_from_meta, bad), run(s_new._get_max_int_from_meta, bad), bad)

# ---------------------------------------------------------------- 2) on all the meta data fixtures + Reader.range_volts
meta_files = sorted((WT_SRC / 'tests' / 'fixtures').rglob('*.meta'))
assert len(meta_files) >= 15
tmpdir = Path(tempfile.mkdtemp(dir='/tmp/wt_C16_tmp'))
try:
    for imf, mf in enumerate(meta_files):
        md_o, md_n = s_orig.read_meta_data(mf), s_new.read_meta_data(mf)
        compare(run(s_orig._get_max_int_from_meta, md_o), run(s_new._get_max_int_from_meta, md_n), mf.name)
        # Reader instantiated from the meta data file alone
        r_o = run(s_orig.Reader, mf)
        r_n = run(s_new.Reader, mf)
        assert r_o[0] == r_n[0], (mf, r_o, r_n)
        if r_o[0] == 'ok':
            compare(run(lambda: r_o[1].range_volts), run(lambda: r_n[1].range_volts), ('range_volts', mf.name))
            rv = r_o[1].range_volts
            assert rv.shape == (r_o[1].nc,) and np.all(np.isfinite(rv))
            # altered meta-data on a live reader: imMaxInt removed / changed / meta emptied
            for alter in ('pop', 'change', 'type', 'empty', 'none'):
                for r in (r_o[1], r_n[1]):
                    r.meta = s_orig.read_meta_data(mf)
                    if alter == 'pop':
                        r.meta.pop('imMaxInt', None)
                    elif alter == 'change':
                        r.meta['imMaxInt'] = '1234'
                    elif alter == 'type':
                        r.meta['typeThis'] = 'nidq' if r.meta.get('typeThis') == 'imec' else 'imec'
                    elif alter == 'empty':
                        r.meta = {}
                    elif alter == 'none':
                        r.meta = None
                compare(run(lambda: r_o[1].range_volts), run(lambda: r_n[1].range_volts), ('range_volts', alter, mf.name))
        # Reader on a mock binary file written next to a copy of the meta data
        nc = int(md_o['nSavedChans'])
        out = {}
        for tag, mod in (('o', s_orig), ('n', s_new)):
            d = tmpdir / tag / (f'{imf:02d}_' + mf.name.replace('.meta', ''))
            d.mkdir(parents=True)
            bin_file = d / mf.name.replace('.meta', '.bin')
            np.random.seed(0)
            out[tag] = run(mod._mock_spikeglx_file, bin_file, mf, ns=300, nc=nc, sync_depth=8)
        assert out['o'][0] == out['n'][0], (mf, out)
        if out['o'][0] == 'ok':
            b_o, b_n = run(s_orig.Reader, out['o'][1]['bin_file']), run(s_new.Reader, out['n'][1]['bin_file'])
            assert b_o[0] == b_n[0], (mf, b_o, b_n)
            if b_o[0] == 'err':  # e.g. incomplete meta data written while acquiring
                assert b_o[1] == b_n[1], (mf, b_o, b_n)
                continue
            N_BIN += 1
            with b_o[1] as sr_o, b_n[1] as sr_n:
                compare(run(lambda: sr_o.range_volts), run(lambda: sr_n.range_volts), ('range_volts bin', mf.name))
                np.testing.assert_array_equal(
                    sr_n.range_volts, sr_n.channel_conversion_sample2v[sr_n.type] * s_new._get_max_int_from_meta(sr_n.meta))
                assert sr_n.range_volts.dtype == sr_o.range_volts.dtype

    # ------------------------------------------------------------ 3) readers without any meta data: nan range
    for nc, ns, dtype, kwargs in (
        (384, 50, 'int16', {}), (385, 50, 'int16', {}), (7, 33, 'int16', dict(nc=7, ns=33, fs=2500)),
        (12, 40, 'float32', dict(nc=12, ns=40, fs=30000, dtype='float32')),
        (12, 40, 'float32', dict(nc=12, ns=40, fs=30000, dtype='float32', s2v=2.5)),
        (5, 40, 'int16', dict(nc=5, ns=40, fs=30000, nsync=1)),
        (5, 40, 'int16', dict(nc=5, ns=40, fs=30000, s2v=np.arange(5, dtype=np.float32))),
    ):
        f = tmpdir / f'nometa_{nc}_{ns}_{dtype}_{len(kwargs)}_{"s2v" in kwargs}_{"nsync" in kwargs}.bin'
        np.zeros((ns, nc), dtype=dtype).tofile(f)
        with s_orig.Reader(f, **kwargs) as sr_o, s_new.Reader(f, **kwargs) as sr_n:
            assert sr_o.meta is None and sr_n.meta is None
            ro, rn = run(lambda: sr_o.range_volts), run(lambda: sr_n.range_volts)
            compare(ro, rn, ('range_volts nometa', f.name))
            assert ro[0] == 'ok' and ro[1].shape == (nc,) and np.all(np.isnan(ro[1]))
            N_NAN += 1
finally:
    shutil.rmtree(tmpdir, ignore_errors=True)

assert N_CASES > 10000 and N_ERR > 100 and N_NAN == 7 and N_BIN >= 15, (N_CASES, N_ERR, N_NAN, N_BIN)
print(f'{N_CASES} cases compared ({N_ERR} raising identical exceptions)')
print('EQUIVALENT')
