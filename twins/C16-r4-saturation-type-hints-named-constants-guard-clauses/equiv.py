import sys, os; sys.path.insert(0, os.path.join(os.path.dirname(os.path.abspath(__file__)), "src"))
"""
Differential equivalence check for the C16 housekeeping change.

Reference copies (verbatim, as of HEAD) of the three functions that were edited
  - ibldsp.voltage.saturation
  - spikeglx.Reader.range_volts   (property body, taken as a plain function of `self`)
  - spikeglx._get_max_int_from_meta
are compared against whatever is importable from ./src on a few thousand seeded random and
hand-made edge-case inputs: same dtype, same shape, same bytes, same exception type.
Exits 0 when everything is identical, 1 with a message otherwise.
"""
import types
import warnings

import numpy as np
import scipy.signal

import spikeglx
import ibldsp.voltage as voltage
from spikeglx import _get_neuropixel_version_from_meta

warnings.filterwarnings("ignore")


# ----------------------------------------------------------------------------------------------
# ORIGINAL implementations (verbatim copies)
# ----------------------------------------------------------------------------------------------
def ref_saturation(data, max_voltage, v_per_sec=1e-8, fs=30_000, proportion=0.2, mute_window_samples=7):
    """
    Computes
    :param data: [nc, ns]: voltage traces array
    :param max_voltage: maximum value of the voltage: scalar or array of size nc (same units as data)
    :param v_per_sec: maximum derivative of the voltage in V/s (or units/s)
    :param fs: sampling frequency Hz (defaults to 30kHz)
    :param proportion: 0 < proportion <1  of channels above threshold to consider the sample as saturated (0.2)
    :param mute_window_samples=7: number of samples for the cosine taper applied to the saturation
    :return:
        saturation [ns]: boolean array indicating the saturated samples
        mute [ns]: float array indicating the mute function to apply to the data [0-1]
    """
    # first computes the saturated samples
    max_voltage = np.atleast_1d(max_voltage)[:, np.newaxis]
    saturation = np.mean(np.abs(data) > max_voltage * 0.98, axis=0)
    # then compute the derivative of the voltage saturation
    n_diff_saturated = np.mean(np.abs(np.diff(data, axis=-1)) / fs >= v_per_sec, axis=0)
    n_diff_saturated = np.r_[n_diff_saturated, 0]
    # if either of those reaches more than the proportion of channels labels the sample as saturated
    saturation = np.logical_or(saturation > proportion, n_diff_saturated > proportion)
    # apply a cosine taper to the saturation to create a mute function
    win = scipy.signal.windows.cosine(mute_window_samples)
    mute = np.maximum(0, 1 - scipy.signal.convolve(saturation, win, mode='same'))
    return saturation, mute


def ref_get_max_int_from_meta(md, neuropixel_version=None):
    """
    Gets the int value corresponding to the maximum voltage (range max)
    :param md:
    :param neuropixel_version:
    :return:
    """
    # if this is an imec probe, this is electrophysiology and we assert the imMaxInt presence in NP2
    if md.get("typeThis", None) == "imec":
        neuropixel_version = neuropixel_version or _get_neuropixel_version_from_meta(md)
        if "NP2" in neuropixel_version:
            return int(md["imMaxInt"])  # usually 8192 but could be different
        else:  # in case of NP1 it may not be in the header, but it has always been 512
            return int(md.get("imMaxInt", 512))
    else:  # this is a nidq device
        return int(md.get("imMaxInt", 32768))


def ref_range_volts(self):
    """
    Returns the maximum voltage that can be recorded before saturation
    :return: [nc, ] array of float32 (V)
    """
    if not self.meta:
        return self.sample2volts * np.nan
    maxint = ref_get_max_int_from_meta(self.meta)
    return self.sample2volts * maxint


# ----------------------------------------------------------------------------------------------
# comparison machinery
# ----------------------------------------------------------------------------------------------
N_CASES = 0
FAILURES = []


def _call(fcn, args, kwargs):
    try:
        return "ok", fcn(*args, **kwargs)
    except Exception as e:  # noqa
        return "exc", type(e)


def _same(a, b):
    """exact equality: python type, dtype, shape and bytes (so that -0. != 0. and nan == nan)"""
    if isinstance(a, tuple) or isinstance(b, tuple):
        return type(a) is type(b) and len(a) == len(b) and all(_same(x, y) for x, y in zip(a, b))
    if type(a) is not type(b):
        return False
    if isinstance(a, (np.ndarray, np.generic)):
        a_, b_ = np.asarray(a), np.asarray(b)
        return (
            a_.dtype == b_.dtype and a_.shape == b_.shape
            and np.array_equal(a_, b_, equal_nan=a_.dtype.kind in "fc")
            and np.ascontiguousarray(a_).tobytes() == np.ascontiguousarray(b_).tobytes()
        )
    return a == b


def check(label, ref, new, args, kwargs=None, copy=True):
    global N_CASES
    kwargs = kwargs or {}
    N_CASES += 1

    def cp(x):
        return x.copy() if (copy and isinstance(x, np.ndarray)) else x

    args_r, args_n = [cp(a) for a in args], [cp(a) for a in args]
    kw_r, kw_n = {k: cp(v) for k, v in kwargs.items()}, {k: cp(v) for k, v in kwargs.items()}
    sr, rr = _call(ref, args_r, kw_r)
    sn, rn = _call(new, args_n, kw_n)
    if sr != sn:
        FAILURES.append(f"{label}: reference -> {sr} {rr!r}, refactored -> {sn} {rn!r}")
    elif sr == "exc":
        if rr is not rn:
            FAILURES.append(f"{label}: exception types differ {rr} vs {rn}")
    elif not _same(rr, rn):
        FAILURES.append(f"{label}: results differ")
    # the inputs must not have been modified differently either
    for x, y in zip(args_r, args_n):
        if isinstance(x, np.ndarray) and not _same(x, y):
            FAILURES.append(f"{label}: inputs modified differently")


# ----------------------------------------------------------------------------------------------
# saturation
# ----------------------------------------------------------------------------------------------
def _neighbours(x, dtype):
    x = dtype(x)
    return [np.nextafter(x, dtype(-np.inf)), x, np.nextafter(x, dtype(np.inf))]


def saturation_cases(rng):
    # --- 1. seeded random arrays, all keyword combinations -------------------------------------
    for i in range(400):
        nc = int(rng.choice([1, 2, 3, 4, 5, 7, 10, 16, 32, 100, 384, 385, 400]))
        ns = int(rng.choice([1, 2, 3, 5, 7, 8, 20, 64, 257, 600]))
        dtype = rng.choice([np.float32, np.float64, np.float16, np.int16])
        rge = float(rng.choice([0.6, 1.2, 5e-3, 1.0]))
        if dtype is np.int16:
            data = rng.integers(-512, 512, size=(nc, ns)).astype(np.int16)
            rge = float(rng.choice([512, 300, 100]))
        else:
            data = (rng.standard_normal((nc, ns)) * rge * rng.choice([0.1, 0.5, 1.0])).astype(dtype)
        # make some runs of saturated samples (isolated, adjacent, at both ends)
        for _ in range(int(rng.integers(0, 4))):
            first = int(rng.integers(0, ns))
            last = min(ns, first + int(rng.integers(1, 6)))
            first, last = rng.choice([(first, last), (0, min(ns, 2)), (max(0, ns - 2), ns)])
            nsat = int(rng.integers(0, nc + 1))
            data[:nsat, first:last] = dtype(rge) if dtype is not np.int16 else np.int16(rge)
        if rng.random() < 0.5:
            max_voltage = rge
        else:
            max_voltage = (rge * rng.choice([1., 1.1, 0.9], size=nc)).astype(rng.choice([np.float32, np.float64]))
        kwargs = {}
        if rng.random() < 0.6:
            kwargs["v_per_sec"] = float(rng.choice([1e-8, 1e-6, 1e-5, 1e-4, 1.0, 0.0]))
        if rng.random() < 0.5:
            kwargs["fs"] = rng.choice([30_000, 2500, 30_000.0, 1])
        if rng.random() < 0.6:
            kwargs["proportion"] = float(rng.choice([0.2, 0.0, 0.5, 0.999, 1.0, 1 / 3, 0.1]))
        if rng.random() < 0.6:
            kwargs["mute_window_samples"] = int(rng.choice([1, 2, 3, 7, 8, 21, 64, 0]))
        check(f"saturation/random/{i}", ref_saturation, voltage.saturation, (data, max_voltage), kwargs)

    # --- 2. boundary values: 98% of the range on k channels around proportion * nc ----------------
    k = 0
    for nc in [1, 2, 3, 5, 10, 20, 25, 100, 384, 400]:
        for proportion in [0.2, 0.1, 0.5]:
            for dtype in [np.float32, np.float64]:
                for vector_range in [False, True]:
                    rge = dtype(0.6)
                    ns = 40
                    nk = proportion * nc
                    for nsat in sorted({max(0, int(np.floor(nk)) - 1), int(np.floor(nk)), int(np.ceil(nk)),
                                        min(nc, int(np.ceil(nk)) + 1)}):
                        for iv, val in enumerate(_neighbours(rge * dtype(0.98), dtype) + _neighbours(float(rge) * 0.98, dtype)):
                            data = np.zeros((nc, ns), dtype=dtype)
                            # isolated run, adjacent runs, and runs touching both ends
                            for sl in [slice(0, 2), slice(10, 11), slice(14, 17), slice(17, 19), slice(ns - 1, ns)]:
                                data[:nsat, sl] = val
                            data[nsat:, :] = val * dtype(.5)
                            mv = np.full(nc, rge) if vector_range else rge
                            # large slew limit: only the amplitude criterion can trigger
                            check(f"saturation/amp-boundary/{k}", ref_saturation, voltage.saturation,
                                  (data, mv), dict(proportion=proportion, v_per_sec=1e3))
                            # default slew limit
                            check(f"saturation/amp-boundary-slew/{k}", ref_saturation, voltage.saturation,
                                  (data, mv), dict(proportion=proportion, mute_window_samples=[7, 3, 12][iv % 3]))
                            k += 1

    # --- 3. boundary values: slew limit on k channels around proportion * nc ----------------------
    k = 0
    for nc in [1, 3, 5, 10, 100, 400]:
        for proportion in [0.2, 0.5]:
            for fs in [30_000, 2500.]:
                for v_per_sec in [1e-8, 1e-5]:
                    nk = proportion * nc
                    for nsat in sorted({int(np.floor(nk)), int(np.ceil(nk)), min(nc, int(np.ceil(nk)) + 1)}):
                        for step in _neighbours(v_per_sec * fs, np.float64):
                            data = np.zeros((nc, 30), dtype=np.float64)
                            data[:nsat, 12:] = step
                            data[:nsat, 29] = 2 * step
                            data[:nsat, 0] = -step
                            check(f"saturation/slew-boundary/{k}", ref_saturation, voltage.saturation,
                                  (data, 10.), dict(proportion=proportion, fs=fs, v_per_sec=v_per_sec))
                            k += 1

    # --- 4. odd and inadmissible inputs: same results or same exception type ---------------------
    odd = [
        (np.zeros((4, 0)), 1.),
        (np.zeros((0, 4)), 1.),
        (np.zeros((0, 0)), 1.),
        (np.zeros((4, 1)), 1.),
        (np.ones((4, 1)), 1.),
        (np.ones(2), 1.),  # 1d, two samples
        (np.ones(5), 1.),  # 1d
        (np.ones(1), 1.),
        (np.float64(3.), 1.),  # 0d
        (np.ones((2, 3, 4)), 1.),  # 3d
        (np.ones((2, 1, 4)), 1.),
        (np.ones((2, 3, 1)), 1.),
        (np.ones((2, 3, 2)), 1.),
        (np.ones((3, 6)), np.ones(3)),
        (np.ones((3, 6)), np.ones(4)),  # wrong range size
        (np.ones((3, 6)), np.ones((3, 1))),  # 2d range
        (np.ones((3, 6)), [1., 1., 1.]),
        (np.ones((3, 6)), None),
        (np.ones((3, 6)), np.nan),
        (np.full((3, 6), np.nan), 1.),
        (np.full((3, 6), np.inf), 1.),
        (np.array([[1, -1, 1, -1, np.inf, -np.inf]] * 3), 1.),
        ([[1., 2., 3.], [1., 2., 5.]], 1.),  # list of lists
        (np.ones((3, 6), dtype=bool), 1.),
        (np.ones((3, 6), dtype=np.uint8) * 200, 100),
        (np.ones((3, 6), dtype=complex), 1.),
        (np.array([["a", "b"]]), 1.),
        (None, 1.),
    ]
    for i, (data, mv) in enumerate(odd):
        check(f"saturation/odd/{i}", ref_saturation, voltage.saturation, (data, mv))
        for j, kw in enumerate([dict(mute_window_samples=0), dict(mute_window_samples=1), dict(mute_window_samples=-1),
                                dict(mute_window_samples=2.5), dict(fs=0), dict(fs=None), dict(proportion=None),
                                dict(proportion=np.array([0.2, 0.5])), dict(v_per_sec=np.nan), dict(v_per_sec="a")]):
            check(f"saturation/odd/{i}/{j}", ref_saturation, voltage.saturation, (data, mv), kw)
    # positional use of every argument
    data = rng.standard_normal((12, 50))
    check("saturation/positional", ref_saturation, voltage.saturation, (data, 1., 1e-4, 2500, 0.1, 5))
    # long array (the convolution may switch to the fft method for large sizes)
    data = rng.standard_normal((8, 70_000)).astype(np.float32)
    data[:, 3000:3400] = 2
    check("saturation/long", ref_saturation, voltage.saturation, (data, 1.), dict(mute_window_samples=701))
    check("saturation/long-default", ref_saturation, voltage.saturation, (data, 1.))


# ----------------------------------------------------------------------------------------------
# _get_max_int_from_meta and Reader.range_volts
# ----------------------------------------------------------------------------------------------
def meta_cases(rng):
    metas = [{}]
    type_this = [None, "imec", "nidq", "obx", "IMEC", 1]
    maxint = [None, 512, "512", 8192, "8192", 32768, 511.7, "abc", "8192.0", -1, 0, [1]]
    probe = [
        {},
        {"typeEnabled": "x"},
        {"imDatPrb_type": 0},
        {"imDatPrb_type": 0, "imDatPrb_port": 1, "imDatPrb_slot": 2},
        {"imDatPrb_type": 21},
        {"imDatPrb_type": 24},
        {"imDatPrb_type": 2013},
        {"imDatPrb_type": 1100},
        {"imDatPrb_type": 1030},
        {"imDatPrb_type": 9999},
        {"imDatPrb_type": "0"},
        {"imDatPrb_type": None},
    ]
    for tt in type_this:
        for mi in maxint:
            for pb in probe:
                md = dict(pb)
                if tt is not None:
                    md["typeThis"] = tt
                if mi is not None:
                    md["imMaxInt"] = mi
                metas.append(md)
    for i, md in enumerate(metas):
        check(f"maxint/{i}", ref_get_max_int_from_meta, spikeglx._get_max_int_from_meta, (md,))
        check(f"maxint-bunch/{i}", ref_get_max_int_from_meta, spikeglx._get_max_int_from_meta, (spikeglx.Bunch(md),))
        for v in ["NP2.1", "NP2.4", "3A", "3B2", "NPultra", "", 21, ["NP2"]]:
            check(f"maxint/{i}/{v}", ref_get_max_int_from_meta, spikeglx._get_max_int_from_meta, (md, v))
            check(f"maxint-kw/{i}/{v}", ref_get_max_int_from_meta, spikeglx._get_max_int_from_meta, (md,),
                  dict(neuropixel_version=v))
    for i, md in enumerate([None, 1, "imec", [("typeThis", "imec")]]):
        check(f"maxint/notadict/{i}", ref_get_max_int_from_meta, spikeglx._get_max_int_from_meta, (md,))

    # range_volts on stand-ins that provide the two attributes the property reads ...
    new_range_volts = spikeglx.Reader.range_volts.fget
    s2v = [
        np.float32(2.34e-6) * np.ones(385, dtype=np.float32),
        np.r_[np.ones(384) * 2.34375e-06, 1.0],
        np.array([], dtype=np.float32),
        np.float32(1.2),
        np.arange(9, dtype=np.float64) * 1e-5,
        rng.random(16).astype(np.float32),
        np.arange(5),
        None,
    ]
    for i, md in enumerate(metas[::7] + [None, spikeglx.Bunch()]):
        for j, s in enumerate(s2v):
            fake = types.SimpleNamespace(meta=md, sample2volts=s)
            check(f"range_volts/{i}/{j}", ref_range_volts, new_range_volts, (fake,))
    # ... on objects without those attributes
    check("range_volts/nometa", ref_range_volts, new_range_volts, (types.SimpleNamespace(),))
    check("range_volts/nos2v", ref_range_volts, new_range_volts, (types.SimpleNamespace(meta={}),))
    # ... and on real readers built from the meta-data files of the test fixtures
    import pathlib
    fixtures = pathlib.Path(__file__).parent.joinpath("src", "tests", "unit", "cpu", "fixtures")
    for meta_file in sorted(fixtures.rglob("*.meta")):
        try:
            md = spikeglx.read_meta_data(meta_file)
        except Exception:  # noqa
            continue
        check(f"maxint/fixture/{meta_file.name}", ref_get_max_int_from_meta, spikeglx._get_max_int_from_meta, (md,))
        try:
            s2v_ = spikeglx._conversion_sample2v_from_meta(md)
            typ = spikeglx._get_type_from_meta(md)
        except Exception:  # noqa
            continue
        sr = spikeglx.Reader.__new__(spikeglx.Reader)
        sr.meta, sr.channel_conversion_sample2v, sr.type = md, s2v_, typ
        check(f"range_volts/fixture/{meta_file.name}", ref_range_volts, new_range_volts, (sr,))
        check(f"range_volts/fixture-attr/{meta_file.name}", ref_range_volts, lambda r: r.range_volts, (sr,))
        sr.meta = None
        check(f"range_volts/fixture-nometa/{meta_file.name}", ref_range_volts, lambda r: r.range_volts, (sr,))


def main():
    rng = np.random.default_rng(16004)
    saturation_cases(rng)
    meta_cases(rng)
    if FAILURES:
        print(f"{len(FAILURES)} / {N_CASES} comparisons differ")
        for f in FAILURES[:40]:
            print("  " + f)
        return 1
    print(f"all {N_CASES} comparisons identical")
    return 0


if __name__ == "__main__":
    sys.exit(main())
