import sys, os; sys.path.insert(0, os.path.join(os.path.dirname(os.path.abspath(__file__)), "src"))
"""
Differential equivalence check for ibldsp.voltage.saturation (property C16).

`reference_saturation` below is a verbatim copy of the ORIGINAL implementation. The function imported from the
sources next to this file (refactored or not) is compared with it, bit for bit, on a few thousand seeded inputs:
outputs must have the same types, dtypes, shapes and values; when one raises, the other must raise the same
exception type.  Exits 0 if everything is identical, 1 with a message otherwise.
"""
import itertools
import time
import warnings

import numpy as np
import scipy.signal

import ibldsp.voltage as voltage

assert os.path.dirname(os.path.abspath(voltage.__file__)).startswith(
    os.path.join(os.path.dirname(os.path.abspath(__file__)), "src")), voltage.__file__


# ----------------------------------------------------------------------------------------------------------
# verbatim copy of the original implementation (src/ibldsp/voltage.py at HEAD)
# ----------------------------------------------------------------------------------------------------------
def reference_saturation(data, max_voltage, v_per_sec=1e-8, fs=30_000, proportion=0.2, mute_window_samples=7):
    """
    Computes
    :param data: [nc, ns]: voltage traces array
    :param max_voltage: maximum value of the voltage: scalar or array of size nc (same units as data)
    :param v_per_sec: maximum derivative of the voltage in V/s (or units/s)
    :param fs: sampling frequency Hz (defaults to 30kHz)
    :param proportion: 0 < proportion <1  of channels above threshold to consider the sample as saturated (0.2)
    :param mute_window_samples=7: number of samples for the cosine taper applied to the saturation
    :return:
        saturation [ns]: boolean array indicating the saturated samples
        mute [ns]: float array indicating the mute function to apply to the data [0-1]
    """
    # first computes the saturated samples
    max_voltage = np.atleast_1d(max_voltage)[:, np.newaxis]
    saturation = np.mean(np.abs(data) > max_voltage * 0.98, axis=0)
    # then compute the derivative of the voltage saturation
    n_diff_saturated = np.mean(np.abs(np.diff(data, axis=-1)) / fs >= v_per_sec, axis=0)
    n_diff_saturated = np.r_[n_diff_saturated, 0]
    # if either of those reaches more than the proportion of channels labels the sample as saturated
    saturation = np.logical_or(saturation > proportion, n_diff_saturated > proportion)
    # apply a cosine taper to the saturation to create a mute function
    win = scipy.signal.windows.cosine(mute_window_samples)
    mute = np.maximum(0, 1 - scipy.signal.convolve(saturation, win, mode='same'))
    return saturation, mute


# ----------------------------------------------------------------------------------------------------------
# comparison helpers
# ----------------------------------------------------------------------------------------------------------
DEFAULT_BLOCK = getattr(voltage, "_SATURATION_BLOCK_SAMPLES", 4096)
N_CASES = 0
N_FLAGGED = 0
N_RAISED = 0
FAILURES = []


def _run(fcn, args, kwargs):
    try:
        return fcn(*args, **kwargs), None
    except Exception as e:  # noqa
        return None, e


def _same(a, b):
    if type(a) is not type(b):
        return False
    if isinstance(a, np.ndarray):
        if a.dtype != b.dtype or a.shape != b.shape:
            return False
        if a.dtype.kind == "f":  # bit for bit: NaNs at the same places, and same sign of zeros
            return np.array_equal(a, b, equal_nan=True) and np.array_equal(np.signbit(a), np.signbit(b))
        return np.array_equal(a, b)
    return a == b


def check(label, data, max_voltage, block=None, **kwargs):
    """Runs the reference and the library function on copies of the same inputs and compares everything"""
    global N_CASES, N_FLAGGED, N_RAISED
    N_CASES += 1
    d0 = data.copy(order="K") if isinstance(data, np.ndarray) else data
    voltage._SATURATION_BLOCK_SAMPLES = DEFAULT_BLOCK if block is None else block
    try:
        with warnings.catch_warnings(), np.errstate(all="ignore"):
            warnings.simplefilter("ignore")
            ref, eref = _run(reference_saturation, (data, max_voltage), kwargs)
            new, enew = _run(voltage.saturation, (data, max_voltage), kwargs)
    finally:
        voltage._SATURATION_BLOCK_SAMPLES = DEFAULT_BLOCK
    label = f"{label} block={block} kwargs={kwargs}"
    if eref is not None or enew is not None:
        N_RAISED += 1
        if type(eref) is not type(enew):
            FAILURES.append(f"{label}: reference raised {eref!r}, library raised {enew!r}")
        return
    if isinstance(data, np.ndarray) and not _same(d0, data):
        FAILURES.append(f"{label}: the input array was modified")
    if not (isinstance(new, tuple) and len(new) == len(ref) == 2):
        FAILURES.append(f"{label}: output is not a 2-tuple")
        return
    for name, a, b in zip(("saturation", "mute"), ref, new):
        if not _same(a, b):
            FAILURES.append(f"{label}: {name} differs: reference {getattr(a, 'dtype', type(a))} "
                            f"{getattr(a, 'shape', None)}, library {getattr(b, 'dtype', type(b))} {getattr(b, 'shape', None)}")
    N_FLAGGED += int(np.any(ref[0]))


# ----------------------------------------------------------------------------------------------------------
# input generation
# ----------------------------------------------------------------------------------------------------------
def around(x, dtype):
    """just below / at / just above x in the given floating point type"""
    x = np.asarray(x, dtype=dtype)
    return [np.nextafter(x, dtype(-np.inf)), x, np.nextafter(x, dtype(np.inf))]


def make_case(rng, nc, ns, dtype, per_channel, proportion, fs, v_per_sec, layout):
    """
    Background noise far from both limits, then events where k channels (k just below / at / just above the proportion
    of channels) sit just below / at / just above 98 % of the range or of the slew limit; events are isolated, adjacent,
    and touch both ends of the array
    """
    dtype = np.dtype(dtype).type
    np.seterr(all="ignore")  # non finite values are part of the inputs
    if per_channel:
        rng_volts = (0.6 * (1 + 0.1 * rng.random(nc))).astype(rng.choice([np.float32, np.float64]))
    else:
        rng_volts = [0.6, np.float32(0.6), np.float64(1.2), 1][rng.integers(4)]
    thr = (np.atleast_1d(rng_volts)[:, np.newaxis] * 0.98) * np.ones((nc, 1))
    # the slow drift keeps consecutive differences well under the slew limit
    data = np.cumsum(rng.standard_normal((nc, ns)) * float(v_per_sec) * float(fs) * 1e-3, axis=1).astype(dtype)
    kc = sorted({int(np.clip(k, 0, nc)) for k in (np.floor(proportion * nc) + np.arange(-1, 3))})
    slew = float(v_per_sec) * float(fs)
    spots = [0, ns - 1, ns - 2, 1] + list(rng.integers(0, max(ns, 1), size=6)) if ns else []
    for i in spots:
        if not 0 <= i < ns:
            continue
        k = kc[rng.integers(len(kc))]
        chans = rng.permutation(nc)[:k]
        kind = rng.integers(4)
        nrun = int(rng.integers(1, 4))  # adjacent saturated samples
        sign = dtype(rng.choice([-1, 1]))
        if kind == 0:  # amplitude around 98 % of the range, the steps being much more than the slew limit
            for j in range(i, min(i + nrun, ns)):
                for c in chans:
                    data[c, j] = sign * around(thr[c, 0], dtype)[rng.integers(3)]
        elif kind == 1 and i + 1 < ns:  # a step around the slew limit on top of the drift, far from the voltage limit
            for c in chans:
                shift = sign * around(slew, dtype)[rng.integers(3)] - (data[c, i + 1] - data[c, i])
                if np.isfinite(shift):
                    data[c, i + 1:] += shift
        elif kind == 2:  # a step of just below / exactly / just above the slew limit from a flat zero baseline
            data[:, max(i - 1, 0):i + 3] = 0
            for c in chans:
                data[c, i:i + 2] = sign * around(slew, dtype)[rng.integers(3)]
        else:  # non finite values
            for c in chans:
                data[c, i] = [np.nan, np.inf, -np.inf][rng.integers(3)]
    if layout == "F":
        data = np.asfortranarray(data)
    elif layout == "T":  # transposed read as in decompress_destripe_cbin: chunk = sr[first:last, :ncv].T
        data = np.ascontiguousarray(data.T).T
    elif layout == "S":  # strided view on a larger buffer
        buf = np.zeros((nc * 2 + 1, ns * 2 + 3), dtype=dtype)
        buf[1:nc * 2 + 1:2, 2:ns * 2 + 2:2] = data
        data = buf[1:nc * 2 + 1:2, 2:ns * 2 + 2:2]
    return data, rng_volts


def main():
    t0 = time.time()
    rng = np.random.default_rng(20240516)
    ncs = [1, 2, 3, 4, 5, 6, 9, 10, 11, 16, 25, 49, 50, 51, 96, 100, 192, 384, 385, 400]
    nss = [0, 1, 2, 3, 4, 5, 6, 7, 8, 9, 13, 14, 15, 16, 17, 31, 32, 33, 63, 64, 65, 100, 127, 128, 129, 200]
    blocks = [None, 1, 2, 3, 4, 5, 7, 8, 16, 31, 32, 33, 64, 100, 128]
    fss = [30_000, 30_000., np.float64(30_000), np.float32(30_000), 2500, np.float64(2500.1)]
    props = [0.2, 0.1, 0.25, 0.5, 1 / 3, 0.05, 0.0, 0.99, 1.0]
    # 1) random sweep over the whole parameter space, with the block length forced to small values so that
    # the arrays span many blocks (block boundaries before / at / after every event) and to the default value
    for icase in range(1400):
        nc, ns = ncs[rng.integers(len(ncs))], nss[rng.integers(len(nss))]
        if nc > 100:
            ns = min(ns, 65)
        dtype = [np.float32, np.float64][rng.integers(2)]
        proportion = props[rng.integers(len(props))] if rng.random() < 0.5 else 0.2
        if rng.random() < 0.3:  # just below / exactly / just above k channels out of nc
            proportion = float(around(rng.integers(0, nc + 1) / nc, np.float64)[rng.integers(3)])
        fs = fss[rng.integers(len(fss))]
        v_per_sec = [1e-8, 1e-8, 1e-7, np.float64(2e-8), np.float32(1e-8), 1.0][rng.integers(6)]  # 1.0: no slew flag
        layout = "CFTS"[rng.integers(4)]
        data, rng_volts = make_case(rng, nc, ns, dtype, rng.random() < 0.5, proportion, fs, v_per_sec, layout)
        kwargs = dict(v_per_sec=v_per_sec, fs=fs, proportion=proportion, mute_window_samples=int(rng.integers(1, 16)))
        if rng.random() < 0.15:
            kwargs = {}  # all defaults
        for block in {None, blocks[rng.integers(len(blocks))], blocks[rng.integers(len(blocks))]}:
            check(f"sweep {icase} nc={nc} ns={ns} {np.dtype(dtype)} {layout}", data, rng_volts, block=block, **kwargs)
    # 2) arrays longer than the default block length: number of samples around the multiples of the block length
    for nc, ns, layout in itertools.product(
            [1, 3, 5, 32], [DEFAULT_BLOCK - 1, DEFAULT_BLOCK, DEFAULT_BLOCK + 1, DEFAULT_BLOCK + 2, 2 * DEFAULT_BLOCK - 1,
                            2 * DEFAULT_BLOCK, 2 * DEFAULT_BLOCK + 1, 2 * DEFAULT_BLOCK + 777], "CT"):
        for dtype in (np.float32, np.float64):
            data, rng_volts = make_case(rng, nc, ns, dtype, nc > 1, 0.2, 30_000, 1e-8, layout)
            # events on both sides of every block boundary
            for b in range(DEFAULT_BLOCK, ns, DEFAULT_BLOCK):
                for j, amp in zip((b - 2, b - 1, b, b + 1), rng.permutation([0.7, -0.7, 3.0001e-4, 0.59])):
                    if j < ns:
                        data[:, j:] += dtype(amp)
            check(f"long nc={nc} ns={ns} {np.dtype(dtype)} {layout}", data, rng_volts)
            check(f"long nc={nc} ns={ns} {np.dtype(dtype)} {layout}", data, rng_volts, fs=np.float64(30_000),
                  mute_window_samples=int(rng.integers(1, 40)))
    # 3) a chunk of the size used by the destriping, with and without saturation
    data = (rng.standard_normal((384, 3 * DEFAULT_BLOCK + 100)).astype(np.float32) + 20) * 1e-6
    data = np.ascontiguousarray(data.T).T
    check("destripe chunk, quiet", data, np.ones(384, dtype=np.float32) * 0.6, fs=np.float64(30_000))
    data[10:200, DEFAULT_BLOCK - 3:DEFAULT_BLOCK + 2] = 0.6
    data[:, -1] = -0.7
    check("destripe chunk, saturated", data, np.ones(384, dtype=np.float32) * 0.6, fs=np.float64(30_000))
    check("destripe chunk, scalar range", data, 0.6)
    # 4) other dtypes, degenerate shapes and inputs that raise: the same exception type is expected
    small = (rng.standard_normal((4, 40)) * 100).astype(np.float64)
    for block in (None, 1, 7, 39, 40, 41):
        for dtype in (np.float16, np.int16, np.int32, np.int64, np.uint8, bool, np.complex64):
            check(f"dtype {np.dtype(dtype)}", small.astype(dtype), 90, block=block, fs=1, v_per_sec=50)
        check("list input", small.tolist(), 90, block=block, fs=1, v_per_sec=50)
        check("1d input", small[0], 90, block=block)
        check("1d input ns=2", small[0, :2], 90, block=block)
        check("3d input", small[np.newaxis], 90, block=block)
        check("no channel", small[:0], 90, block=block)
        check("no channel, no range", small[:0], np.zeros(0), block=block)
        check("no sample", small[:, :0], 90, block=block)
        check("no sample, wrong range size", small[:, :0], np.ones(3), block=block)
        check("wrong range size", small, np.ones(3), block=block)
        check("range of size 1", small, np.ones(1) * 90, block=block)
        check("2d range", small, np.ones((4, 1)) * 90, block=block)
        check("range None", small, None, block=block)
        check("empty taper", small, 90, block=block, mute_window_samples=0)
        check("negative taper", small, 90, block=block, mute_window_samples=-3)
        check("taper longer than data", small, 90, block=block, mute_window_samples=41, fs=1, v_per_sec=50)
        check("taper longer than data", small[:, :5], 90, block=block, mute_window_samples=8, fs=1, v_per_sec=50)
        check("even taper", small, 90, block=block, mute_window_samples=8, fs=1, v_per_sec=50)
        check("nan proportion", small, 90, block=block, proportion=np.nan)
        check("fs zero", small, 90, block=block, fs=0)
        check("fs string", small, 90, block=block, fs="a")
        check("masked array", np.ma.masked_greater(small, 50), 90, block=block, fs=1, v_per_sec=50)
        check("memmap-like subclass", small.view(np.recarray), 90, block=block, fs=1, v_per_sec=50)
    print(f"{N_CASES} cases compared in {time.time() - t0:.1f} s: {N_FLAGGED} with saturated samples, "
          f"{N_RAISED} raising in the reference, {len(FAILURES)} differences")
    if FAILURES:
        for f in FAILURES[:20]:
            print("DIFFERENCE:", f)
        return 1
    if N_FLAGGED < 100 or N_CASES < 300:
        print("the input generation is not exercising the property enough")
        return 1
    print("OK: identical results")
    return 0


if __name__ == "__main__":
    sys.exit(main())
