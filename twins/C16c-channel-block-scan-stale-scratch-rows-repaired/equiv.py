import sys, os; sys.path.insert(0, os.path.join(os.path.dirname(os.path.abspath(__file__)), "src"))
"""
C16: a sample is flagged saturated exactly when more than `proportion` of the channels exceed 98 % of
their full-scale voltage at that sample, or more than `proportion` exceed the slew limit into the next
sample.  The mute gain lies in [0, 1], is 0 on flagged samples, 1 farther than the taper half-width from
any flagged sample.

The oracle below is the definition written with plain loops / NumPy; nothing is copied from the library.
"""
import numpy as np

from ibldsp.voltage import saturation

FS = 30_000


def oracle_flags(data, max_voltage, v_per_sec, fs, proportion):
    nc, ns = data.shape
    vmax = np.broadcast_to(np.asarray(max_voltage, dtype=float), (nc,))
    flags = np.zeros(ns, dtype=bool)
    for s in range(ns):
        n_range = sum(abs(data[c, s]) > vmax[c] * 0.98 for c in range(nc))
        n_slew = 0
        if s + 1 < ns:
            n_slew = sum(abs(data[c, s + 1] - data[c, s]) / fs >= v_per_sec for c in range(nc))
        flags[s] = (n_range / nc > proportion) or (n_slew / nc > proportion)
    return flags


def check(label, data, max_voltage, v_per_sec, proportion=0.2, width=7):
    """returns a list of human readable problems"""
    problems = []
    flags, mute = saturation(data, max_voltage, v_per_sec=v_per_sec, fs=FS, proportion=proportion,
                             mute_window_samples=width)
    flags = np.asarray(flags, dtype=bool)
    expected = oracle_flags(data, max_voltage, v_per_sec, FS, proportion)
    if not np.array_equal(flags, expected):
        bad = np.flatnonzero(flags != expected)
        problems.append(
            f"{label}: flags differ from the proportion rule at samples {bad[:8].tolist()}"
            f" (library says {flags[bad[:8]].tolist()}, definition says {expected[bad[:8]].tolist()})")
    # mute gain against the *expected* flags
    ns = data.shape[1]
    half = width // 2
    if mute.min() < 0 or mute.max() > 1:
        problems.append(f"{label}: mute gain leaves [0, 1]")
    if np.any(mute[expected] != 0):
        problems.append(f"{label}: mute gain not 0 on a saturated sample")
    idx = np.flatnonzero(expected)
    dist = np.full(ns, np.inf) if idx.size == 0 else np.min(np.abs(np.arange(ns)[:, None] - idx[None, :]), axis=1)
    far = dist > half
    if np.any(mute[far] != 1):
        bad = np.flatnonzero(far & (mute != 1))
        problems.append(f"{label}: mute gain is {mute[bad[:5]].tolist()} at samples {bad[:5].tolist()}, which are"
                        f" farther than {half} samples from any saturated sample (should be exactly 1)")
    return problems


def build(nc, ns, offenders, sample, kind, vmax=1.0):
    """
    Quiet, slowly varying traces; at `sample`, the channels listed in `offenders` either sit above 98 % of range
    (kind == 'range', approached by a slow ramp so that the slew criterion is not involved) or jump (kind == 'slew')
    """
    rng = np.random.default_rng(nc * 1000 + ns)
    data = rng.normal(0, 1e-3, (nc, ns)) * vmax
    if kind == 'range':
        bump = np.zeros(ns)
        bump[sample] = 0.985 * vmax
        data[offenders, :] += bump
    else:
        step = np.zeros(ns)
        step[sample + 1:] = 0.5 * vmax  # the jump happens from `sample` into `sample + 1`
        data[offenders, :] += step
    return data


def main():
    problems = []
    ns = 120
    n_cases = 0
    for nc in (1, 5, 37, 64, 100, 128, 200, 384, 400):
        for per_channel in (False, True):
            max_voltage = np.ones(nc) * 1.0 if per_channel else 1.0
            # number of offending channels: just below / at / just above the proportion
            k0 = int(np.floor(0.2 * nc))
            for k in sorted({max(k0 - 1, 0), k0, min(k0 + 1, nc)}):
                # offenders taken from the *end* of the first 64 channels, or from the last channels
                for where in ('head', 'tail'):
                    if where == 'head':
                        hi = min(nc, 64)
                        offenders = np.arange(hi - k, hi) if k else np.array([], dtype=int)
                    else:
                        offenders = np.arange(nc - k, nc)
                    for sample in (0, 60, ns - 1):
                        # range criterion alone (slew limit out of reach)
                        data = build(nc, ns, offenders, sample, 'range')
                        label = f"nc={nc} per_channel={per_channel} offenders={k} ({where}) sample={sample} [range]"
                        problems += check(label, data, max_voltage, v_per_sec=1e3)
                        n_cases += 1
                        # slew criterion alone (range out of reach)
                        if sample < ns - 1:
                            data = build(nc, ns, offenders, sample, 'slew')
                            label = f"nc={nc} per_channel={per_channel} offenders={k} ({where}) sample={sample} [slew]"
                            problems += check(label, data, 100.0 * np.asarray(max_voltage), v_per_sec=1e-6)
                            n_cases += 1
    if problems:
        print(f"C16 VIOLATED in {len(problems)} checks out of {n_cases} cases; first ones:")
        for p in problems[:12]:
            print("  -", p)
        return 1
    print(f"C16 holds on {n_cases} cases")
    return 0


if __name__ == "__main__":
    sys.exit(main())
