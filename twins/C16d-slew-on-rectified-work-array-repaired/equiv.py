import sys, os; sys.path.insert(0, os.path.join(os.path.dirname(os.path.abspath(__file__)), "src"))
"""
C16: saturation flags follow the proportion rule and the mute gain covers them.

Builds small voltage arrays with NumPy, evaluates the definition of the property sample by sample with plain
Python loops (the oracle) and compares with ibldsp.voltage.saturation.
Exits 0 when the property holds on every case, 1 (and says what is wrong) otherwise.
"""
import numpy as np

from ibldsp import voltage

FS = 30_000
V_PER_SEC = 1e-8
PROPORTION = 0.2
NWIN = 7


def oracle_flags(data, full_scale, v_per_sec=V_PER_SEC, fs=FS, proportion=PROPORTION):
    """Definition of the property, one sample and one channel at a time"""
    nc, ns = data.shape
    full_scale = np.broadcast_to(np.asarray(full_scale, dtype=data.dtype), (nc,))
    flags = np.zeros(ns, dtype=bool)
    for t in range(ns):
        n_rail, n_slew = 0, 0
        for c in range(nc):
            if np.abs(data[c, t]) > full_scale[c] * data.dtype.type(0.98):
                n_rail += 1
            if t + 1 < ns and np.abs(data[c, t + 1] - data[c, t]) / fs >= data.dtype.type(v_per_sec):
                n_slew += 1
        flags[t] = (n_rail / nc > proportion) or (n_slew / nc > proportion)
    return flags


def check_mute(flags, mute, nwin=NWIN):
    """:return: list of strings describing the violations of the mute part of the property"""
    errors = []
    ns = flags.size
    half = nwin // 2
    if mute.shape != flags.shape:
        return [f"mute has shape {mute.shape}, expected {flags.shape}"]
    if np.any(mute < 0) or np.any(mute > 1):
        errors.append("mute gain outside of [0, 1]")
    if np.any(mute[flags] != 0):
        errors.append(f"mute gain is not 0 on flagged samples {np.flatnonzero(flags & (mute != 0))}")
    ind = np.flatnonzero(flags)
    for t in range(ns):
        far = ind.size == 0 or np.min(np.abs(ind - t)) > half
        if far and mute[t] != 1:
            errors.append(f"mute gain is {mute[t]} at sample {t}, farther than {half} samples from any flag")
    return errors


def background(nc, ns, rng, dtype=np.float32):
    """Quiet recording: 10 uV rms noise around a 30 uV offset"""
    return ((rng.standard_normal((nc, ns)) * 10 + 30) * 1e-6).astype(dtype)


def make_cases():
    rng = np.random.default_rng(16)
    cases = []
    # (a) control: 8 out of 16 channels rail at 1.19 mV on samples 40:44, scalar range
    data = background(16, 120, rng)
    data[:8, 40:44] = 1.19e-3
    cases.append(("rail on half of the channels, scalar range", data, 1.2e-3))
    # (b) control: a fast step of the same sign on half of the channels, far from the rail, per-channel range
    data = background(16, 120, rng)
    data[:8, 60:] += 0.5e-3
    cases.append(("one-sided 500 uV step on half of the channels", data, np.full(16, 1.2e-3, dtype=np.float32)))
    # (c) a swing through zero: half of the channels go from -400 uV to +400 uV within one sample and stay
    # there. 800 uV / sample is way above the slew limit (300 uV / sample), nothing comes near the 1.2 mV range
    data = background(16, 120, rng)
    data[:8, 30:60] = -0.4e-3
    data[:8, 60:90] = 0.4e-3
    cases.append(("-400 uV to +400 uV swing on half of the channels", data, 1.2e-3))
    # (d) the same with a per-channel range, float64 data and an alternating polarity glitch at the array end
    data = background(10, 64, rng, dtype=np.float64)
    data[:5, -4:] = np.array([-0.35e-3, 0.35e-3, -0.35e-3, 0.35e-3])
    cases.append(("alternating +/- 350 uV glitch at the end of the array", data, np.linspace(1, 2, 10) * 1e-3))
    # (e) single channel recording crossing zero
    data = background(1, 50, rng)
    data[0, 20:] = -data[0, 20:] - 0.45e-3
    cases.append(("single channel, +30 uV to -480 uV", data, 1.2e-3))
    return cases


def main():
    failures = 0
    for label, data, full_scale in make_cases():
        expected = oracle_flags(data, full_scale)
        flags, mute = voltage.saturation(
            data, max_voltage=full_scale, v_per_sec=V_PER_SEC, fs=FS, proportion=PROPORTION,
            mute_window_samples=NWIN)
        flags = np.asarray(flags)
        errors = []
        if flags.shape != expected.shape or flags.dtype != bool:
            errors.append(f"flags have shape {flags.shape} and type {flags.dtype}")
        elif not np.array_equal(flags, expected):
            missed = np.flatnonzero(expected & ~flags)
            extra = np.flatnonzero(~expected & flags)
            errors.append(
                f"flags differ from the proportion rule: samples {missed.tolist()} should be flagged and are not, "
                f"samples {extra.tolist()} are flagged and should not be")
            # the mute must cover the samples that are saturated according to the definition
            uncovered = np.flatnonzero(expected & (np.asarray(mute) != 0))
            if uncovered.size:
                errors.append(f"mute gain is {np.asarray(mute)[uncovered].tolist()} on saturated samples "
                              f"{uncovered.tolist()}, expected 0")
        else:
            errors += check_mute(flags, np.asarray(mute))
        status = "FAIL" if errors else "ok"
        print(f"[{status}] {label}: {int(expected.sum())} saturated sample(s) expected, {int(flags.sum())} flagged")
        for e in errors:
            print(f"       {e}")
        failures += bool(errors)
    if failures:
        print(f"C16 violated on {failures} case(s)")
        return 1
    print("C16 holds on all cases")
    return 0


if __name__ == "__main__":
    sys.exit(main())
