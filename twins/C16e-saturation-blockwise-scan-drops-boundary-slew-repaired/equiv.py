import sys, os; sys.path.insert(0, os.path.join(os.path.dirname(os.path.abspath(__file__)), "src"))
"""
C16: a sample is flagged saturated exactly when more than `proportion` of the channels exceed 98 % of
their range at that sample, or more than `proportion` of the channels exceed the slew limit into the next
sample; the mute gain is 0 on every flagged sample.

The oracle below is written from that definition, sample by sample, with plain NumPy scalars.
The recordings are longer than 65536 samples (one destriping batch) and contain a fast voltage step
between samples 65535 and 65536, and other steps elsewhere as controls.
"""
import inspect

import numpy as np

from ibldsp import voltage

FS = 30_000
V_PER_SEC = 1e-8
PROPORTION = 0.2


def oracle_flags(data, max_voltage, v_per_sec=V_PER_SEC, fs=FS, proportion=PROPORTION):
    nc, ns = data.shape
    mv = np.broadcast_to(np.atleast_1d(max_voltage), (nc,))
    flags = np.zeros(ns, dtype=bool)
    # only look at the samples where something happens to keep the loop short
    candidates = set(np.where(np.any(np.abs(data) > 0.5 * mv.min(), axis=0))[0])
    jumps = np.where(np.any(data[:, 1:] != data[:, :-1], axis=0))[0]
    candidates.update(jumps.tolist())
    for t in sorted(candidates):
        n_amp = sum(1 for c in range(nc) if abs(data[c, t]) > mv[c] * 0.98)
        n_slew = 0
        if t + 1 < ns:
            n_slew = sum(1 for c in range(nc) if abs(data[c, t + 1] - data[c, t]) / fs >= v_per_sec)
        flags[t] = (n_amp / nc > proportion) or (n_slew / nc > proportion)
    return flags


def make(nc, ns, steps, n_step_channels):
    """Quiet recording at 10 uV with steps of 1 mV on the first channels: far below 98 % of the 1 V range,
    far above the slew limit (1e-3 / 30000 = 3.3e-8 >= 1e-8)"""
    data = np.full((nc, ns), 10e-6, dtype=np.float32)
    for t in steps:
        data[:n_step_channels, t + 1:] += np.float32(1e-3)
    return data


def check(label, data, max_voltage, **kwargs):
    errors = []
    expected = oracle_flags(data, max_voltage)
    flags, mute = voltage.saturation(data, max_voltage, v_per_sec=V_PER_SEC, fs=FS, proportion=PROPORTION, **kwargs)
    flags = np.asarray(flags).astype(bool)
    if flags.shape != expected.shape:
        return [f"{label}: flags have shape {flags.shape}, expected {expected.shape}"]
    missed = np.where(expected & ~flags)[0]
    extra = np.where(~expected & flags)[0]
    if missed.size:
        errors.append(f"{label}: samples {missed.tolist()} have more than {PROPORTION:.0%} of the channels over the "
                      f"slew limit into the next sample but are not flagged (flagged: {np.where(flags)[0].tolist()})")
    if extra.size:
        errors.append(f"{label}: samples {extra.tolist()} are flagged but do not meet the proportion rule")
    not_muted = np.where(expected & (np.abs(mute) > 1e-9))[0]
    if not_muted.size:
        errors.append(f"{label}: mute gain is {mute[not_muted].tolist()} on saturated samples {not_muted.tolist()}, "
                      f"expected 0")
    if mute.min() < 0 or mute.max() > 1:
        errors.append(f"{label}: mute gain out of [0, 1]")
    return errors


def main():
    errors = []
    has_blocks = "block_samples" in inspect.signature(voltage.saturation).parameters
    ns = 65536 + 200
    # 1) default call, 4 channels, 2 of them (50 % > 20 %) step at 1000 (control), at 65535 -> 65536, and at 65600
    data = make(4, ns, steps=[1000, 65535, 65600], n_step_channels=2)
    errors += check("default call, nc=4, scalar range", data, 1.0)
    # 2) same with per-channel ranges and 1 channel out of 4 stepping (25 % > 20 %)
    data = make(4, ns, steps=[65535], n_step_channels=1)
    errors += check("default call, nc=4, per-channel range", data, np.ones(4, dtype=np.float32))
    # 3) just at the proportion: 1 channel out of 5 is 20 %, not more than 20 %: nothing must be flagged
    data = make(5, ns, steps=[65535, 300], n_step_channels=1)
    errors += check("default call, nc=5, exactly the proportion", data, 1.0)
    # 4) single channel
    data = make(1, ns, steps=[65535], n_step_channels=1)
    errors += check("default call, nc=1", data, 1.0)
    # 5) the step is at the very end of the recording: last sample has no next sample, never flagged by slew
    data = make(3, 65536, steps=[65534], n_step_channels=3)
    errors += check("default call, ns=65536, step into the last sample", data, 1.0)
    # 6) explicit small blocks if the option exists
    if has_blocks:
        data = make(4, 1000, steps=[99, 100, 499, 998], n_step_channels=2)
        errors += check("block_samples=100, nc=4", data, 1.0, block_samples=100)
        errors += check("block_samples=None, nc=4", data, 1.0, block_samples=None)
    if errors:
        print("C16 violated: saturation flags do not follow the proportion rule")
        for e in errors:
            print("  - " + e)
        return 1
    print("C16 holds on all cases")
    return 0


if __name__ == "__main__":
    sys.exit(main())
