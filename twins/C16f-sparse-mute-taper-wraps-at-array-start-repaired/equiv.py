import sys, os; sys.path.insert(0, os.path.join(os.path.dirname(os.path.abspath(__file__)), "src"))
"""
C16: saturation flags follow the proportion rule and the mute gain covers them.

Oracle (plain NumPy, from the definition):
  flag[s]  <=>  mean_c(|v[c, s]| > 0.98 * range[c]) > proportion
                or mean_c(|v[c, s + 1] - v[c, s]| / fs >= v_per_sec) > proportion
  mute = max(0, 1 - conv(flag, cosine window)), hence mute in [0, 1], 0 on flagged samples and exactly 1
  on every sample farther than the taper half-width from any flagged sample.
"""
import numpy as np

from ibldsp import voltage

FS = 30_000
V_PER_SEC = 1e-8
VMAX = 1.2e-3


def oracle(data, vmax, proportion, nwin):
    nc, ns = data.shape
    vmax = np.broadcast_to(np.atleast_1d(vmax), (nc,))
    flags = np.zeros(ns, dtype=bool)
    for s in range(ns):
        n_amp = sum(abs(data[c, s]) > vmax[c] * 0.98 for c in range(nc))
        n_slew = 0
        if s + 1 < ns:
            n_slew = sum(abs(data[c, s + 1] - data[c, s]) / FS >= V_PER_SEC for c in range(nc))
        flags[s] = (n_amp / nc > proportion) or (n_slew / nc > proportion)
    win = np.sin(np.pi * (np.arange(nwin) + 0.5) / nwin)
    half = (nwin - 1) // 2
    mute = np.ones(ns)
    for s in range(ns):
        acc = 0.0
        for k in range(nwin):
            j = s - (k - half)
            if 0 <= j < ns and flags[j]:
                acc += win[k]
        mute[s] = max(0.0, 1 - acc)
    return flags, mute


def make(nc, ns, runs, n_sat_channels):
    """slowly varying traces (far below the slew limit) with `n_sat_channels` clipped over the sample runs"""
    rng = np.random.default_rng(nc * 1000 + ns)
    data = np.cumsum(rng.normal(0, 1e-6, (nc, ns)), axis=1)  # ~1e-6 V / sample, slew limit is 3e-4 V / sample
    data = np.clip(data, -0.5 * VMAX, 0.5 * VMAX)
    for first, last in runs:
        # ramp in / out over 12 samples so that the clipped plateau is not also a slew event
        for c in range(n_sat_channels):
            lo, hi = max(first - 12, 0), min(last + 12, ns)
            x = np.arange(lo, hi)
            ramp = np.clip(np.minimum(x - (first - 12), (last + 12) - x) / 12.0, 0, 1)
            data[c, lo:hi] = data[c, lo:hi] * (1 - ramp) + 0.99 * VMAX * ramp
            data[c, first:last] = 0.99 * VMAX
    return data


def check(name, data, vmax, proportion=0.2, nwin=7):
    problems = []
    flags, mute = voltage.saturation(data, max_voltage=vmax, v_per_sec=V_PER_SEC, fs=FS,
                                     proportion=proportion, mute_window_samples=nwin)
    flags = np.asarray(flags)
    mute = np.asarray(mute, dtype=float)
    oflags, omute = oracle(data, vmax, proportion, nwin)
    ns = data.shape[1]
    if flags.shape != (ns,) or mute.shape != (ns,):
        return [f"{name}: output shapes {flags.shape} {mute.shape}, expected ({ns},)"]
    if not np.array_equal(flags, oflags):
        problems.append(f"{name}: flags differ from the proportion rule at samples {np.flatnonzero(flags != oflags)[:10]}")
    if mute.min() < 0 or mute.max() > 1:
        problems.append(f"{name}: mute outside [0, 1]: min {mute.min()} max {mute.max()}")
    if np.any(mute[oflags] > 1e-9):
        problems.append(f"{name}: mute is not 0 on flagged samples {np.flatnonzero(oflags & (mute > 1e-9))[:10]}")
    # distance of each sample to the nearest flagged sample
    isat = np.flatnonzero(oflags)
    if isat.size:
        dist = np.min(np.abs(np.arange(ns)[:, None] - isat[None, :]), axis=1)
    else:
        dist = np.full(ns, ns + nwin)
    far = dist > nwin // 2
    bad = np.flatnonzero(far & (np.abs(mute - 1) > 1e-9))
    if bad.size:
        problems.append(
            f"{name}: mute differs from 1 farther than the taper half-width ({nwin // 2}) from any flagged sample: "
            f"flagged samples {isat[:8]}, but mute[{bad[:8]}] = {np.round(mute[bad[:8]], 4)} (ns = {ns})")
    if not np.allclose(mute, omute, atol=1e-12, rtol=0):
        i = np.flatnonzero(~np.isclose(mute, omute, atol=1e-12, rtol=0))
        problems.append(f"{name}: mute differs from 1 - conv(flags, cosine) at samples {i[:10]}: "
                        f"got {np.round(mute[i[:10]], 4)} expected {np.round(omute[i[:10]], 4)}")
    return problems


problems = []
# nothing saturated at all
problems += check("quiet", make(16, 120, [], 0), VMAX)
# isolated and adjacent runs in the middle of the array, scalar and per-channel ranges
problems += check("middle runs", make(16, 160, [(40, 44), (47, 49), (100, 101)], 5), VMAX)
problems += check("middle runs, per-channel range", make(24, 160, [(60, 66)], 7), np.full(24, VMAX))
# just below the proportion of channels: 3 / 16 <= 0.2 must not flag
problems += check("below proportion", make(16, 120, [(50, 60)], 3), VMAX)
# runs touching the end / the beginning of the array, several taper widths
problems += check("run touching the last sample", make(16, 150, [(146, 150)], 5), VMAX)
for nwin in (7, 5, 11):
    problems += check(f"run touching the first sample, window {nwin}", make(16, 150, [(0, 3)], 5), VMAX, nwin=nwin)
problems += check("run starting on the second sample", make(20, 140, [(1, 4)], 6), np.full(20, VMAX))
problems += check("single channel, run on the first sample", make(1, 100, [(0, 2)], 1), VMAX)

if problems:
    print("C16 violated:")
    for p in problems:
        print("  -", p)
    sys.exit(1)
print("C16 holds on all cases")
sys.exit(0)
