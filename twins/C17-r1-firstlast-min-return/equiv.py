"""
Differential check for refactor_1 (WindowGenerator.firstlast loop restructuring).

Loads the ORIGINAL ibldsp/utils.py from a pristine copy (git HEAD) and the refactored one from the
worktree, and compares every observable of WindowGenerator on many (ns, nswin, overlap) triples.
Prints EQUIVALENT and exits 0 when no difference is found.
"""
import importlib.util
import itertools
import os
import subprocess
import sys

import numpy as np

WT = "/tmp/wt_C17"
ORIG_DIR = "/tmp/wt_C17_tmp/orig"
ORIG_FILE = os.path.join(ORIG_DIR, "ibldsp", "utils.py")
NEW_FILE = os.path.join(WT, "src", "ibldsp", "utils.py")
MAXIT = 600  # bound on the number of windows pulled out of any generator (some triples never end)


def _load(name, path):
    spec = importlib.util.spec_from_file_location(name, path)
    mod = importlib.util.module_from_spec(spec)
    spec.loader.exec_module(mod)
    assert os.path.realpath(mod.__file__) == os.path.realpath(path), (mod.__file__, path)
    return mod


def _refresh_pristine():
    os.makedirs(os.path.dirname(ORIG_FILE), exist_ok=True)
    src = subprocess.check_output(["git", "-C", WT, "show", "HEAD:src/ibldsp/utils.py"])
    with open(ORIG_FILE, "wb") as fid:
        fid.write(src)


_refresh_pristine()
orig = _load("utils_orig", ORIG_FILE)
new = _load("utils_new", NEW_FILE)
assert orig.__file__.startswith(ORIG_DIR), orig.__file__
assert new.__file__.startswith(WT + "/src"), new.__file__


def _norm(x):
    """Turns any observable into something that compares exactly, types and dtypes included"""
    if isinstance(x, np.ndarray):
        return ("ndarray", str(x.dtype), x.shape, x.tobytes())
    if isinstance(x, (tuple, list)):
        return (type(x).__name__, tuple(_norm(i) for i in x))
    if isinstance(x, slice):
        return ("slice", _norm(x.start), _norm(x.stop), _norm(x.step))
    return (type(x).__name__, repr(x))


def _call(fcn):
    try:
        return ("ok", _norm(fcn()))
    except Exception as e:  # noqa
        return ("exc", type(e).__name__, str(e))


def _pull(wg, getter):
    """Pulls at most MAXIT items from a generator, records items, iw after each item, and the ending"""
    out = []
    try:
        gen = getter(wg)
    except Exception as e:  # noqa
        return ("exc-at-access", type(e).__name__, str(e))
    out.append(("iw-at-access", _norm(wg.iw)))
    for _ in range(MAXIT):
        try:
            item = next(gen)
        except StopIteration:
            out.append("stop")
            break
        except Exception as e:  # noqa
            out.append(("exc", type(e).__name__, str(e)))
            break
        out.append((_norm(item), _norm(wg.iw)))
    else:
        out.append("truncated")
    return out


def observe(mod, ns, nswin, overlap, sig=None):
    obs = {}
    try:
        wg = mod.WindowGenerator(ns, nswin, overlap)
    except Exception as e:  # noqa
        return {"init": ("exc", type(e).__name__, str(e))}
    obs["attrs"] = _norm((wg.ns, wg.nswin, wg.overlap, wg.nwin, wg.iw))
    obs["firstlast"] = _pull(wg, lambda w: w.firstlast)
    obs["iw_after_firstlast"] = _norm(wg.iw)
    obs["firstlast_valid"] = _pull(wg, lambda w: w.firstlast_valid)
    obs["firstlast_splicing"] = _pull(wg, lambda w: w.firstlast_splicing)
    obs["slice"] = _pull(wg, lambda w: w.slice)
    if sig is not None:
        obs["slice_array"] = _pull(wg, lambda w: w.slice_array(sig))
        obs["slice_array0"] = _pull(wg, lambda w: w.slice_array(np.c_[sig, sig], axis=0))
    if obs["firstlast"][-1] == "stop":
        obs["tscale"] = _call(lambda: wg.tscale(fs=30000))
        obs["tscale_int"] = _call(lambda: wg.tscale(3))
    obs["attrs_end"] = _norm((wg.ns, wg.nswin, wg.overlap, wg.nwin, wg.iw))
    return obs


def observe_interleaved(mod, ns, nswin, overlap):
    """Two generators alive at the same time and attributes mutated between two yields"""
    wg = mod.WindowGenerator(ns, nswin, overlap)
    out = []
    g1, g2, g3 = wg.firstlast, wg.firstlast_valid, wg.firstlast_splicing
    for k in range(12):
        for g in (g1, g2, g3):
            try:
                out.append((_norm(next(g)), _norm(wg.iw)))
            except StopIteration:
                out.append(("stop", _norm(wg.iw)))
            except Exception as e:  # noqa
                out.append(("exc", type(e).__name__, str(e)))
        if k == 2:
            wg.overlap += 2
        if k == 4:
            wg.nswin += 3
        if k == 6:
            wg.ns -= 1
        if k == 8:
            wg.iw = 40
    return out


def check(ns, nswin, overlap, sig=None):
    a = observe(orig, ns, nswin, overlap, sig)
    b = observe(new, ns, nswin, overlap, sig)
    if a != b:
        for k in a:
            if a.get(k) != b.get(k):
                print("DIFFERENT", (ns, nswin, overlap), k, "\n  orig:", a.get(k), "\n  new: ", b.get(k))
        sys.exit(1)


def main():
    n = 0
    rng = np.random.default_rng(17)
    # exhaustive small box, every overlap including the degenerate / inadmissible ones
    for ns in range(0, 70):
        for nswin in range(1, 20):
            for overlap in range(0, nswin + 2):
                check(ns, nswin, overlap, sig=np.arange(ns) * 1.5 if ns % 7 == 0 else None)
                n += 1
    # sparser box up to the bounds of the property
    for ns in list(range(70, 401, 11)) + [399, 400]:
        for nswin in [1, 2, 3, 7, 16, 31, 32, 33, 63, 64]:
            for overlap in range(0, nswin):
                check(ns, nswin, overlap)
                n += 1
    # random large triples, short last window, zero overlap
    for _ in range(300):
        nswin = int(rng.integers(2, 5000))
        overlap = int(rng.integers(0, nswin))
        ns = int(rng.integers(1, 300 * (nswin - overlap) + nswin))
        check(ns, nswin, overlap)
        check(ns, nswin, 0)
        # last window of length 1 .. overlap
        k = int(rng.integers(1, 50))
        check(nswin + k * (nswin - overlap) + int(rng.integers(1, overlap + 2)), nswin, overlap)
        n += 3
    # the triples of the test-suite
    for t in [(500, 100, 20), (500, 100, 10), (500, 100, 0), (1000, 111, 24), (923, 64, 32), (600, 100, 20)]:
        check(*t, sig=rng.normal(size=t[0]))
        n += 1
    # exotic argument types
    exotic = [
        (np.int64(300), np.int32(64), np.int16(16)), (300.0, 64.0, 16.0), (300.7, 64.2, 16.9),
        (np.float32(257.5), 33, 4), ("300", "64", "16"), (300, "64", 16), (None, 4, 2), (100, 10, None),
        (True, True, False), (-5, 4, 2), (100, -4, 2), (100, 10, -2), (100, 10, 10), (100.0, 10.0, 10.0),
        (np.int64(100), np.int64(10), np.int64(10)), (np.float64(100), np.float64(10), np.float64(10)),
        (np.uint8(200), np.uint8(100), np.uint8(120)), (np.array(100), np.array(10), np.array(4)),
        (np.array([100]), np.array([10]), np.array([4])), (float("inf"), 4, 2), (float("nan"), 4, 2),
        (10 ** 20, 10 ** 19, 3), (0, 0, 0), (0, 1, 0), (1, 1, 0), (5, 100, 50), (5, 100, 99),
    ]
    for t in exotic:
        with np.errstate(all="ignore"):
            check(*t)
        n += 1
    # interleaved generators + attribute mutation during the iteration
    for t in [(500, 100, 20), (237, 31, 8), (64, 64, 0), (65, 64, 62), (400, 16, 14), (90, 30, 10)]:
        a, b = observe_interleaved(orig, *t), observe_interleaved(new, *t)
        if a != b:
            print("DIFFERENT (interleaved)", t)
            sys.exit(1)
        n += 1
    # the class surface is unchanged
    import inspect
    pub = lambda m: sorted(k for k in vars(m.WindowGenerator) if not k.startswith("_"))  # noqa
    assert pub(orig) == pub(new), (pub(orig), pub(new))
    assert str(inspect.signature(orig.WindowGenerator.__init__)) == str(inspect.signature(new.WindowGenerator.__init__))
    for k in ("firstlast", "firstlast_valid", "firstlast_splicing", "slice"):
        assert isinstance(vars(new.WindowGenerator)[k], property)
        assert str(inspect.signature(vars(orig.WindowGenerator)[k].fget)) == \
            str(inspect.signature(vars(new.WindowGenerator)[k].fget))
    print(f"{n} cases compared, orig={orig.__file__}, new={new.__file__}")
    print("EQUIVALENT")


if __name__ == "__main__":
    main()
