import sys, os; sys.path.insert(0, os.path.join(os.path.dirname(os.path.abspath(__file__)), "src"))  # noqa
"""
Differential equivalence check for the WindowGenerator clean-up (property C17).

The reference class below carries a verbatim copy of the ORIGINAL implementation of every function
that was changed (WindowGenerator.__init__, firstlast, firstlast_valid, firstlast_splicing); the
remaining methods are copied as well so that the derived generators (slice, slice_array, tscale)
run on top of the reference `firstlast`.  The script exits 0 if the library and the reference agree
exactly on every generated input, 1 with a message otherwise.
"""
import itertools
import warnings

import numpy as np
import scipy
import scipy.signal

import ibldsp.utils
from ibldsp.utils import WindowGenerator


# ----------------------------------------------------------------------------------------------
# verbatim copy of the original implementation
# ----------------------------------------------------------------------------------------------
class RefWindowGenerator(object):
    """
    `wg = WindowGenerator(ns, nswin, overlap)`

    Provide sliding windows indices generator for signal processing applications.
    For straightforward spectrogram / periodogram implementation, prefer scipy methods !

    Example of implementations in test_dsp.py.
    """

    def __init__(self, ns, nswin, overlap):
        """
        :param ns: number of sample of the signal along the direction to be windowed
        :param nswin: number of samples of the window
        :return: dsp.WindowGenerator object:
        """
        self.ns = int(ns)
        self.nswin = int(nswin)
        self.overlap = int(overlap)
        self.nwin = max(int(np.ceil(float(ns - nswin) / float(nswin - overlap))), 0) + 1
        self.iw = None

    @property
    def firstlast_splicing(self):
        """
        Generator that yields the indices as well as an amplitude function that can be used
        to splice the windows together.
        In the overlap, the amplitude function gradually transitions the amplitude from one window
        to the next. The amplitudes always sum to one (ie. windows are symmetrical)

        :return: tuple of (first_index, last_index, amplitude_vector]
        """
        w = scipy.signal.windows.hann((self.overlap + 1) * 2 + 1, sym=True)[1:self.overlap + 1]
        assert np.all(np.isclose(w + np.flipud(w), 1))

        for first, last in self.firstlast:
            amp = np.ones(last - first)
            if first > 0:
                amp[:self.overlap] = w
            if last < self.ns:
                amp[last - first - self.overlap:] = np.flipud(w)
            yield (first, last, amp)

    @property
    def firstlast_valid(self):
        """
        Generator that yields a tuple of first, last, first_valid, last_valid index of windows
        The valid indices span up to half of the overlap
        :return:
        """
        assert self.overlap % 2 == 0, "Overlap must be even"
        for first, last in self.firstlast:
            first_valid = 0 if first == 0 else first + self.overlap // 2
            last_valid = last if last == self.ns else last - self.overlap // 2
            yield (first, last, first_valid, last_valid)

    @property
    def firstlast(self, return_valid=False):
        """
        Generator that yields first and last index of windows

        :return: tuple of [first_index, last_index] of the window
        """
        self.iw = 0
        first = 0
        while True:
            last = first + self.nswin
            last = min(last, self.ns)
            yield (first, last)
            if last == self.ns:
                break
            first += self.nswin - self.overlap
            self.iw += 1

    @property
    def slice(self):
        """
        Generator that yields slices of windows

        :return: a slice of the window
        """
        for first, last in self.firstlast:
            yield slice(first, last)

    def slice_array(self, sig, axis=-1):
        """
        Provided an array or sliceable object, generator that yields
        slices corresponding to windows. Especially useful when working on memmpaps

        :param sig: array
        :param axis: (optional, -1) dimension along which to provide the slice
        :return: array slice Generator
        """
        for first, last in self.firstlast:
            yield np.take(sig, np.arange(first, last), axis=axis)

    def tscale(self, fs):
        """
        Returns the time scale associated with Window slicing (middle of window)
        :param fs: sampling frequency (Hz)
        :return: time axis scale
        """
        return np.array(
            [(first + (last - first - 1) / 2) / fs for first, last in self.firstlast]
        )


# ----------------------------------------------------------------------------------------------
# exact comparison helpers
# ----------------------------------------------------------------------------------------------
CAP = 40  # maximum number of windows drawn from generators that may never terminate
STATE = ("ns", "nswin", "overlap", "nwin", "iw")


class Mismatch(Exception):
    pass


def same(a, b):
    """Exact, type-aware equality of two results"""
    if type(a) is not type(b):
        return False
    if isinstance(a, np.ndarray):
        return a.dtype == b.dtype and a.shape == b.shape and np.array_equal(a, b, equal_nan=True)
    if isinstance(a, (tuple, list)):
        return len(a) == len(b) and all(same(x, y) for x, y in zip(a, b))
    if isinstance(a, dict):
        return a.keys() == b.keys() and all(same(a[k], b[k]) for k in a)
    if isinstance(a, float) and a != a:
        return b != b
    return a == b


def state(wg):
    return {k: getattr(wg, k) for k in STATE}


def build(cls, args):
    """Returns (object or None, exception type or None, exception arguments)"""
    try:
        with warnings.catch_warnings():
            warnings.simplefilter("ignore")
            return cls(*args), None, None
    except Exception as e:  # noqa
        return None, type(e), e.args


def drain(wg, make, cap=CAP):
    """
    Draws at most `cap` items of the generator returned by make(wg), recording the object state after
    every step, and how the generator ended: "exhausted", "capped" or the exception type and arguments
    """
    trace = []
    try:
        with warnings.catch_warnings():
            warnings.simplefilter("ignore")
            gen = make(wg)
            for item in itertools.islice(gen, cap):
                trace.append((item, state(wg)))
            ending = "exhausted" if len(trace) < cap else "capped"
    except Exception as e:  # noqa
        ending = (type(e), e.args)
    return trace, ending, state(wg)


def call(wg, make):
    try:
        with warnings.catch_warnings():
            warnings.simplefilter("ignore")
            return ("ok", make(wg), state(wg))
    except Exception as e:  # noqa
        return ("raised", type(e), e.args, state(wg))


GENERATORS = {
    "firstlast": lambda wg: wg.firstlast,
    "firstlast_valid": lambda wg: wg.firstlast_valid,
    "firstlast_splicing": lambda wg: wg.firstlast_splicing,
    "slice": lambda wg: wg.slice,
    "slice_array": lambda wg: wg.slice_array(np.arange(max(wg.ns, 0) * 2).reshape(2, -1)),
    "slice_array_axis0": lambda wg: wg.slice_array(np.arange(max(wg.ns, 0), dtype=np.float32), axis=0),
}


def terminates(args):
    """True if the window generator is known to reach the end of the signal"""
    try:
        with warnings.catch_warnings():
            warnings.simplefilter("ignore")
            ns, nswin, overlap = (int(a) for a in args)
    except Exception:  # noqa
        return False
    return ns <= nswin or nswin - overlap > 0


def check(args):
    ref, ref_exc, ref_args = build(RefWindowGenerator, args)
    new, new_exc, new_args = build(WindowGenerator, args)
    if ref_exc is not new_exc or not same(ref_args, new_args):
        raise Mismatch(f"constructor{args}: {ref_exc}{ref_args} != {new_exc}{new_args}")
    if ref is None:
        return "raised"
    if not same(state(ref), state(new)):
        raise Mismatch(f"constructor{args}: {state(ref)} != {state(new)}")
    cap = max(ref.nwin + 3, CAP) if terminates(args) and ref.nwin < 5000 else CAP
    for name, make in GENERATORS.items():
        a = drain(RefWindowGenerator(*args), make, cap)
        b = drain(WindowGenerator(*args), make, cap)
        if not same(a, b):
            raise Mismatch(f"{name}{args}: results differ\n ref={a[1:]}\n new={b[1:]}")
    # generators interleaved on a single object: the shared counter `iw` must evolve identically
    ra, rb = RefWindowGenerator(*args), WindowGenerator(*args)
    for wg, out in ((ra, []), (rb, [])):
        g1, g2 = wg.firstlast, wg.firstlast_splicing
        for _ in range(6):
            for g in (g1, g2):
                try:
                    out.append((next(g), state(wg)))
                except Exception as e:  # noqa
                    out.append((type(e), e.args, state(wg)))
        wg._trace = out
    if not same(ra._trace, rb._trace):
        raise Mismatch(f"interleaved{args}: results differ")
    # attributes modified between two windows are read again at every step
    ra, rb = RefWindowGenerator(*args), WindowGenerator(*args)
    for wg in (ra, rb):
        out = []
        for make in (GENERATORS["firstlast"], GENERATORS["firstlast_valid"], GENERATORS["firstlast_splicing"]):
            try:
                with warnings.catch_warnings():
                    warnings.simplefilter("ignore")
                    wg.ns, wg.nswin, wg.overlap = (int(a) for a in args)
                    g = make(wg)
                    out.append(next(g))
                    wg.overlap += 2
                    out.append(next(g))
                    wg.nswin += 3
                    out.append(next(g))
                    wg.ns += 1
                    out.extend(itertools.islice(g, 5))
            except Exception as e:  # noqa
                out.append((type(e), e.args))
            out.append(state(wg))
        wg._trace = out
    if not same(ra._trace, rb._trace):
        raise Mismatch(f"mutated{args}: results differ")
    if terminates(args) and ref.nwin < 5000:
        for fs in (1, 30000., np.float32(2500)):
            a = call(RefWindowGenerator(*args), lambda wg: wg.tscale(fs))
            b = call(WindowGenerator(*args), lambda wg: wg.tscale(fs))
            if not same(a, b):
                raise Mismatch(f"tscale{args}: results differ")
    return "ok"


def inputs():
    rng = np.random.default_rng(20240917)
    # exhaustive small box, every admissible overlap (and the inadmissible overlap == nswin, > nswin)
    for ns in list(range(0, 41)) + [63, 64, 65, 127, 128, 129, 200, 399, 400]:
        for nswin in (1, 2, 3, 4, 5, 7, 8, 16, 31, 32, 64):
            for overlap in range(0, nswin + 2):
                if ns > 41 and overlap not in (0, 1, 2, nswin // 2, nswin // 2 + 1, nswin - 1, nswin, nswin + 1):
                    continue
                yield (ns, nswin, overlap)
    # random admissible triples
    for _ in range(400):
        nswin = int(rng.integers(1, 65))
        yield (int(rng.integers(0, 401)), nswin, int(rng.integers(0, nswin)))
    # random large triples
    for _ in range(150):
        nswin = int(rng.integers(2, 5000))
        overlap = int(rng.integers(0, nswin))
        ns = int(rng.integers(1, 400) * (nswin - overlap) + rng.integers(0, nswin))
        yield (ns, nswin, overlap)
    for _ in range(50):  # even overlaps up to half a window, signal multiple of the stride or not
        nswin = int(rng.integers(2, 3000)) * 2
        overlap = int(rng.integers(0, nswin // 4 + 1)) * 2
        ns = int(rng.integers(1, 200)) * (nswin - overlap) + int(rng.choice([0, overlap, 1, nswin - 1]))
        yield (ns, nswin, overlap)
    # edge cases: degenerate sizes, negative values, non integer and non numeric arguments
    yield from [
        (0, 1, 0), (1, 1, 0), (1, 5, 0), (5, 5, 0), (5, 5, 4), (6, 5, 4), (0, 0, 0), (10, 0, 0), (10, 0, -1),
        (-1, 4, 2), (-7, 4, 0), (10, 4, -1), (10, 4, -2), (10, 4, -3), (10, -4, -6), (10, -4, 2), (0, 4, 4),
        (3, 4, 4), (4, 4, 4), (5, 4, 4), (5, 4, 6), (100, 10, 9), (101, 10, 9), (100, 10, 10), (100, 10, 11),
        (100.0, 10.0, 2.0), (100.7, 10.2, 2.9), (100.5, 10, 2), (99.2, 10.9, 1.5), (1e3, 1e2, 1e1),
        (np.int64(100), np.int64(16), np.int64(4)), (np.int16(300), np.int16(64), np.int16(32)),
        (np.uint8(200), np.uint8(100), np.uint8(20)), (np.uint8(20), np.uint8(100), np.uint8(20)),
        (np.int8(100), np.int8(100), np.int8(-100)), (np.float32(100), np.float32(16), np.float32(4)),
        (np.float64(100), np.float64(16), np.float64(16)), (np.float64(10), np.float64(16), np.float64(16)),
        (np.array(100), np.array(16), np.array(4)), (np.array([100]), np.array([16]), np.array([4])),
        (np.array([100, 2]), 16, 4), (True, True, False), (100, True, False),
        ("100", "16", "4"), ("a", 16, 4), (100, "b", 4), (100, 16, "c"), (None, 16, 4), (100, None, 4),
        (100, 16, None), (100, 16, 4j), ([100], 16, 4), (float("nan"), 16, 4), (100, float("nan"), 4),
        (100, 16, float("nan")), (float("inf"), 16, 4), (100, float("inf"), 4), (100, 16, float("inf")),
        (100, 16, -float("inf")), (2 ** 70, 2 ** 69, 2 ** 68), (10 ** 400, 10 ** 399, 0), (2 ** 62, 2 ** 61, 2 ** 60),
    ]


def main():
    # overflow / deprecation warnings of the exotic edge cases are emitted identically by both sides
    warnings.simplefilter("ignore")
    counts = {"ok": 0, "raised": 0}
    try:
        for args in inputs():
            counts[check(args)] += 1
        # the helpers and the class keep their public shape
        if WindowGenerator.__bases__ != RefWindowGenerator.__bases__:
            raise Mismatch("base classes differ")
        for name in ("firstlast", "firstlast_valid", "firstlast_splicing", "slice"):
            if not isinstance(getattr(WindowGenerator, name), property):
                raise Mismatch(f"{name} is no longer a property")
        wa, wb = RefWindowGenerator(100, 16, 4), WindowGenerator(100, 16, 4)
        for arg in (True, False):  # the unused argument of the property getter is still accepted
            a = list(RefWindowGenerator.firstlast.fget(wa, arg)), list(RefWindowGenerator.firstlast.fget(wa, return_valid=arg))
            b = list(WindowGenerator.firstlast.fget(wb, arg)), list(WindowGenerator.firstlast.fget(wb, return_valid=arg))
            if not same(a, b):
                raise Mismatch("firstlast.fget differs")
        if sorted(vars(wa)) != sorted(k for k in vars(wb)):
            raise Mismatch(f"instance attributes differ: {sorted(vars(wa))} != {sorted(vars(wb))}")
    except Mismatch as e:
        print(f"MISMATCH: {e}")
        return 1
    print(f"{counts['ok']} inputs compared exactly over all generators, {counts['raised']} inputs raising the same "
          f"exception in the constructor; library: {ibldsp.utils.__file__}")
    return 0


if __name__ == "__main__":
    sys.exit(main())
