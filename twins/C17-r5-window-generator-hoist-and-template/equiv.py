import sys, os; sys.path.insert(0, os.path.join(os.path.dirname(os.path.abspath(__file__)), "src"))
"""
Differential equivalence check for ibldsp.utils.WindowGenerator (property C17).

The class RefWindowGenerator below carries a verbatim copy of the ORIGINAL implementation of the four
members touched by the performance clean-up (__init__, firstlast_splicing, firstlast_valid, firstlast) and
of the untouched members that are built on them (slice, slice_array, tscale).  Every input is run through
the reference and through the class imported from the sources next to this file, and everything that can be
observed is compared exactly: yielded tuples (values and types), amplitude vectors (values, dtype, shape,
flags, no aliasing between windows), the attributes of the object, the running window counter `iw` at each
yield and after exhaustion, and the type of the exception when one is raised.

Exit status 0 if everything is identical, 1 with a message otherwise.
"""
import itertools
import time

import numpy as np
import scipy
import scipy.signal

import ibldsp.utils

MAXWIN = 3000  # safety cap on the number of windows drawn from any generator


# ------------------------------------------------------------------------------------------------
# reference: verbatim copy of the original implementation
# ------------------------------------------------------------------------------------------------
class RefWindowGenerator(object):
    """
    `wg = WindowGenerator(ns, nswin, overlap)`

    Provide sliding windows indices generator for signal processing applications.
    For straightforward spectrogram / periodogram implementation, prefer scipy methods !

    Example of implementations in test_dsp.py.
    """

    def __init__(self, ns, nswin, overlap):
        """
        :param ns: number of sample of the signal along the direction to be windowed
        :param nswin: number of samples of the window
        :return: dsp.WindowGenerator object:
        """
        self.ns = int(ns)
        self.nswin = int(nswin)
        self.overlap = int(overlap)
        self.nwin = max(int(np.ceil(float(ns - nswin) / float(nswin - overlap))), 0) + 1
        self.iw = None

    @property
    def firstlast_splicing(self):
        """
        Generator that yields the indices as well as an amplitude function that can be used
        to splice the windows together.
        In the overlap, the amplitude function gradually transitions the amplitude from one window
        to the next. The amplitudes always sum to one (ie. windows are symmetrical)

        :return: tuple of (first_index, last_index, amplitude_vector]
        """
        w = scipy.signal.windows.hann((self.overlap + 1) * 2 + 1, sym=True)[1:self.overlap + 1]
        assert np.all(np.isclose(w + np.flipud(w), 1))

        for first, last in self.firstlast:
            amp = np.ones(last - first)
            if first > 0:
                amp[:self.overlap] = w
            if last < self.ns:
                amp[last - first - self.overlap:] = np.flipud(w)
            yield (first, last, amp)

    @property
    def firstlast_valid(self):
        """
        Generator that yields a tuple of first, last, first_valid, last_valid index of windows
        The valid indices span up to half of the overlap
        :return:
        """
        assert self.overlap % 2 == 0, "Overlap must be even"
        for first, last in self.firstlast:
            first_valid = 0 if first == 0 else first + self.overlap // 2
            last_valid = last if last == self.ns else last - self.overlap // 2
            yield (first, last, first_valid, last_valid)

    @property
    def firstlast(self, return_valid=False):
        """
        Generator that yields first and last index of windows

        :return: tuple of [first_index, last_index] of the window
        """
        self.iw = 0
        first = 0
        while True:
            last = first + self.nswin
            last = min(last, self.ns)
            yield (first, last)
            if last == self.ns:
                break
            first += self.nswin - self.overlap
            self.iw += 1

    @property
    def slice(self):
        """
        Generator that yields slices of windows

        :return: a slice of the window
        """
        for first, last in self.firstlast:
            yield slice(first, last)

    def slice_array(self, sig, axis=-1):
        """
        Provided an array or sliceable object, generator that yields
        slices corresponding to windows. Especially useful when working on memmpaps

        :param sig: array
        :param axis: (optional, -1) dimension along which to provide the slice
        :return: array slice Generator
        """
        for first, last in self.firstlast:
            yield np.take(sig, np.arange(first, last), axis=axis)

    def tscale(self, fs):
        """
        Returns the time scale associated with Window slicing (middle of window)
        :param fs: sampling frequency (Hz)
        :return: time axis scale
        """
        return np.array(
            [(first + (last - first - 1) / 2) / fs for first, last in self.firstlast]
        )


# ------------------------------------------------------------------------------------------------
# exact comparison helpers
# ------------------------------------------------------------------------------------------------
class Mismatch(Exception):
    pass


def same(a, b, where):
    """Exact recursive comparison: types, values, dtypes, shapes, array flags"""
    if type(a) is not type(b):
        raise Mismatch(f"{where}: type {type(a).__name__} != {type(b).__name__} ({a!r} vs {b!r})")
    if isinstance(a, np.ndarray):
        if a.dtype != b.dtype or a.shape != b.shape:
            raise Mismatch(f"{where}: dtype/shape {a.dtype}{a.shape} != {b.dtype}{b.shape}")
        if not np.array_equal(a, b):
            raise Mismatch(f"{where}: array values differ")
        if a.tobytes() != b.tobytes():
            raise Mismatch(f"{where}: array bytes differ")
        fa, fb = a.flags, b.flags
        for flag in ("c_contiguous", "f_contiguous", "owndata", "writeable", "aligned"):
            if getattr(fa, flag) != getattr(fb, flag):
                raise Mismatch(f"{where}: array flag {flag} differs")
    elif isinstance(a, (tuple, list)):
        if len(a) != len(b):
            raise Mismatch(f"{where}: length {len(a)} != {len(b)}")
        for i, (x, y) in enumerate(zip(a, b)):
            same(x, y, f"{where}[{i}]")
    elif isinstance(a, dict):
        if list(a.keys()) != list(b.keys()):
            raise Mismatch(f"{where}: keys {list(a)} != {list(b)}")
        for k in a:
            same(a[k], b[k], f"{where}[{k!r}]")
    elif isinstance(a, slice):
        same((a.start, a.stop, a.step), (b.start, b.stop, b.step), where + ".slice")
    elif isinstance(a, float):
        if not (a == b or (a != a and b != b)) or np.signbit(a) != np.signbit(b):
            raise Mismatch(f"{where}: {a!r} != {b!r}")
    else:
        if a != b:
            raise Mismatch(f"{where}: {a!r} != {b!r}")


def outcome(fcn):
    """Runs fcn and returns ('ok', result) or ('exc', exception type name)"""
    try:
        return ("ok", fcn())
    except BaseException as e:  # noqa
        if isinstance(e, (KeyboardInterrupt, SystemExit, MemoryError)):
            raise
        return ("exc", type(e).__name__)


def drain(wg, name, nmax=MAXWIN):
    """
    Draws up to nmax items from the generator property `name`; records the items, the value of the
    window counter at each yield, the exception raised in the middle if any, the final counter and the
    final attributes of the object
    """
    items, iws, exc = [], [], None
    try:
        for item in itertools.islice(getattr(wg, name), nmax):
            items.append(item)
            iws.append(wg.iw)
    except Exception as e:
        exc = type(e).__name__
    return {"items": items, "iws": iws, "exc": exc, "attrs": dict(vars(wg))}


def check_no_alias(items, where):
    """the amplitude vectors have to be independent arrays: writing in one must not change any other"""
    amps = [it[2] for it in items]
    for i in range(len(amps)):
        for j in range(i + 1, min(i + 4, len(amps))):
            if amps[i].size and amps[j].size and np.shares_memory(amps[i], amps[j]):
                raise Mismatch(f"{where}: amplitude vectors {i} and {j} share memory")


NCASES = 0


def compare_triple(ns, nswin, overlap, heavy=True, label=""):
    """Compares everything observable for one constructor triple"""
    global NCASES
    NCASES += 1
    where = f"{label}(ns={ns!r}, nswin={nswin!r}, overlap={overlap!r})"
    ref = outcome(lambda: RefWindowGenerator(ns, nswin, overlap))
    new = outcome(lambda: ibldsp.utils.WindowGenerator(ns, nswin, overlap))
    if ref[0] == "exc" or new[0] == "exc":
        same(ref, new, where + " constructor")
        return
    ref, new = ref[1], new[1]
    same(dict(vars(ref)), dict(vars(new)), where + " attributes")
    # guard: the generators do not terminate when the stride is not positive and the signal is longer
    # than the window; those are outside of the domain, the cap MAXWIN still bounds the comparison
    for name in ("firstlast", "firstlast_valid", "slice"):
        same(drain(ref, name), drain(new, name), f"{where}.{name}")
    if heavy:
        a, b = drain(ref, "firstlast_splicing"), drain(new, "firstlast_splicing")
        same(a, b, f"{where}.firstlast_splicing")
        check_no_alias(b["items"], f"{where}.firstlast_splicing")
        # writing into a yielded vector must not leak in what is produced afterwards
        if len(b["items"]) > 2 and b["items"][1][2].size:
            g = new.firstlast_splicing
            next(g)
            x = next(g)
            x[2][:] = -7.0
            rest = list(itertools.islice(g, MAXWIN))
            same([it for it in a["items"][2:]], rest, f"{where}.firstlast_splicing after write")
    # dependants: time scale and array slices (tscale exhausts the generator: only when it terminates)
    terminates = (ref.nswin - ref.overlap) > 0 or ref.ns <= ref.nswin
    for fs in (1, 30000.0, 2500) if terminates else ():
        same(outcome(lambda: ref.tscale(fs)), outcome(lambda: new.tscale(fs)), f"{where}.tscale({fs})")
    if heavy and 0 <= ref.ns <= 5000:
        sig = np.arange(ref.ns * 2, dtype=np.int32).reshape(2, ref.ns)
        same(outcome(lambda: list(itertools.islice(ref.slice_array(sig), MAXWIN))),
             outcome(lambda: list(itertools.islice(new.slice_array(sig), MAXWIN))), f"{where}.slice_array")
    # partial consumption, restart, and two generators alive on the same object
    def scenario(wg):
        trace = []
        g1 = wg.firstlast
        trace.append(("new", wg.iw))
        for _ in range(2):
            trace.append((next(g1, None), wg.iw))
        g2 = wg.firstlast_valid if wg.overlap % 2 == 0 else wg.firstlast
        for _ in range(2):
            trace.append((next(g2, None), wg.iw))
        trace.append((next(g1, None), wg.iw))
        trace.append((next(g2, None), wg.iw))
        g1.close()
        trace.append(("closed", wg.iw))
        trace.append((next(g2, None), wg.iw))
        trace.append((list(itertools.islice(wg.firstlast, 5)), wg.iw))
        return trace
    same(outcome(lambda: scenario(ref)), outcome(lambda: scenario(new)), f"{where} interleaving scenario")


def main():
    t0 = time.time()
    rng = np.random.default_rng(20241017)
    # 1) exhaustive box of small admissible triples: lengths 0..70, windows 1..18, every overlap < window
    for ns in range(0, 71):
        for nswin in range(1, 19):
            for overlap in range(0, nswin):
                compare_triple(ns, nswin, overlap, heavy=(ns % 3 == 0 or ns in (1, 2, 70)), label="box")
    # 2) a sparser, larger box (lengths to 400, windows to 64)
    for ns in (97, 128, 129, 255, 256, 257, 399, 400):
        for nswin in (1, 2, 3, 7, 16, 31, 32, 33, 63, 64):
            for overlap in sorted({0, 1, 2, nswin // 2 - 1, nswin // 2, nswin // 2 + 1, nswin - 2, nswin - 1}):
                if 0 <= overlap < nswin:
                    compare_triple(ns, nswin, overlap, label="box2")
    # 3) random large triples, bounded number of windows, including exact multiples and short last windows
    for i in range(400):
        nswin = int(rng.integers(2, 8192))
        overlap = int(rng.integers(0, nswin)) if i % 4 else int(rng.integers(0, nswin // 2 + 1)) // 2 * 2
        step = nswin - overlap
        nw = int(rng.integers(1, 40))
        kind = i % 5
        if kind == 0:
            ns = nswin + (nw - 1) * step  # last window exactly full
        elif kind == 1:
            ns = nswin + (nw - 1) * step + 1  # last window as short as can be
        elif kind == 2:
            ns = max(nswin + (nw - 1) * step - 1, 0)
        elif kind == 3:
            ns = int(rng.integers(0, nswin + 1))  # signal not longer than the window
        else:
            ns = int(rng.integers(nswin, nswin + nw * step + 1))
        compare_triple(ns, nswin, overlap, heavy=(i % 2 == 0), label="rand")
    # 4) very long signals, index generators only (realistic destriping sizes)
    for ns, nswin, overlap in ((30000 * 3600, 65536, 1024), (2 ** 31 + 12345, 2 ** 20, 2 ** 10),
                               (10 ** 12 + 7, 10 ** 9, 10 ** 6), (65536 * 50, 65536, 0)):
        compare_triple(ns, nswin, overlap, heavy=False, label="long")
    # 5) the types of the arguments: numpy integers, floats, bools, strings, None
    for ns, nswin, overlap in (
        (np.int64(1000), np.int32(64), np.int16(16)), (np.uint16(1000), 64, 16), (np.uint8(200), np.uint8(64), np.uint8(8)),
        (1000.0, 64.0, 16.0), (1000.7, 64, 16), (1000, 64.5, 16), (1000, 64, 16.9), (100.5, 10.5, 2.5),
        (np.float32(999.5), 64, 16), (np.array(1000), 64, 16), (True, True, False),
        ("1000", 64, 16), (1000, "64", 16), (None, 64, 16), (1000, 64, None), (1000, None, 16),
        (float("nan"), 64, 16), (float("inf"), 64, 16), (1000, float("inf"), 16), (1000, 64, float("-inf")),
        (1000, 64, float("nan")), (10 ** 400, 64, 16), (1000, 10 ** 400, 16),
    ):
        compare_triple(ns, nswin, overlap, label="types")
    # 6) out of domain values that nevertheless terminate or raise: same result, same exception
    for ns, nswin, overlap in (
        (100, 16, 16), (0, 16, 16), (100, 0, 0), (0, 0, 0),  # stride of zero: ZeroDivisionError
        (0, 8, 2), (-1, 8, 2), (-20, 8, 2), (-20, 8, 0), (5, 8, 10), (8, 8, 10), (8, 8, 12), (0, 8, 20),
        (100, 16, -1), (100, 16, -2), (100, 16, -4), (100, 16, -16), (100, 16, -33), (16, 16, -2), (17, 16, -2),
        (10, -5, -10), (10, -5, -6), (-10, -5, -10), (3, 2, 1), (2, 2, 1), (1, 1, 0), (0, 1, 0),
        (100, 16, 18), (100, 16, 17), (64, 16, 20),  # negative stride: capped at MAXWIN windows
    ):
        compare_triple(ns, nswin, overlap, label="edge")
    print(f"{NCASES} triples compared, all identical ({time.time() - t0:.1f} s), sources: {ibldsp.utils.__file__}")
    return 0


if __name__ == "__main__":
    try:
        sys.exit(main())
    except Mismatch as e:
        print("MISMATCH " + str(e))
        sys.exit(1)
