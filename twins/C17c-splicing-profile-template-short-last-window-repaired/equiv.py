import sys, os; sys.path.insert(0, os.path.join(os.path.dirname(os.path.abspath(__file__)), "src"))
"""
C17 - splicing amplitudes of the sliding windows must sum to one at every sample, for every
(ns, nswin, overlap) with overlap <= nswin / 2, whatever the length of the (clipped) last window.

Oracle (definition only, nothing copied from the library):
  * windows start every (nswin - overlap) samples and the last one is clipped to the end of the signal;
  * inside the overlap of two consecutive windows the incoming window is weighted by the Hann ramp
    sin(pi * k / (2 * (overlap + 1))) ** 2, k = 1..overlap, the outgoing one by the mirrored ramp,
    and everywhere else the weight is one.
"""
import numpy as np

from ibldsp.utils import WindowGenerator


def oracle_amplitudes(ns, nswin, overlap):
    step = nswin - overlap
    k = np.arange(1, overlap + 1)
    ramp = np.sin(np.pi * k / (2 * (overlap + 1))) ** 2
    first, out = 0, []
    while True:
        last = min(first + nswin, ns)
        amp = np.ones(last - first)
        if first > 0:  # there is a previous window: ramp up
            amp[:overlap] = ramp
        if last < ns:  # there is a next window: ramp down
            amp[last - first - overlap:] = ramp[::-1]
        out.append((first, last, amp))
        if last == ns:
            return out
        first += step


def check(ns, nswin, overlap):
    """returns None if all is fine, a message otherwise"""
    wg = WindowGenerator(ns, nswin, overlap)
    got = list(wg.firstlast_splicing)
    expected = oracle_amplitudes(ns, nswin, overlap)
    if [(f, l) for f, l, _ in got] != [(f, l) for f, l, _ in expected]:
        return f"windows differ: {[(f, l) for f, l, _ in got]}"
    total = np.zeros(ns)
    for first, last, amp in got:
        if amp.shape != (last - first,):
            return f"window [{first}, {last}[ has an amplitude vector of shape {amp.shape}"
        total[first:last] += amp
    bad = np.flatnonzero(~np.isclose(total, 1.0))
    if bad.size:
        return (
            f"the splicing amplitudes do not sum to one at samples {bad[:8].tolist()}"
            f"{'...' if bad.size > 8 else ''}: sums {np.round(total[bad[:8]], 4).tolist()}; "
            f"windows {[(f, l) for f, l, _ in got][-3:]} (last window is {got[-1][1] - got[-1][0]} samples long)"
        )
    for (first, last, amp), (_, _, amp_) in zip(got, expected):
        if not np.allclose(amp, amp_):
            return f"window [{first}, {last}[: amplitudes differ from the Hann ramp definition"
    return None


failures = []
ntested = 0
# bounded box, exhaustive in the overlap (up to half a window, as the property requires)
for nswin in range(2, 41):
    for overlap in range(0, nswin // 2 + 1):
        for ns in range(1, 161):
            ntested += 1
            msg = check(ns, nswin, overlap)
            if msg:
                failures.append(((ns, nswin, overlap), msg))
# a few large triples, among which a realistic one with a short last chunk
rng = np.random.default_rng(17)
large = [(30000 * 60 + 1500, 65536, 1024), (600 + 10, 100, 20), (520, 100, 50)]
for _ in range(40):
    nswin = int(rng.integers(64, 4096))
    overlap = int(rng.integers(0, nswin // 2 + 1))
    large.append((int(rng.integers(nswin, 50 * nswin)), nswin, overlap))
for ns, nswin, overlap in large:
    ntested += 1
    msg = check(ns, nswin, overlap)
    if msg:
        failures.append(((ns, nswin, overlap), msg))

if failures:
    print(f"C17 violated for {len(failures)} of {ntested} (ns, nswin, overlap) triples, e.g.")
    for (ns, nswin, overlap), msg in failures[:5]:
        print(f"  ns={ns} nswin={nswin} overlap={overlap}: {msg}")
    # and the way it shows when splicing a signal back together
    ns, nswin, overlap = failures[0][0]
    sig = np.ones(ns)
    out = np.zeros(ns)
    for first, last, amp in WindowGenerator(ns, nswin, overlap).firstlast_splicing:
        out[first:last] += amp * sig[first:last]
    print(f"  splicing a constant signal of ones with ns={ns} nswin={nswin} overlap={overlap} gives a max of {out.max():.4f}")
    sys.exit(1)
print(f"C17 splicing: all {ntested} triples fine")
sys.exit(0)
