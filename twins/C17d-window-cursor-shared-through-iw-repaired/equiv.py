import sys, os; sys.path.insert(0, os.path.join(os.path.dirname(os.path.abspath(__file__)), "src"))
"""
C17: sliding windows cover, overlap, partition and splice exactly - whatever the way the generators
of one WindowGenerator are consumed.

Each generator returned by a WindowGenerator has to describe the complete set of windows of the signal,
also when another generator of the same object is consumed in the meantime: nested loops (2-D tiling of a
square array with one generator object), zip() of two generators, or a call to tscale() from inside a loop.

The oracle is the definition of the property only (plain NumPy / integer arithmetic):
  - first window starts at 0, last window ends at ns, consecutive windows overlap by exactly `overlap`
  - no window longer than nswin, the number of windows equals the announced nwin
  - tiles weighted by the splicing amplitudes add up to the original 2-D array
  - the valid sub-windows contain every sample exactly once
"""
import numpy as np

from ibldsp.utils import WindowGenerator

errors = []


def check_windows(label, ns, nswin, overlap, nwin, windows):
    """checks a list of (first, last) against the definition"""
    first = np.array([w[0] for w in windows])
    last = np.array([w[1] for w in windows])
    msg = []
    if first[0] != 0:
        msg.append(f"first window starts at {first[0]}")
    if last[-1] != ns:
        msg.append(f"last window ends at {last[-1]} instead of {ns}")
    if np.any(last <= first) or np.any(last - first > nswin):
        msg.append("empty, reversed or too long window")
    if np.any(first[1:] != last[:-1] - overlap):
        msg.append(f"consecutive windows do not overlap by {overlap} samples (gaps in the coverage)")
    count = np.zeros(ns, dtype=int)
    for f, l in windows:
        count[max(f, 0):max(l, 0)] += 1
    if np.any(count == 0):
        msg.append(f"{np.sum(count == 0)} samples belong to no window")
    if len(windows) != nwin:
        msg.append(f"{len(windows)} windows produced, {nwin} announced")
    if msg:
        errors.append(f"{label} ns={ns} nswin={nswin} overlap={overlap}: " + "; ".join(msg) + f" -> {windows}")


TRIPLES = [(500, 100, 50), (600, 100, 20), (37, 8, 2), (100, 64, 0), (64, 64, 10), (21, 64, 4), (400, 33, 16)]

for ns, nswin, overlap in TRIPLES:
    # 0) plain sequential use
    wg = WindowGenerator(ns, nswin, overlap)
    check_windows("sequential firstlast", ns, nswin, overlap, wg.nwin, list(wg.firstlast))

    # 1) nested loops over the same generator object (tiles of a square array): outer windows
    wg = WindowGenerator(ns, nswin, overlap)
    outer, inner = [], []
    for rfirst, rlast in wg.firstlast:
        outer.append((rfirst, rlast))
        inner.append([(sl.start, sl.stop) for sl in wg.slice])
    check_windows("nested loops, outer firstlast", ns, nswin, overlap, wg.nwin, outer)
    for cols in inner:
        check_windows("nested loops, inner slice", ns, nswin, overlap, wg.nwin, cols)

    # 2) two generators consumed in lockstep
    wg = WindowGenerator(ns, nswin, overlap)
    try:
        pairs = list(zip(wg.firstlast, wg.firstlast_splicing))
    except ValueError as e:  # a window with last < first cannot be given an amplitude vector
        errors.append(f"zip(firstlast, firstlast_splicing) ns={ns} nswin={nswin} overlap={overlap}: raises {e!r}")
        pairs = list(zip(wg.firstlast, wg.firstlast_valid))
    check_windows("zip(firstlast, firstlast_splicing), left", ns, nswin, overlap, wg.nwin, [p[0] for p in pairs])
    check_windows("zip(firstlast, firstlast_splicing), right", ns, nswin, overlap, wg.nwin, [p[1][:2] for p in pairs])

    # 3) the time scale queried from inside the loop: windows and their centres
    wg = WindowGenerator(ns, nswin, overlap)
    fs = 1000.
    windows = []
    for first, last in wg.firstlast:
        t = wg.tscale(fs)
        windows.append((first, last))
        if not np.isclose(t[len(windows) - 1], (first + last - 1) / 2 / fs):
            errors.append(f"tscale in loop ns={ns} nswin={nswin} overlap={overlap}: centre of window"
                          f" {(first, last)} is not {t[len(windows) - 1]}")
    check_windows("tscale() called inside the loop", ns, nswin, overlap, wg.nwin, windows)

# 4) 2-D splicing and 2-D partition of a square image with a single generator object
rng = np.random.default_rng(17)
for ns, nswin, overlap in [(90, 32, 8), (75, 20, 10), (50, 64, 6), (48, 16, 0)]:
    img = rng.standard_normal((ns, ns))
    wg = WindowGenerator(ns, nswin, overlap)
    out = np.zeros_like(img)
    try:
        for r0, r1, ar in wg.firstlast_splicing:
            for c0, c1, ac in wg.firstlast_splicing:
                out[r0:r1, c0:c1] += ar[:, np.newaxis] * ac[np.newaxis, :] * img[r0:r1, c0:c1]
    except ValueError as e:
        errors.append(f"2-D splicing ns={ns} nswin={nswin} overlap={overlap}: raises {e!r}")
    if not np.allclose(out, img):
        errors.append(f"2-D splicing ns={ns} nswin={nswin} overlap={overlap}: spliced tiles differ from the image,"
                      f" max abs error {np.max(np.abs(out - img)):.3g}, {np.sum(~np.isclose(out, img))} pixels off")
    wg = WindowGenerator(ns, nswin, overlap)
    hits = np.zeros((ns, ns), dtype=int)
    for _, _, r0, r1 in wg.firstlast_valid:
        for _, _, c0, c1 in wg.firstlast_valid:
            hits[r0:r1, c0:c1] += 1
    if not np.all(hits == 1):
        errors.append(f"2-D valid tiles ns={ns} nswin={nswin} overlap={overlap}: {np.sum(hits == 0)} pixels in no"
                      f" valid tile, {np.sum(hits > 1)} pixels in several")

if errors:
    print(f"C17 VIOLATED ({len(errors)} findings):")
    for e in errors:
        print("  - " + e)
    sys.exit(1)
print("C17 holds: windows cover / overlap / count / splice exactly, also with nested or interleaved generators")
sys.exit(0)
