import sys, os; sys.path.insert(0, os.path.join(os.path.dirname(os.path.abspath(__file__)), "src"))
"""
C17: sliding windows cover, overlap, partition and splice exactly.

Checks WindowGenerator against the definition of a sliding window scheme (plain NumPy, no
copy of the library code) over a small exhaustive box of (ns, nswin, overlap) triples that
includes signals shorter than the window and shorter than the overlap.
Exits 1 and prints the offending triples if the property does not hold, 0 otherwise.
"""
import numpy as np

from ibldsp.utils import WindowGenerator

FS = 1000.0


def check(ns, nswin, overlap):
    """Returns a list of human readable violations for this triple"""
    bad = []
    wg = WindowGenerator(ns=ns, nswin=nswin, overlap=overlap)
    wins = [(int(f), int(l)) for f, l in wg.firstlast]
    # --- announced count equals the number of windows produced
    if wg.nwin != len(wins):
        bad.append(f"announced nwin={wg.nwin} but {len(wins)} windows generated")
    # --- the windows cover the signal without gaps
    hits = np.zeros(ns, dtype=int)
    for f, l in wins:
        if not (0 <= f < l <= ns):
            bad.append(f"window ({f}, {l}) is empty or out of [0, {ns}]")
        hits[f:l] += 1
    if np.any(hits == 0):
        bad.append(f"{int(np.sum(hits == 0))} of {ns} samples are not covered by any window")
    if wins and (wins[0][0] != 0 or wins[-1][1] != ns):
        bad.append(f"windows span [{wins[0][0]}, {wins[-1][1]}) instead of [0, {ns})")
    # --- consecutive windows overlap by exactly the requested amount, full size but the last
    for (f0, l0), (f1, l1) in zip(wins[:-1], wins[1:]):
        if l0 - f1 != overlap:
            bad.append(f"windows ({f0}, {l0}) and ({f1}, {l1}) overlap by {l0 - f1}, not {overlap}")
        if l0 - f0 != nswin:
            bad.append(f"window ({f0}, {l0}) is not the last one but is not {nswin} long")
    # --- the time scale gives the centre of each window
    centres = np.array([np.mean(np.arange(f, l)) / FS for f, l in wins])
    ts = np.asarray(wg.tscale(FS), dtype=float)
    if ts.shape != (len(wins),) or (len(wins) and not np.allclose(ts, centres, rtol=0, atol=1e-12)):
        bad.append(f"tscale {ts} is not the window centres {centres}")
    if ts.size != wg.nwin:
        bad.append(f"tscale has {ts.size} entries for nwin={wg.nwin}")
    # --- valid sub-windows contain every sample exactly once
    if overlap % 2 == 0:
        seen = np.zeros(ns, dtype=int)
        for f, l, fv, lv in wg.firstlast_valid:
            if not (f <= fv <= lv <= l):
                bad.append(f"valid range ({fv}, {lv}) not inside window ({f}, {l})")
            seen[fv:lv] += 1
        if not np.all(seen == 1):
            bad.append(f"valid sub-windows: {int(np.sum(seen != 1))} of {ns} samples not seen exactly once")
    # --- splicing amplitudes sum to one at every sample
    if 2 * overlap <= nswin:
        total = np.zeros(ns)
        for f, l, amp in wg.firstlast_splicing:
            total[f:l] += amp
        if not np.allclose(total, 1.0):
            bad.append(f"splicing amplitudes do not sum to one on {int(np.sum(~np.isclose(total, 1)))} of {ns} samples")
    return bad


def main():
    failures = {}
    ntested = 0
    # exhaustive small box, includes ns < nswin, ns <= overlap, short last windows, zero overlap
    for nswin in range(1, 25):
        for overlap in range(0, nswin):
            for ns in range(1, 90):
                ntested += 1
                bad = check(ns, nswin, overlap)
                if bad:
                    failures[(ns, nswin, overlap)] = bad
    # a few large ones, among which the last chunk of a recording shorter than the destriping overlap
    for triple in [(3_000_000, 65536, 1024), (65536 * 3 + 17, 65536, 1024), (65536 + 1024, 65536, 1024),
                   (1025, 65536, 1024), (1024, 65536, 1024), (600, 65536, 1024), (70001, 4096, 2048)]:
        ntested += 1
        bad = check(*triple)
        if bad:
            failures[triple] = bad

    if not failures:
        print(f"OK: windows cover / overlap / count / tscale / valid / splicing hold for {ntested} triples")
        return 0
    print(f"FAIL: sliding window property broken for {len(failures)} of {ntested} (ns, nswin, overlap) triples")
    for triple in sorted(failures)[:8] + sorted(failures)[-3:]:
        print(f"  ns={triple[0]}, nswin={triple[1]}, overlap={triple[2]}:")
        for b in failures[triple][:4]:
            print(f"      - {b}")
    ns_le_ov = sum(1 for (ns, _, ov) in failures if ns <= ov)
    print(f"  {ns_le_ov} of the {len(failures)} failing triples have a signal not longer than the overlap (ns <= overlap)")
    return 1


if __name__ == "__main__":
    sys.exit(main())
