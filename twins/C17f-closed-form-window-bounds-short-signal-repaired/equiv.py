import sys, os; sys.path.insert(0, os.path.join(os.path.dirname(os.path.abspath(__file__)), "src"))
"""
C17: sliding windows cover, overlap, partition and splice exactly.

Checks the property from its definition (no stored copy of the library code) over a small
exhaustive box of (ns, nswin, overlap) triples plus a few hand-written ones, among which
signals that are not longer than the requested overlap.
"""
import numpy as np

from ibldsp.utils import WindowGenerator

FS = 1000.0


def check(ns, nswin, overlap):
    """returns a string describing the first violation, or None"""
    wg = WindowGenerator(ns, nswin, overlap)
    fl = list(wg.firstlast)
    # announced count == produced count, and at least one window for a non-empty signal
    if wg.nwin != len(fl):
        return f"nwin announces {wg.nwin} windows but firstlast produced {len(fl)}: {fl}"
    # coverage without gaps: every sample is in at least one window
    hits = np.zeros(ns, dtype=int)
    for first, last in fl:
        if not (0 <= first < last <= ns and last - first <= nswin):
            return f"window ({first}, {last}) is not a valid window"
        hits[first:last] += 1
    if np.any(hits == 0):
        return f"samples {np.flatnonzero(hits == 0)[:5]}... are covered by no window"
    if fl[0][0] != 0 or fl[-1][1] != ns:
        return f"windows do not start at 0 / stop at ns: {fl[0]}, {fl[-1]}"
    # consecutive windows overlap by exactly the requested amount, only the last one is short
    for (f0, l0), (f1, l1) in zip(fl[:-1], fl[1:]):
        if l0 - f0 != nswin:
            return f"window ({f0}, {l0}) is not the last one but is not {nswin} long"
        if l0 - f1 != overlap:
            return f"windows ({f0}, {l0}) and ({f1}, {l1}) overlap by {l0 - f1}, not {overlap}"
    # time scale: centre of each window
    ts = np.asarray(wg.tscale(FS))
    centres = np.array([(f + l - 1) / 2 / FS for f, l in fl])
    if ts.shape != centres.shape or not np.allclose(ts, centres, rtol=0, atol=1e-12):
        return f"tscale {ts} is not the windows centres {centres}"
    # valid sub-windows: every sample exactly once
    if overlap % 2 == 0:
        hits = np.zeros(ns, dtype=int)
        for first, last, fv, lv in wg.firstlast_valid:
            if not (first <= fv <= lv <= last):
                return f"valid bounds ({fv}, {lv}) not inside the window ({first}, {last})"
            hits[fv:lv] += 1
        if not np.all(hits == 1):
            return f"valid sub-windows hit counts are not all one: {hits}"
    # splicing amplitudes sum to one at every sample
    if 2 * overlap <= nswin:
        acc = np.zeros(ns)
        for first, last, amp in wg.firstlast_splicing:
            if amp.shape != (last - first,):
                return f"splicing amplitude has shape {amp.shape} for window ({first}, {last})"
            acc[first:last] += amp
        if not np.allclose(acc, 1):
            return f"splicing amplitudes do not sum to one: {acc}"
    return None


def main():
    triples = [
        (600, 100, 20), (500, 100, 50), (500, 100, 10),  # the usual ones
        (30_000, 65536, 1024), (1024, 65536, 1024), (700, 65536, 1024),  # short recording, destriping sizes
        (100_003, 4096, 128), (4097, 4096, 2048),
    ]
    for nswin in range(1, 25):
        for overlap in range(0, nswin):
            for ns in range(1, 81):
                triples.append((ns, nswin, overlap))
    rng = np.random.default_rng(17)
    for _ in range(200):
        nswin = int(rng.integers(2, 5000))
        overlap = int(rng.integers(0, nswin))
        triples.append((int(rng.integers(1, 200_000)), nswin, overlap))
    bad = []
    for ns, nswin, overlap in triples:
        try:
            msg = check(ns, nswin, overlap)
        except Exception as e:  # noqa
            msg = f"{type(e).__name__}: {e}"
        if msg is not None:
            bad.append(((ns, nswin, overlap), msg))
    if bad:
        print(f"C17 violated for {len(bad)} of {len(triples)} (ns, nswin, overlap) triples, first ones:")
        for triple, msg in bad[:8]:
            print(f"  ns={triple[0]}, nswin={triple[1]}, overlap={triple[2]}: {msg}")
        return 1
    print(f"C17 holds for the {len(triples)} triples checked")
    return 0


if __name__ == "__main__":
    sys.exit(main())
