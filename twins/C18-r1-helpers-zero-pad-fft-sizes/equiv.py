"""
Differential check for refactor_1.diff (helper extraction in ibldsp.fourier.convolve / ns_optim_fft)
Compares the pristine implementation (/tmp/wt_C18_tmp/orig) with the worktree one (/tmp/wt_C18/src)
"""
import importlib.util
import sys
from pathlib import Path

import numpy as np

ORIG = Path("/tmp/wt_C18_tmp/orig")
WORK = Path("/tmp/wt_C18/src")


def load_pkg(alias, root):
    """Loads root/ibldsp as a package named alias, and returns its fourier and utils modules"""
    spec = importlib.util.spec_from_file_location(
        alias, root / "ibldsp" / "__init__.py", submodule_search_locations=[str(root / "ibldsp")]
    )
    pkg = importlib.util.module_from_spec(spec)
    sys.modules[alias] = pkg
    spec.loader.exec_module(pkg)
    fourier = importlib.import_module(f"{alias}.fourier")
    utils = importlib.import_module(f"{alias}.utils")
    for m in (fourier, utils):
        assert Path(m.__file__).parent == root / "ibldsp", m.__file__
    assert fourier.fcn_cosine is utils.fcn_cosine
    return fourier, utils


fo, uo = load_pkg("ibldsp_orig", ORIG)
fn, un = load_pkg("ibldsp_new", WORK)
assert fo.__file__ != fn.__file__
assert not hasattr(fo, "_zero_pad_last_axis"), "the reference copy is not pristine"
if not hasattr(fn, "_zero_pad_last_axis"):
    print("WARNING: refactor_1.diff is not applied to the worktree, comparing identical sources", file=sys.stderr)


def call(f, *args, **kwargs):
    try:
        return "ok", f(*args, **kwargs)
    except Exception as e:  # noqa
        return "exc", (type(e), str(e))


def same(a, b):
    if a[0] != b[0]:
        return False
    if a[0] == "exc":
        return a[1] == b[1]
    a, b = a[1], b[1]
    if a is None or b is None:
        return a is None and b is None
    if type(a) is not type(b):
        return False
    a_, b_ = np.asarray(a), np.asarray(b)
    return a_.dtype == b_.dtype and a_.shape == b_.shape and np.array_equal(a_, b_, equal_nan=True)


ncheck = 0


def check(name, *args, **kwargs):
    global ncheck
    ro = call(getattr(fo, name), *args, **kwargs)
    rn = call(getattr(fn, name), *args, **kwargs)
    assert same(ro, rn), (name, [getattr(a, "shape", a) for a in args], kwargs, ro, rn)
    ncheck += 1


rng = np.random.default_rng(18)

# ns_optim_fft: every integer up to 5000, all table values and neighbours, extremes, arrays, errors
for ns in range(0, 5001):
    check("ns_optim_fft", ns)
sizes = np.unique(np.outer(2 ** np.arange(25), 3 ** np.arange(15)).flatten())
for s in sizes[:: 7]:
    for d in (-1, 0, 1):
        check("ns_optim_fft", int(s) + d)
for ns in (-5, 0.5, 1e3, 2.5e6, np.int32(77), np.float32(81.0), int(sizes[-1]), int(sizes[-1]) + 1,
           np.array([3, 10, 100]), [5, 28], "a", None):
    check("ns_optim_fft", ns)

# convolve: all pairs of lengths in a dense range, both modes + invalid mode
for nsx in list(range(1, 42)) + [53, 64, 80, 81, 127, 243, 300]:
    for nsw in list(range(1, 30)) + [47, 64, 81]:
        x = rng.standard_normal(nsx)
        w = rng.standard_normal(nsw)
        for mode in ("full", "same"):
            check("convolve", x, w, mode=mode)
check("convolve", x, w, mode="valid")
check("convolve", x, w, "same", False)

# padded sizes that are powers of three / odd
for ntot in (3, 9, 27, 81, 243, 729):
    for nsw in (1, 2, 3, 4):
        if ntot - nsw < 1:
            continue
        x = rng.standard_normal(ntot - nsw)
        w = rng.standard_normal(nsw)
        for mode in ("full", "same"):
            check("convolve", x, w, mode=mode)

# dtypes and dimensions, broadcasting of a matrix with a vector
for dtype in (np.float64, np.float32, np.float16, np.int16, np.int64, np.complex64, np.complex128, bool):
    for shape_x, shape_w in (((37,), (6,)), ((4, 50), (7,)), ((4, 50), (4, 8)), ((4, 50), (1, 9)),
                             ((2, 3, 25), (5,)), ((2, 3, 25), (3, 4)), ((2, 3, 25), (2, 3, 6)), ((0, 12), (3,)),
                             ((3, 10), (4, 3))):
        x = (rng.standard_normal(shape_x) * 20).astype(dtype)
        w = (rng.standard_normal(shape_w) * 20).astype(dtype)
        for mode in ("full", "same"):
            check("convolve", x, w, mode=mode)

# impulse basis (linear operator) for a few sizes
for nsx, nsw in ((12, 5), (13, 4), (23, 4), (26, 1)):
    w = rng.standard_normal(nsw)
    for mode in ("full", "same"):
        check("convolve", np.eye(nsx), w, mode=mode)
        check("convolve", rng.standard_normal(nsx), np.eye(nsw), mode=mode)

# degenerate / error inputs
check("convolve", np.zeros(0), np.ones(3))
check("convolve", np.ones(3), np.zeros(0))
check("convolve", np.zeros(0), np.zeros(0))
check("convolve", np.float64(3.0), np.ones(3))
check("convolve", np.ones(3), np.float64(3.0))
check("convolve", [1.0, 2.0], np.ones(3))
check("convolve", np.ones((2, 5)), np.ones((3, 2)), mode="same")
check("convolve", np.ones(5), np.ones(3), gpu=True)  # cupy is not installed: same ImportError
# non contiguous and fortran ordered inputs
a = rng.standard_normal((6, 40))
check("convolve", a[::2, ::3], a[0, ::5], mode="same")
check("convolve", np.asfortranarray(a), np.asfortranarray(a[:, :7]), mode="full")

# inputs are not modified
x = rng.standard_normal((3, 20))
w = rng.standard_normal(5)
x0, w0 = x.copy(), w.copy()
fn.convolve(x, w, mode="same")
assert np.array_equal(x, x0) and np.array_equal(w, w0)

print(f"{ncheck} comparisons")
print("EQUIVALENT")
