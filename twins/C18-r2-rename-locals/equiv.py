"""
Differential check for refactor_2.diff (renaming of local variables / nested helper in ibldsp.fourier and
ibldsp.utils.fcn_cosine)
Compares the pristine implementation (/tmp/wt_C18_tmp/orig) with the worktree one (/tmp/wt_C18/src)
"""
import importlib.util
import inspect
import sys
from pathlib import Path

import numpy as np

ORIG = Path("/tmp/wt_C18_tmp/orig")
WORK = Path("/tmp/wt_C18/src")


def load_pkg(alias, root):
    """Loads root/ibldsp as a package named alias, and returns its fourier and utils modules"""
    spec = importlib.util.spec_from_file_location(
        alias, root / "ibldsp" / "__init__.py", submodule_search_locations=[str(root / "ibldsp")]
    )
    pkg = importlib.util.module_from_spec(spec)
    sys.modules[alias] = pkg
    spec.loader.exec_module(pkg)
    fourier = importlib.import_module(f"{alias}.fourier")
    utils = importlib.import_module(f"{alias}.utils")
    for m in (fourier, utils):
        assert Path(m.__file__).parent == root / "ibldsp", m.__file__
    assert fourier.fcn_cosine is utils.fcn_cosine
    return fourier, utils


fo, uo = load_pkg("ibldsp_orig", ORIG)
fn, un = load_pkg("ibldsp_new", WORK)
assert fo.__file__ != fn.__file__
assert "fpos" not in inspect.getsource(fo.fscale), "the reference copy is not pristine"
if "fpos" not in inspect.getsource(fn.fscale):
    print("WARNING: refactor_2.diff is not applied to the worktree, comparing identical sources", file=sys.stderr)
# public names and signatures unchanged
for mo, mn in ((fo, fn), (uo, un)):
    pub_o = {k: v for k, v in vars(mo).items() if inspect.isfunction(v) and v.__module__ == mo.__name__}
    pub_n = {k: v for k, v in vars(mn).items() if inspect.isfunction(v) and v.__module__ == mn.__name__}
    assert set(pub_o) == set(pub_n)
    for k in pub_o:
        assert str(inspect.signature(pub_o[k])) == str(inspect.signature(pub_n[k])), k


def call(f, *args, **kwargs):
    try:
        return "ok", f(*args, **kwargs)
    except Exception as e:  # noqa
        return "exc", (type(e), str(e))


def same(a, b):
    if a[0] != b[0]:
        return False
    if a[0] == "exc":
        return a[1] == b[1]
    a, b = a[1], b[1]
    if a is None or b is None:
        return a is None and b is None
    if type(a) is not type(b):
        return False
    a_, b_ = np.asarray(a), np.asarray(b)
    return a_.dtype == b_.dtype and a_.shape == b_.shape and np.array_equal(a_, b_, equal_nan=True)


ncheck = 0


def check(name, *args, **kwargs):
    global ncheck
    mo, mn = (uo, un) if name == "fcn_cosine_eval" else (fo, fn)
    if name == "fcn_cosine_eval":
        bounds, x = args
        ro = call(lambda: mo.fcn_cosine(bounds, **kwargs)(x.copy() if hasattr(x, "copy") else x))
        rn = call(lambda: mn.fcn_cosine(bounds, **kwargs)(x.copy() if hasattr(x, "copy") else x))
    else:
        ro = call(getattr(mo, name), *args, **kwargs)
        rn = call(getattr(mn, name), *args, **kwargs)
    assert same(ro, rn), (name, [getattr(a, "shape", a) for a in args], kwargs, ro, rn)
    ncheck += 1


rng = np.random.default_rng(1802)

# ---- ns_optim_fft
for ns in range(0, 3001):
    check("ns_optim_fft", ns)
for ns in (-5, 0.5, 2.5e6, 2 ** 24 * 3 ** 14, 2 ** 24 * 3 ** 14 + 1, np.array([3, 10, 100]), "a", None):
    check("ns_optim_fft", ns)

# ---- fscale
for ns in range(0, 302):
    for si in (1, 0.002, 1 / 30000):
        check("fscale", ns, si)
        check("fscale", ns, si=si, one_sided=True)
for ns in (2.0, 7.5, np.int16(12), -3, None):
    check("fscale", ns)
    check("fscale", ns, one_sided=True)
check("fscale", 10, si=0)

# ---- freduce / fexpand
for ns in range(1, 302):
    x = rng.standard_normal(ns)
    X = np.fft.fft(x)
    check("freduce", X)
    check("fexpand", fo.freduce(X), ns)
    check("fexpand", fo.freduce(X), ns=ns, axis=0)
    check("fexpand", fo.freduce(X))  # default ns=1
for shape in ((5, 12), (5, 13), (12, 5), (13, 5), (3, 4, 9), (3, 8, 4), (6, 3, 2), (0, 4), (4, 0), (1, 1)):
    for dtype in (np.complex128, np.complex64, np.float64, np.float32, np.int32):
        X = (rng.standard_normal(shape) * 10).astype(dtype)
        for axis in [None] + list(range(-len(shape), len(shape))) + [len(shape), -len(shape) - 1]:
            check("freduce", X, axis=axis)
            for ns in (0, 1, 2, 7, 8, 9, 2 * shape[axis if axis is not None and -len(shape) <= axis < len(shape) else -1]):
                check("fexpand", X, ns, axis)
check("freduce", np.float64(1.0))
check("fexpand", np.float64(1.0), 4)
check("freduce", [1, 2, 3, 4])
check("fexpand", np.arange(4) + 0j, 6.0)
check("fexpand", np.arange(4) + 0j, 7.5)
check("fexpand", np.arange(4) + 0j, None)

# ---- convolve
for nsx in list(range(1, 30)) + [53, 64, 80, 81, 243, 300]:
    for nsw in list(range(1, 20)) + [47, 81]:
        x = rng.standard_normal(nsx)
        w = rng.standard_normal(nsw)
        for mode in ("full", "same", "valid"):
            check("convolve", x, w, mode=mode)
for dtype in (np.float64, np.float32, np.int16, np.complex64):
    for shape_x, shape_w in (((4, 50), (7,)), ((4, 50), (4, 8)), ((2, 3, 25), (3, 4)), ((0, 12), (3,)), ((3, 10), (4, 3))):
        x = (rng.standard_normal(shape_x) * 20).astype(dtype)
        w = (rng.standard_normal(shape_w) * 20).astype(dtype)
        for mode in ("full", "same"):
            check("convolve", x, w, mode=mode)
check("convolve", np.zeros(0), np.ones(3))
check("convolve", np.float64(3.0), np.ones(3))
check("convolve", np.ones(5), np.ones(3), gpu=True)

# ---- fcn_cosine
for bounds in ([0.1, 0.4], [0, 1], (2, 5), np.array([10., 300.]), [0.3, 0.3], [0.5, 0.2], [1], [], None, [-1., 1.]):
    for x in (np.linspace(-1, 2, 301), rng.standard_normal((4, 7)) * 3, np.arange(8), np.arange(8.)[::2],
              np.float64(0.3), 0.3, np.array([np.nan, np.inf, -np.inf, 0.2]), np.zeros(0), [0.1, 0.2],
              np.linspace(0, 1, 11).astype(np.float32)):
        check("fcn_cosine_eval", bounds, x)
check("fcn_cosine_eval", [0, 1], np.arange(3.), gpu=True)
assert uo.fcn_cosine([0, 1]).__name__ == un.fcn_cosine([0, 1]).__name__

# ---- _freq_vector
for n in (1, 2, 11, 12, 150, 151):
    f = fo.fscale(n, 0.002, one_sided=True)
    for b in ([10, 30], [0, 0.1], [30, 10], [20, 20], np.array([5., 100.]), [400, 600], [1], None):
        for typ in ("lp", "hp", "LP", "Hp", "lowpass", "highpass", "HighPass", "bp", "", None, 3):
            check("_freq_vector", f, b, typ=typ)
        check("_freq_vector", f, b)
check("_freq_vector", np.abs(fo.fscale(33, 1 / 20)), [0, 0.01], typ="hp")

# ---- lp / hp / bp / _freq_filter
for ns in list(range(1, 40)) + [81, 128, 243, 300]:
    ts = rng.standard_normal(ns)
    for si in (0.002, 1):
        fn_ = 1 / si / 2
        check("lp", ts, si, [fn_ * .1, fn_ * .4])
        check("hp", ts, si, [fn_ * .1, fn_ * .4])
        check("bp", ts, si, [fn_ * .1, fn_ * .2, fn_ * .5, fn_ * .7])
for shape in ((3, 24), (3, 25), (24, 3), (25, 3), (2, 9, 4), (2, 4, 9), (9, 2, 4), (1, 1), (0, 5), (5, 0)):
    for dtype in (np.float64, np.float32, np.int16, np.complex128):
        ts = (rng.standard_normal(shape) * 30).astype(dtype)
        for axis in [None] + list(range(-len(shape), len(shape))) + [len(shape)]:
            check("lp", ts, 0.002, [30, 90], axis=axis)
            check("hp", ts, 0.002, [30, 90], axis=axis)
            check("bp", ts, 0.002, [20, 40, 100, 150], axis=axis)
            for typ in ("lp", "hp", "bp", "lowpass", "highpass", "xx", None):
                check("_freq_filter", ts, 0.002, [20, 40, 100, 150], axis=axis, typ=typ)
            check("_freq_filter", ts, 0.002, [20, 40])
# impulse basis
for ns in (16, 27, 31):
    check("lp", np.eye(ns), 1, [.1, .3])
    check("hp", np.eye(ns), 1, [.1, .3], axis=0)
    check("bp", np.eye(ns), 1, [.05, .1, .3, .4], axis=0)
check("bp", np.ones(20), 1, [.1, .2])
check("lp", np.ones(20), 1, None)
check("lp", [1., 2., 3.], 1, [.1, .2])
check("lp", np.float64(2.), 1, [.1, .2])

# ---- dft
for ns in list(range(1, 34)) + [64, 81, 100]:
    x = rng.standard_normal(ns)
    check("dft", x)
    check("dft", x + 1j * rng.standard_normal(ns))
    check("dft", x, xscale=np.sort(rng.uniform(0, ns, ns)))
    check("dft", x, kscale=np.arange(3))
    check("dft", x, kscale=rng.uniform(0, ns, 5), xscale=rng.uniform(0, ns, ns))
for shape in ((4, 11), (11, 4), (4, 12), (2, 3, 8), (2, 7, 3), (7, 2, 3), (1, 1)):
    for dtype in (np.float64, np.float32, np.complex64, np.int32):
        x = (rng.standard_normal(shape) * 9).astype(dtype)
        for axis in list(range(-len(shape), len(shape))) + [len(shape)]:
            check("dft", x, axis=axis)
            check("dft", x, None, axis, np.arange(2))
check("dft", np.zeros(0))
check("dft", np.zeros((0, 3)))
check("dft", np.zeros((3, 0)), axis=0)
check("dft", np.float64(2.))
check("dft", np.ones(4), xscale=np.arange(5))
check("dft", np.ones(4), kscale=[0, 1])

# ---- dft2
for nrc, nt, nk, nl in ((6, 4, 2, 3), (12, 1, 3, 4), (9, 5, 3, 3), (1, 1, 1, 1), (20, 7, 4, 5), (5, 3, 0, 2), (8, 2, 1, 6)):
    for cplx in (False, True):
        x = rng.standard_normal((nrc, nt)) + (1j * rng.standard_normal((nrc, nt)) if cplx else 0)
        r = rng.uniform(0, 1, nrc)
        c = rng.uniform(0, 1, nrc)
        check("dft2", x, r, c, nk, nl)
        check("dft2", x.astype(np.complex64 if cplx else np.float32), r.astype(np.float32), c.astype(np.float32), nk, nl)
# regular grid (equals fft2) and vector input / mismatching sizes
nk, nl = 4, 6
ik, il = [v.flatten() for v in np.meshgrid(np.arange(nk), np.arange(nl), indexing="ij")]
x = rng.standard_normal((nk * nl, 3))
check("dft2", x, ik / nk, il / nl, nk, nl)
check("dft2", x[:, 0], ik / nk, il / nl, nk, nl)
check("dft2", x[:-1], ik / nk, il / nl, nk, nl)
check("dft2", x, ik / nk, il[:-1] / nl, nk, nl)
check("dft2", x, list(ik / nk), il / nl, nk, nl)
check("dft2", x, ik / nk, il / nl, 2.0, nl)

print(f"{ncheck} comparisons")
print("EQUIVALENT")
