import sys, os; sys.path.insert(0, os.path.join(os.path.dirname(os.path.abspath(__file__)), "src"))
"""
Differential equivalence check for the C18 housekeeping change (type hints, docstrings, guard clauses, named constants,
integer arithmetic instead of floor / ceil of a float division, ravel instead of flatten, def instead of lambda) in
src/ibldsp/fourier.py (convolve, ns_optim_fft, fscale, freduce, fexpand, _freq_filter, _freq_vector, dft, dft2) and
src/ibldsp/utils.py (fcn_cosine).

REFERENCE_SOURCE below is a verbatim copy of the ORIGINAL implementation of every function that was changed (plus the
unchanged helpers _fcn_extrap, bp, lp and hp so that the reference is self contained and never calls the code under
test).  It is executed into its own module namespace `ref`.  Every case is run through both implementations and the
results are compared exactly: python type, dtype, shape, np.array_equal (nans equal), or same exception type.
Exits 0 if everything is identical, 1 with a message otherwise.
"""
import types
import warnings

import numpy as np

import ibldsp.fourier as new_fourier
import ibldsp.utils as new_utils

REFERENCE_SOURCE = r'''
def _fcn_extrap(x, f, bounds):
    """
    Extrapolates a flat value before and after bounds
    x: array to be filtered
    f: function to be applied between bounds (cf. fcn_cosine below)
    bounds: 2 elements list or np.array
    """
    y = f(x)
    y[x < bounds[0]] = f(bounds[0])
    y[x > bounds[1]] = f(bounds[1])
    return y


def fcn_cosine(bounds, gpu=False):
    """
    Returns a soft thresholding function with a cosine taper:
    values <= bounds[0]: values
    values < bounds[0] < bounds[1] : cosine taper
    values < bounds[1]: bounds[1]
    :param bounds:
    :param gpu: bool
    :return: lambda function
    """
    if gpu:
        import cupy as gp
    else:
        gp = np

    def _cos(x):
        return (1 - gp.cos((x - bounds[0]) / (bounds[1] - bounds[0]) * gp.pi)) / 2

    func = lambda x: _fcn_extrap(x, _cos, bounds)  # noqa
    return func


def convolve(x, w, mode="full", gpu=False):
    """
    Frequency domain convolution along the last dimension (2d arrays)
    Will broadcast if a matrix is convolved with a vector
    :param x:
    :param w:
    :param mode:
    :param gpu: bool
    :return: convolution
    """
    if gpu:
        import cupy as gp
    else:
        gp = np

    nsx = x.shape[-1]
    nsw = w.shape[-1]
    ns = ns_optim_fft(nsx + nsw)
    x_ = gp.concatenate(
        (x, gp.zeros([*x.shape[:-1], ns - nsx], dtype=x.dtype)), axis=-1
    )
    w_ = gp.concatenate(
        (w, gp.zeros([*w.shape[:-1], ns - nsw], dtype=w.dtype)), axis=-1
    )
    xw = gp.real(
        gp.fft.irfft(gp.fft.rfft(x_, axis=-1) * gp.fft.rfft(w_, axis=-1), n=ns, axis=-1)
    )
    xw = xw[..., : (nsx + nsw)]  # remove 0 padding
    if mode == "full":
        return xw
    elif mode == "same":
        first = int(gp.floor(nsw / 2)) - ((nsw + 1) % 2)
        last = int(gp.ceil(nsw / 2)) + ((nsw + 1) % 2)
        return xw[..., first:-last]


def ns_optim_fft(ns):
    """
    Gets the next higher combination of factors of 2 and 3 than ns to compute efficient ffts
    :param ns:
    :return: nsoptim
    """
    p2, p3 = np.meshgrid(2 ** np.arange(25), 3 ** np.arange(15))
    sz = np.unique((p2 * p3).flatten())
    return sz[np.searchsorted(sz, ns)]


def fscale(ns, si=1, one_sided=False):
    """
    numpy.fft.fftfreq returns Nyquist as a negative frequency so we propose this instead

    :param ns: number of samples
    :param si: sampling interval in seconds
    :param one_sided: if True, returns only positive frequencies
    :return: fscale: numpy vector containing frequencies in Hertz
    """
    fsc = np.arange(0, np.floor(ns / 2) + 1) / ns / si  # sample the frequency scale
    if one_sided:
        return fsc
    else:
        return np.concatenate((fsc, -fsc[slice(-2 + (ns % 2), 0, -1)]), axis=0)


def freduce(x, axis=None):
    """
    Reduces a spectrum to positive frequencies only
    Works on the last dimension (contiguous in c-stored array)

    :param x: numpy.ndarray
    :param axis: axis along which to perform reduction (last axis by default)
    :return: numpy.ndarray
    """
    if axis is None:
        axis = x.ndim - 1
    siz = list(x.shape)
    siz[axis] = int(np.floor(siz[axis] / 2 + 1))
    return np.take(x, np.arange(0, siz[axis]), axis=axis)


def fexpand(x, ns=1, axis=None):
    """
    Reconstructs full spectrum from positive frequencies
    Works on the last dimension (contiguous in c-stored array)

    :param x: numpy.ndarray
    :param axis: axis along which to perform reduction (last axis by default)
    :return: numpy.ndarray
    """
    if axis is None:
        axis = x.ndim - 1
    # dec = int(ns % 2) * 2 - 1
    # xcomp = np.conj(np.flip(x[..., 1:x.shape[-1] + dec], axis=axis))
    ilast = int((ns + (ns % 2)) / 2)
    xcomp = np.conj(np.flip(np.take(x, np.arange(1, ilast), axis=axis), axis=axis))
    return np.concatenate((x, xcomp), axis=axis)


def bp(ts, si, b, axis=None):
    """
    Band-pass filter in frequency domain

    :param ts: time serie
    :param si: sampling interval in seconds
    :param b: cutout frequencies: 4 elements vector or list
    :param axis: axis along which to perform reduction (last axis by default)
    :return: filtered time serie
    """
    return _freq_filter(ts, si, b, axis=axis, typ="bp")


def lp(ts, si, b, axis=None):
    """
    Low-pass filter in frequency domain

    :param ts: time serie
    :param si: sampling interval in seconds
    :param b: cutout frequencies: 2 elements vector or list
    :param axis: axis along which to perform reduction (last axis by default)
    :return: filtered time serie
    """
    return _freq_filter(ts, si, b, axis=axis, typ="lp")


def hp(ts, si, b, axis=None):
    """
    High-pass filter in frequency domain

    :param ts: time serie
    :param si: sampling interval in seconds
    :param b: cutout frequencies: 2 elements vector or list
    :param axis: axis along which to perform reduction (last axis by default)
    :return: filtered time serie
    """
    return _freq_filter(ts, si, b, axis=axis, typ="hp")


def _freq_filter(ts, si, b, axis=None, typ="lp"):
    """
    Wrapper for hp/lp/bp filters
    """
    if axis is None:
        axis = ts.ndim - 1
    ns = ts.shape[axis]
    f = fscale(ns, si=si, one_sided=True)
    if typ == "bp":
        filc = _freq_vector(f, b[0:2], typ="hp") * _freq_vector(f, b[2:4], typ="lp")
    else:
        filc = _freq_vector(f, b, typ=typ)
    if axis < (ts.ndim - 1):
        filc = filc[:, np.newaxis]
    return np.real(
        np.fft.ifft(np.fft.fft(ts, axis=axis) * fexpand(filc, ns, axis=0), axis=axis)
    )


def _freq_vector(f, b, typ="lp"):
    """
    Returns a frequency modulated vector for filtering

    :param f: frequency vector, uniform and monotonic
    :param b: 2 bounds array
    :return: amplitude modulated frequency vector
    """
    filc = fcn_cosine(b)(f)
    if typ.lower() in ["hp", "highpass"]:
        return filc
    elif typ.lower() in ["lp", "lowpass"]:
        return 1 - filc


def dft(x, xscale=None, axis=-1, kscale=None):
    """
    1D discrete fourier transform. Vectorized.
    :param x: 1D numpy array to be transformed
    :param xscale: time or spatial index of each sample
    :param axis: for multidimensional arrays, axis along which the ft is computed
    :param kscale: (optional) fourier coefficient. All if complex input, positive if real
    :return: 1D complex numpy array
    """
    ns = x.shape[axis]
    if xscale is None:
        xscale = np.arange(ns)
    if kscale is None:
        nk = ns if np.any(np.iscomplex(x)) else np.ceil((ns + 1) / 2)
        kscale = np.arange(nk)
    else:
        nk = kscale.size
    if axis != 0:
        # the axis of the transform always needs to be the first
        x = np.swapaxes(x, axis, 0)
    shape = np.array(x.shape)
    x = np.reshape(x, (ns, int(np.prod(x.shape) / ns)))
    # compute fourier coefficients
    exp = np.exp(-1j * 2 * np.pi / ns * xscale * kscale[:, np.newaxis])
    X = np.matmul(exp, x)
    shape[0] = int(nk)
    X = X.reshape(shape)
    if axis != 0:
        X = np.swapaxes(X, axis, 0)
    return X


def dft2(x, r, c, nk, nl):
    """
    Irregularly sampled 2D dft by projecting into sines/cosines. Vectorized.
    :param x: vector or 2d matrix of shape (nrc, nt)
    :param r: vector (nrc) of normalized positions along the k dimension (axis 0)
    :param c: vector (nrc) of normalized positions along the l dimension (axis 1)
    :param nk: output size along axis 0
    :param nl: output size along axis 1
    :return: Matrix X (nk, nl, nt)
    """
    # it would be interesting to compare performance with numba straight loops (easier to write)
    # GPU/C implementation should implement straight loops
    nt = x.shape[-1]
    k, h = [
        v.flatten() for v in np.meshgrid(np.arange(nk), np.arange(nl), indexing="ij")
    ]
    # exp has dimension (kh, rc)
    exp = np.exp(
        -1j
        * 2
        * np.pi
        * (r[np.newaxis] * k[:, np.newaxis] + c[np.newaxis] * h[:, np.newaxis])
    )
    return np.matmul(exp, x).reshape((nk, nl, nt))
'''

ref = types.ModuleType("ref")
ref.__dict__.update({"np": np})
exec(compile(REFERENCE_SOURCE, "<reference>", "exec"), ref.__dict__)

warnings.simplefilter("ignore")
np.seterr(all="ignore")

N_CASES = 0
FAILURES = []


def _run(fcn, args, kwargs):
    try:
        return "ok", fcn(*args, **kwargs)
    except Exception as e:  # noqa
        return "exception", type(e)


def _same(a, b):
    if type(a) is not type(b):
        return False
    if a is None:
        return True
    if isinstance(a, (tuple, list)):
        return len(a) == len(b) and all(_same(i, j) for i, j in zip(a, b))
    if isinstance(a, (np.ndarray, np.generic)):
        if a.dtype != b.dtype or a.shape != b.shape:
            return False
        equal_nan = a.dtype.kind in "fc"
        return bool(np.array_equal(a, b, equal_nan=equal_nan))
    return a == b


def check(label, f_new, f_ref, *args, copy_args=True, **kwargs):
    """Runs both implementations on (copies of) the same arguments and records any difference"""
    global N_CASES
    N_CASES += 1

    def cp(v):
        return v.copy() if (copy_args and isinstance(v, np.ndarray)) else v

    s_new, r_new = _run(f_new, [cp(a) for a in args], {k: cp(v) for k, v in kwargs.items()})
    s_ref, r_ref = _run(f_ref, [cp(a) for a in args], {k: cp(v) for k, v in kwargs.items()})
    if s_new != s_ref or (s_new == "exception" and r_new is not r_ref) or (s_new == "ok" and not _same(r_new, r_ref)):
        if len(FAILURES) < 20:
            FAILURES.append(f"{label}: new -> {s_new} {r_new!r:.200}, reference -> {s_ref} {r_ref!r:.200}")
        else:
            FAILURES.append(label)


def rand(rng, shape, dtype):
    dtype = np.dtype(dtype)
    if dtype.kind == "c":
        return (rng.standard_normal(shape) + 1j * rng.standard_normal(shape)).astype(dtype)
    if dtype.kind in "iu":
        return rng.integers(-100 if dtype.kind == "i" else 0, 100, size=shape).astype(dtype)
    return (rng.standard_normal(shape) * 10).astype(dtype)


def test_ns_optim_fft():
    rng = np.random.default_rng(1801)
    for ns in range(0, 3000):
        check(f"ns_optim_fft({ns})", new_fourier.ns_optim_fft, ref.ns_optim_fft, ns)
    for ns in rng.integers(3000, 2 ** 40, size=300):
        check(f"ns_optim_fft({ns}) np.int64", new_fourier.ns_optim_fft, ref.ns_optim_fft, ns)
        check(f"ns_optim_fft({ns}) int", new_fourier.ns_optim_fft, ref.ns_optim_fft, int(ns))
    for a in range(25):
        for b in range(15):
            for d in (-1, 0, 1):
                check("ns_optim_fft around 2^a 3^b", new_fourier.ns_optim_fft, ref.ns_optim_fft, 2 ** a * 3 ** b + d)
    for ns in (-5, 0.5, 17.0, 1000.3, np.float32(12.5), 2 ** 24 * 3 ** 14 + 1, 2 ** 62, np.array([3, 5, 1000]), "a", None):
        check(f"ns_optim_fft({ns!r})", new_fourier.ns_optim_fft, ref.ns_optim_fft, ns)


def test_convolve():
    rng = np.random.default_rng(1802)
    dtypes = [np.float64, np.float32, np.int16, np.int64, np.float16]
    modes = ["full", "same", "valid", None, "SAME"]
    pairs = [(nsx, nsw) for nsx in range(1, 41) for nsw in range(1, 41)]
    pairs += [(int(nsx), nsw) for nsw in range(1, 301) for nsx in rng.integers(1, 301, size=6)]
    pairs += [(nsx, int(nsw)) for nsx in range(1, 301) for nsw in rng.integers(1, 301, size=3)]
    pairs += [(int(a), int(b)) for a, b in rng.integers(300, 5000, size=(40, 2))]
    pairs += [(0, 3), (3, 0), (0, 0), (1, 1)]
    for i, (nsx, nsw) in enumerate(pairs):
        dx, dw = dtypes[i % 5], dtypes[(i // 5) % 5] if i % 3 == 0 else dtypes[i % 5]
        x, w = rand(rng, nsx, dx), rand(rng, nsw, dw)
        for mode in (modes[:2] if i % 10 else modes):
            check(f"convolve 1d nsx={nsx} nsw={nsw} {mode}", new_fourier.convolve, ref.convolve, x, w, mode=mode)
    # n-dimensional signals, broadcast of a vector kernel, matching leading dimensions, impulses
    for i in range(400):
        nsx, nsw = (int(v) for v in rng.integers(1, 120, size=2))
        lead = tuple(int(v) for v in rng.integers(1, 5, size=i % 3))
        x = rand(rng, lead + (nsx,), dtypes[i % 2])
        w = rand(rng, (lead if i % 4 == 0 else ()) + (nsw,), dtypes[i % 2])
        if i % 7 == 0:
            w = np.zeros_like(w)
            w[..., int(rng.integers(0, nsw))] = 1
        for mode in modes[:2]:
            check(f"convolve nd {x.shape} {w.shape} {mode}", new_fourier.convolve, ref.convolve, x, w, mode=mode)
            check(f"convolve nd positional {x.shape} {w.shape} {mode}", new_fourier.convolve, ref.convolve, x, w, mode)
    x = rand(rng, (3, 20), np.float64)
    check("convolve non contiguous", new_fourier.convolve, ref.convolve, x[:, ::2], x[0, ::3], mode="same")
    check("convolve mismatched lead", new_fourier.convolve, ref.convolve, x, rand(rng, (2, 5), np.float64))
    check("convolve complex", new_fourier.convolve, ref.convolve, x.astype(complex), x[0, :4])
    check("convolve 0d", new_fourier.convolve, ref.convolve, np.float64(1.0), x[0, :4])
    check("convolve list", new_fourier.convolve, ref.convolve, [1.0, 2.0], x[0, :4])
    check("convolve gpu", new_fourier.convolve, ref.convolve, x, x[0, :4], gpu=True)


def test_fscale():
    rng = np.random.default_rng(1803)
    sis = [1, 1 / 30000, 0.002, 2, np.float32(0.5), 1 / 2500]
    for ns in list(range(0, 601)) + [int(v) for v in rng.integers(601, 70000, size=60)]:
        for one_sided in (False, True):
            si = sis[ns % len(sis)]
            check(f"fscale({ns}, {si}, {one_sided})", new_fourier.fscale, ref.fscale, ns, si, one_sided)
            check(f"fscale({ns}, si={si}, one_sided={one_sided})", new_fourier.fscale, ref.fscale, ns, si=si, one_sided=one_sided)
        check(f"fscale({ns})", new_fourier.fscale, ref.fscale, ns)
        check(f"fscale(np.int64({ns}))", new_fourier.fscale, ref.fscale, np.int64(ns))
        check(f"fscale(np.int32({ns}))", new_fourier.fscale, ref.fscale, np.int32(ns), one_sided=bool(ns % 2))
    for ns in (-1, -4, 7.0, 8.0, 7.5, np.float64(12), "a", None, np.array([4, 5])):
        for one_sided in (False, True, 0, 1, None):
            check(f"fscale({ns!r}, one_sided={one_sided})", new_fourier.fscale, ref.fscale, ns, one_sided=one_sided)
    check("fscale si=0", new_fourier.fscale, ref.fscale, 10, si=0)


def test_freduce_fexpand():
    rng = np.random.default_rng(1804)
    dtypes = [np.complex128, np.float64, np.complex64, np.float32, np.int32]
    for ns in range(1, 301):
        x = rand(rng, ns, dtypes[ns % 5])
        check(f"freduce 1d {ns}", new_fourier.freduce, ref.freduce, x)
        check(f"freduce 1d {ns} axis=0", new_fourier.freduce, ref.freduce, x, axis=0)
        check(f"freduce 1d {ns} axis=-1", new_fourier.freduce, ref.freduce, x, -1)
        xr = ref.freduce(np.fft.fft(rand(rng, ns, np.float64)))
        check(f"fexpand 1d {ns}", new_fourier.fexpand, ref.fexpand, xr, ns)
        check(f"fexpand 1d {ns} kw", new_fourier.fexpand, ref.fexpand, xr, ns=ns, axis=0)
        check(f"fexpand 1d {ns} np.int64", new_fourier.fexpand, ref.fexpand, xr, ns=np.int64(ns), axis=-1)
        check(f"fexpand 1d {ns} default ns", new_fourier.fexpand, ref.fexpand, xr)
        check(f"fexpand 1d {ns} float ns", new_fourier.fexpand, ref.fexpand, xr, float(ns))
        check(f"fexpand 1d {ns} wrong ns", new_fourier.fexpand, ref.fexpand, xr, ns + int(rng.integers(-3, 4)))
    for i in range(600):
        ndim = 1 + i % 3
        shape = tuple(int(v) for v in rng.integers(0 if i % 50 == 0 else 1, 40, size=ndim))
        x = rand(rng, shape, dtypes[i % 5])
        if i % 11 == 0 and ndim > 1:
            x = np.swapaxes(x, 0, -1)  # non contiguous
        if i % 13 == 0:
            x = np.asfortranarray(x)
        for axis in [None] + list(range(-x.ndim - 1, x.ndim + 1)):
            check(f"freduce {x.shape} axis={axis}", new_fourier.freduce, ref.freduce, x, axis=axis)
            if axis is None or -x.ndim <= axis < x.ndim:
                ns = x.shape[-1 if axis is None else axis]
                X = np.fft.fft(x, axis=-1 if axis is None else axis) if ns > 0 else x
                xr = ref.freduce(X, axis=axis)
                check(f"fexpand {xr.shape} ns={ns} axis={axis}", new_fourier.fexpand, ref.fexpand, xr, ns=ns, axis=axis)
            else:
                check(f"fexpand {x.shape} bad axis={axis}", new_fourier.fexpand, ref.fexpand, x, ns=4, axis=axis)
    x = rand(rng, (4, 6), np.complex128)
    for axis in (1.0, "a", (0, 1), np.int64(1), True):
        check(f"freduce axis={axis!r}", new_fourier.freduce, ref.freduce, x, axis=axis)
        check(f"fexpand axis={axis!r}", new_fourier.fexpand, ref.fexpand, x, ns=10, axis=axis)
    check("freduce 0d", new_fourier.freduce, ref.freduce, np.float64(3))
    check("freduce 0d array", new_fourier.freduce, ref.freduce, np.array(3.0))
    check("freduce list", new_fourier.freduce, ref.freduce, [1, 2, 3], axis=0)
    check("fexpand ns=None", new_fourier.fexpand, ref.fexpand, x, ns=None)
    check("fexpand ns=-3", new_fourier.fexpand, ref.fexpand, x, ns=-3)
    check("fexpand ns=0", new_fourier.fexpand, ref.fexpand, x, ns=0)


def test_fcn_cosine():
    rng = np.random.default_rng(1805)
    for i in range(400):
        b0 = float(rng.uniform(-50, 50))
        b1 = b0 + float(rng.uniform(0.01, 100)) if i % 23 else b0  # sometimes degenerate bounds
        if i % 17 == 0:
            b0, b1 = b1, b0  # reversed bounds
        bounds = [[b0, b1], (b0, b1), np.array([b0, b1]), np.array([b0, b1], dtype=np.float32), [int(b0), int(b1) + 1]][i % 5]
        shape = tuple(int(v) for v in rng.integers(1, 30, size=1 + i % 3))
        x = rng.uniform(-120, 220, size=shape)
        if i % 4 == 1:
            x = x.astype(np.float32)
        elif i % 4 == 2:
            x = np.round(x).astype(np.int64)
        elif i % 4 == 3:
            x = np.linspace(bounds[0], bounds[1], 25)  # hits both bounds exactly
        check(f"fcn_cosine({bounds!r}) {x.dtype} {x.shape}", lambda b, v: new_utils.fcn_cosine(b)(v),
              lambda b, v: ref.fcn_cosine(b)(v), bounds, x)
        check("fcn_cosine gpu=False kw", lambda b, v: new_utils.fcn_cosine(b, gpu=False)(v),
              lambda b, v: ref.fcn_cosine(b, False)(v), bounds, x)
    for x in (np.float64(3.0), 3.0, 3, [1.0, 2.0], np.array(2.5), np.array([]), np.array([np.nan, np.inf, -np.inf, 1.0])):
        check(f"fcn_cosine([1, 4])({x!r})", lambda v: new_utils.fcn_cosine([1, 4])(v), lambda v: ref.fcn_cosine([1, 4])(v), x)
    for bounds in ([1], [], None, 3, [1, 2, 3], "ab"):
        check(f"fcn_cosine({bounds!r})", lambda b: new_utils.fcn_cosine(b)(np.arange(5.0)),
              lambda b: ref.fcn_cosine(b)(np.arange(5.0)), bounds)
    check("fcn_cosine gpu", lambda: new_utils.fcn_cosine([1, 2], gpu=True), lambda: ref.fcn_cosine([1, 2], gpu=True))

    # the bounds are looked up when the returned function is called, not when it is built
    def late(mod):
        bounds = [1.0, 5.0]
        fcn = mod.fcn_cosine(bounds)
        first = fcn(np.arange(10.0))
        bounds[1] = 8.0
        return first, fcn(np.arange(10.0))
    check("fcn_cosine late binding of bounds", lambda: late(new_utils), lambda: late(ref))
    # the input array is not modified, the output is a new array
    x = np.arange(10.0)
    y = new_utils.fcn_cosine([2, 6])(x)
    if y is x or not np.array_equal(x, np.arange(10.0)):
        FAILURES.append("fcn_cosine modifies its input")
    # fourier re-exports the function it imported from utils
    check("fourier.fcn_cosine", lambda v: new_fourier.fcn_cosine([2, 6])(v), lambda v: ref.fcn_cosine([2, 6])(v), x)


def test_filters():
    rng = np.random.default_rng(1806)
    typs = ["lp", "hp", "LP", "HP", "lowpass", "highpass", "LowPass", "HighPass", "bp", "BP", "bandpass", "", "xx"]
    for i in range(300):
        ns = int(rng.integers(2, 301))
        f = ref.fscale(ns, si=0.002, one_sided=True)
        b = np.sort(rng.uniform(0, 250, size=2))
        b = [b, list(b), tuple(b)][i % 3]
        for typ in typs:
            check(f"_freq_vector ns={ns} {typ}", new_fourier._freq_vector, ref._freq_vector, f, b, typ=typ)
        check(f"_freq_vector ns={ns} default", new_fourier._freq_vector, ref._freq_vector, f, b)
        check(f"_freq_vector ns={ns} positional", new_fourier._freq_vector, ref._freq_vector, f, b, "hp")
    for typ in (None, 1, b"lp", ["lp"]):
        check(f"_freq_vector typ={typ!r}", new_fourier._freq_vector, ref._freq_vector, f, [10, 20], typ=typ)
    check("_freq_vector int f", new_fourier._freq_vector, ref._freq_vector, np.arange(20), [3, 9], typ="lp")
    dtypes = [np.float64, np.float32, np.int16, np.complex128]
    for i in range(700):
        ndim = 1 + i % 3
        shape = tuple(int(v) for v in rng.integers(1, 60 if ndim > 1 else 301, size=ndim))
        ts = rand(rng, shape, dtypes[i % 4])
        si = [0.002, 1 / 30000, 1, 1 / 2500][i % 4]
        fnyq = 1 / si / 2
        b4 = np.sort(rng.uniform(0, fnyq * 1.2, size=4))
        b4 = [b4, list(b4), tuple(b4)][i % 3]
        for axis in [None] + list(range(-ndim - 1, ndim + 1)):
            check(f"lp {shape} axis={axis}", new_fourier.lp, ref.lp, ts, si, b4[2:4], axis=axis)
            check(f"hp {shape} axis={axis}", new_fourier.hp, ref.hp, ts, si, b4[0:2], axis=axis)
            check(f"bp {shape} axis={axis}", new_fourier.bp, ref.bp, ts, si, b4, axis=axis)
            typ = typs[i % len(typs)]
            b = b4 if typ == "bp" else b4[1:3]
            check(f"_freq_filter {shape} axis={axis} {typ}", new_fourier._freq_filter, ref._freq_filter, ts, si, b, axis=axis, typ=typ)
        check(f"_freq_filter {shape} default", new_fourier._freq_filter, ref._freq_filter, ts, si, b4[:2])
        check(f"_freq_filter {shape} positional", new_fourier._freq_filter, ref._freq_filter, ts, si, b4[:2], 0, "hp")
    # impulse basis: the whole linear operator
    for ns in (1, 2, 3, 16, 27, 31, 64, 81, 97, 100):
        eye = np.eye(ns)
        b4 = [0.05, 0.1, 0.3, 0.4]
        check(f"lp impulses {ns}", new_fourier.lp, ref.lp, eye, 1, b4[2:])
        check(f"hp impulses {ns}", new_fourier.hp, ref.hp, eye, 1, b4[:2], axis=0)
        check(f"bp impulses {ns}", new_fourier.bp, ref.bp, eye, 1, b4)
    ts = rand(rng, (4, 50), np.float64)
    check("bp with 2 bounds", new_fourier.bp, ref.bp, ts, 1, [0.1, 0.2])
    check("bp with 3 bounds", new_fourier.bp, ref.bp, ts, 1, [0.1, 0.2, 0.3])
    check("lp with 1 bound", new_fourier.lp, ref.lp, ts, 1, [0.1])
    check("lp with None", new_fourier.lp, ref.lp, ts, 1, None)
    check("lp 0d", new_fourier.lp, ref.lp, np.array(1.0), 1, [0.1, 0.2])
    check("lp list", new_fourier.lp, ref.lp, [1.0, 2.0, 3.0], 1, [0.1, 0.2])
    check("lp si=0", new_fourier.lp, ref.lp, ts, 0, [0.1, 0.2])
    check("lp empty", new_fourier.lp, ref.lp, np.zeros((3, 0)), 1, [0.1, 0.2])
    check("_freq_filter typ=None", new_fourier._freq_filter, ref._freq_filter, ts, 1, [0.1, 0.2], typ=None)


def test_dft():
    rng = np.random.default_rng(1807)
    dtypes = [np.float64, np.complex128, np.float32, np.int16, np.complex64]
    for ns in range(1, 130):
        x = rand(rng, ns, dtypes[ns % 5])
        check(f"dft 1d {ns}", new_fourier.dft, ref.dft, x)
        check(f"dft 1d {ns} axis=0", new_fourier.dft, ref.dft, x, axis=0)
        check(f"dft 1d {ns} xscale", new_fourier.dft, ref.dft, x, xscale=rng.uniform(0, ns, size=ns))
        check(f"dft 1d {ns} kscale", new_fourier.dft, ref.dft, x, kscale=np.arange(int(rng.integers(1, ns + 3))))
        check(f"dft 1d {ns} positional", new_fourier.dft, ref.dft, x, np.arange(ns), -1, np.arange(ns) * 0.5)
    for i in range(300):
        ndim = 1 + i % 3
        shape = tuple(int(v) for v in rng.integers(1, 25, size=ndim))
        x = rand(rng, shape, dtypes[i % 5])
        if i % 7 == 0 and ndim > 1:
            x = np.swapaxes(x, 0, 1)
        for axis in range(-ndim - 1, ndim + 1):
            check(f"dft {x.shape} axis={axis}", new_fourier.dft, ref.dft, x, axis=axis)
            if -ndim <= axis < ndim:
                ns = x.shape[axis]
                check(f"dft {x.shape} axis={axis} scales", new_fourier.dft, ref.dft, x, xscale=np.arange(ns) + 0.25,
                      axis=axis, kscale=rng.uniform(0, ns, size=int(rng.integers(1, 12))))
    x = rand(rng, (4, 6), np.float64)
    check("dft empty", new_fourier.dft, ref.dft, np.zeros((3, 0)))
    check("dft 0d", new_fourier.dft, ref.dft, np.array(1.0))
    check("dft list", new_fourier.dft, ref.dft, [1.0, 2.0])
    check("dft bad xscale", new_fourier.dft, ref.dft, x, xscale=np.arange(5))
    check("dft list kscale", new_fourier.dft, ref.dft, x, kscale=[0, 1, 2])
    check("dft nan", new_fourier.dft, ref.dft, np.array([1.0, np.nan, 2.0]))
    for i in range(300):
        nrc, nt = (int(v) for v in rng.integers(1, 40, size=2))
        nk, nl = (int(v) for v in rng.integers(0 if i % 60 == 0 else 1, 9, size=2))
        x = rand(rng, (nrc, nt), dtypes[i % 5])
        r, c = rng.uniform(0, 1, size=nrc), rng.uniform(0, 1, size=nrc)
        if i % 5 == 0:
            r, c = (rng.integers(0, 4, size=nrc) / 4, rng.integers(0, 8, size=nrc) / 8)
        check(f"dft2 {x.shape} {nk} {nl}", new_fourier.dft2, ref.dft2, x, r, c, nk, nl)
        check(f"dft2 kw {x.shape} {nk} {nl}", new_fourier.dft2, ref.dft2, x=x, r=r, c=c, nk=nk, nl=nl)
        if i % 10 == 0:
            check(f"dft2 vector {nrc} {nk} {nl}", new_fourier.dft2, ref.dft2, x[:, 0], r, c, nk, nl)
            check(f"dft2 np.int64 sizes {nrc}", new_fourier.dft2, ref.dft2, x, r, c, np.int64(nk), np.int64(nl))
            check(f"dft2 mismatched {nrc}", new_fourier.dft2, ref.dft2, x, r[:-1], c, nk, nl)
    check("dft2 float sizes", new_fourier.dft2, ref.dft2, x, np.arange(4) / 4, np.arange(4) / 4, 2.0, 3.0)
    check("dft2 list positions", new_fourier.dft2, ref.dft2, x, [0, 0.25, 0.5, 0.75], [0, 0.25, 0.5, 0.75], 2, 3)
    check("dft2 negative sizes", new_fourier.dft2, ref.dft2, x, np.arange(4) / 4, np.arange(4) / 4, -1, 3)


def test_signatures():
    """parameter names, order and defaults are part of the behaviour"""
    import inspect
    global N_CASES
    for mod, names in ((new_fourier, ["convolve", "ns_optim_fft", "fscale", "freduce", "fexpand", "_freq_filter",
                                      "_freq_vector", "dft", "dft2", "bp", "lp", "hp"]), (new_utils, ["fcn_cosine"])):
        for name in names:
            N_CASES += 1
            p_new = [(p.name, p.kind, p.default) for p in inspect.signature(getattr(mod, name)).parameters.values()]
            p_ref = [(p.name, p.kind, p.default) for p in inspect.signature(getattr(ref, name)).parameters.values()]
            if p_new != p_ref:
                FAILURES.append(f"signature of {name}: {p_new} != {p_ref}")


if __name__ == "__main__":
    for test in (test_signatures, test_ns_optim_fft, test_convolve, test_fscale, test_freduce_fexpand, test_fcn_cosine,
                 test_filters, test_dft):
        n0, f0 = N_CASES, len(FAILURES)
        test()
        print(f"{test.__name__}: {N_CASES - n0} cases, {len(FAILURES) - f0} differences")
    print(f"sources under test: {new_fourier.__file__}, {new_utils.__file__}")
    if FAILURES:
        print(f"FAILED: {len(FAILURES)} differences out of {N_CASES} cases")
        for msg in FAILURES[:20]:
            print("  " + msg)
        sys.exit(1)
    print(f"OK: {N_CASES} cases, new and reference implementations are identical")
    sys.exit(0)
