import sys, os; sys.path.insert(0, os.path.join(os.path.dirname(os.path.abspath(__file__)), "src"))
"""
Differential equivalence check for the performance clean-up of src/ibldsp/fourier.py (property C18).

The functions under test are imported from the sources next to this file; the ORIGINAL implementation of
every function that was changed is carried below, verbatim, with a `ref_` prefix (the only edits are the
prefixed names of the changed helpers they call).  Results are compared exactly: python type, dtype, shape,
raw bytes (so that -0.0 / +0.0 and NaN payloads count), memory layout, and exception type when one is raised.
Exit status 0 if everything is identical, 1 with a message otherwise.
"""
import time
import warnings

import numpy as np

import ibldsp.fourier as fourier
from ibldsp.utils import fcn_cosine

warnings.simplefilter("ignore")
np.seterr(all="ignore")


# ----------------------------------------------------------------------------------------------------------
# verbatim copies of the original implementations
# ----------------------------------------------------------------------------------------------------------
def ref_convolve(x, w, mode="full", gpu=False):
    if gpu:
        import cupy as gp
    else:
        gp = np

    nsx = x.shape[-1]
    nsw = w.shape[-1]
    ns = ref_ns_optim_fft(nsx + nsw)
    x_ = gp.concatenate(
        (x, gp.zeros([*x.shape[:-1], ns - nsx], dtype=x.dtype)), axis=-1
    )
    w_ = gp.concatenate(
        (w, gp.zeros([*w.shape[:-1], ns - nsw], dtype=w.dtype)), axis=-1
    )
    xw = gp.real(
        gp.fft.irfft(gp.fft.rfft(x_, axis=-1) * gp.fft.rfft(w_, axis=-1), n=ns, axis=-1)
    )
    xw = xw[..., : (nsx + nsw)]  # remove 0 padding
    if mode == "full":
        return xw
    elif mode == "same":
        first = int(gp.floor(nsw / 2)) - ((nsw + 1) % 2)
        last = int(gp.ceil(nsw / 2)) + ((nsw + 1) % 2)
        return xw[..., first:-last]


def ref_ns_optim_fft(ns):
    p2, p3 = np.meshgrid(2 ** np.arange(25), 3 ** np.arange(15))
    sz = np.unique((p2 * p3).flatten())
    return sz[np.searchsorted(sz, ns)]


def ref_fscale(ns, si=1, one_sided=False):  # unchanged, copied so that the reference callers are self-contained
    fsc = np.arange(0, np.floor(ns / 2) + 1) / ns / si  # sample the frequency scale
    if one_sided:
        return fsc
    else:
        return np.concatenate((fsc, -fsc[slice(-2 + (ns % 2), 0, -1)]), axis=0)


def ref_freduce(x, axis=None):
    if axis is None:
        axis = x.ndim - 1
    siz = list(x.shape)
    siz[axis] = int(np.floor(siz[axis] / 2 + 1))
    return np.take(x, np.arange(0, siz[axis]), axis=axis)


def ref_fexpand(x, ns=1, axis=None):
    if axis is None:
        axis = x.ndim - 1
    # dec = int(ns % 2) * 2 - 1
    # xcomp = np.conj(np.flip(x[..., 1:x.shape[-1] + dec], axis=axis))
    ilast = int((ns + (ns % 2)) / 2)
    xcomp = np.conj(np.flip(np.take(x, np.arange(1, ilast), axis=axis), axis=axis))
    return np.concatenate((x, xcomp), axis=axis)


def ref__freq_vector(f, b, typ="lp"):
    filc = fcn_cosine(b)(f)
    if typ.lower() in ["hp", "highpass"]:
        return filc
    elif typ.lower() in ["lp", "lowpass"]:
        return 1 - filc


def ref_dft(x, xscale=None, axis=-1, kscale=None):
    ns = x.shape[axis]
    if xscale is None:
        xscale = np.arange(ns)
    if kscale is None:
        nk = ns if np.any(np.iscomplex(x)) else np.ceil((ns + 1) / 2)
        kscale = np.arange(nk)
    else:
        nk = kscale.size
    if axis != 0:
        # the axis of the transform always needs to be the first
        x = np.swapaxes(x, axis, 0)
    shape = np.array(x.shape)
    x = np.reshape(x, (ns, int(np.prod(x.shape) / ns)))
    # compute fourier coefficients
    exp = np.exp(-1j * 2 * np.pi / ns * xscale * kscale[:, np.newaxis])
    X = np.matmul(exp, x)
    shape[0] = int(nk)
    X = X.reshape(shape)
    if axis != 0:
        X = np.swapaxes(X, axis, 0)
    return X


def ref_dft2(x, r, c, nk, nl):
    # it would be interesting to compare performance with numba straight loops (easier to write)
    # GPU/C implementation should implement straight loops
    nt = x.shape[-1]
    k, h = [
        v.flatten() for v in np.meshgrid(np.arange(nk), np.arange(nl), indexing="ij")
    ]
    # exp has dimension (kh, rc)
    exp = np.exp(
        -1j
        * 2
        * np.pi
        * (r[np.newaxis] * k[:, np.newaxis] + c[np.newaxis] * h[:, np.newaxis])
    )
    return np.matmul(exp, x).reshape((nk, nl, nt))


# original (unchanged) callers of the changed helpers, wired to the reference helpers
def ref__freq_filter(ts, si, b, axis=None, typ="lp"):
    if axis is None:
        axis = ts.ndim - 1
    ns = ts.shape[axis]
    f = ref_fscale(ns, si=si, one_sided=True)
    if typ == "bp":
        filc = ref__freq_vector(f, b[0:2], typ="hp") * ref__freq_vector(f, b[2:4], typ="lp")
    else:
        filc = ref__freq_vector(f, b, typ=typ)
    if axis < (ts.ndim - 1):
        filc = filc[:, np.newaxis]
    return np.real(
        np.fft.ifft(np.fft.fft(ts, axis=axis) * ref_fexpand(filc, ns, axis=0), axis=axis)
    )


def ref_dephas(w, phase, axis=-1):
    ns = w.shape[axis]
    W = ref_freduce(np.fft.fft(w, axis=axis), axis=axis) * np.exp(-1j * phase / 180 * np.pi)
    return np.real(np.fft.ifft(ref_fexpand(W, ns=ns, axis=axis), axis=axis))


def ref_fit_phase(w, si=1, fmin=0, fmax=None, axis=-1):
    if fmax is None:
        fmax = 1 / si / 2
    ns = w.shape[axis]
    freqs = ref_freduce(ref_fscale(ns, si=si))
    phi = np.unwrap(np.angle(ref_freduce(np.fft.fft(w, axis=axis), axis=axis)))
    indf = np.logical_and(fmin < freqs, freqs < fmax)
    dt = (
        -np.polyfit(
            freqs[indf], np.swapaxes(phi.compress(indf, axis=axis), axis, 0), 1
        )[0]
        / np.pi
        / 2
    )
    return dt


# ----------------------------------------------------------------------------------------------------------
# exact comparison machinery
# ----------------------------------------------------------------------------------------------------------
N_CASES = {}
FAILURES = []


def _call(fun, args, kwargs):
    try:
        return "ok", fun(*args, **kwargs)
    except Exception as e:  # noqa
        return "exc", e


def _describe(v):
    if isinstance(v, np.ndarray):
        return f"ndarray{v.shape} {v.dtype} strides={v.strides}"
    return f"{type(v).__name__}: {v!r}"[:200]


def _same(a, b):
    """Exact identity of two results; returns None or the reason they differ"""
    if type(a) is not type(b):
        return f"type {type(a).__name__} != {type(b).__name__}"
    if isinstance(a, np.ndarray):
        if a.dtype != b.dtype:
            return f"dtype {a.dtype} != {b.dtype}"
        if a.shape != b.shape:
            return f"shape {a.shape} != {b.shape}"
        if not np.array_equal(a, b, equal_nan=a.dtype.kind in "fc"):
            return "values differ"
        if a.dtype.kind != "O" and a.tobytes() != b.tobytes():
            return "bit patterns differ (signed zero or nan payload)"
        if a.strides != b.strides:
            return f"strides {a.strides} != {b.strides}"
        for flag in ("c_contiguous", "f_contiguous", "writeable", "owndata"):
            if getattr(a.flags, flag) != getattr(b.flags, flag):
                return f"flag {flag}: {getattr(a.flags, flag)} != {getattr(b.flags, flag)}"
        return None
    if isinstance(a, np.generic):
        if a.dtype != b.dtype:
            return f"dtype {a.dtype} != {b.dtype}"
        return None if a.tobytes() == b.tobytes() else f"{a!r} != {b!r}"
    if isinstance(a, (tuple, list)):
        if len(a) != len(b):
            return "length"
        for u, v in zip(a, b):
            r = _same(u, v)
            if r:
                return r
        return None
    return None if a == b else f"{a!r} != {b!r}"


def check(group, new, ref, *args, **kwargs):
    N_CASES[group] = N_CASES.get(group, 0) + 1
    # each implementation gets its own copy of the inputs, and inputs must not be modified
    args_n = [a.copy(order="K") if isinstance(a, np.ndarray) else a for a in args]
    args_r = [a.copy(order="K") if isinstance(a, np.ndarray) else a for a in args]
    for a, an, ar in zip(args, args_n, args_r):
        if isinstance(a, np.ndarray):  # copy(order='K') keeps the layout of views only up to permutation
            assert an.strides == ar.strides
    sn, rn = _call(new, args_n, kwargs)
    sr, rr = _call(ref, args_r, kwargs)
    why = None
    if sn != sr:
        why = f"new -> {sn} ({_describe(rn)}), reference -> {sr} ({_describe(rr)})"
    elif sn == "exc":
        if type(rn) is not type(rr):
            why = f"exception {type(rn).__name__} != {type(rr).__name__} ({rn} / {rr})"
    else:
        why = _same(rn, rr)
    if why is None:
        for an, ar in zip(args_n, args_r):
            if isinstance(an, np.ndarray) and an.dtype.kind != "O" and an.tobytes() != ar.tobytes():
                why = "an input array was modified differently"
    if why is not None and len(FAILURES) < 25:
        FAILURES.append(f"[{group}] {why}; args=" + ", ".join(_describe(a) for a in args) + f" kwargs={kwargs}")
    elif why is not None:
        FAILURES.append(None)
    return sn, rn


def check_raw(group, new, ref, *args, **kwargs):
    """Same as check but hands the very same (possibly strided / non-contiguous) arrays to both"""
    N_CASES[group] = N_CASES.get(group, 0) + 1
    sn, rn = _call(new, args, kwargs)
    sr, rr = _call(ref, args, kwargs)
    if sn != sr:
        why = f"new -> {sn} ({_describe(rn)}), reference -> {sr} ({_describe(rr)})"
    elif sn == "exc":
        why = None if type(rn) is type(rr) else f"exception {type(rn).__name__} != {type(rr).__name__}"
    else:
        why = _same(rn, rr)
    if why is not None:
        FAILURES.append(f"[{group}] {why}; args=" + ", ".join(_describe(a) for a in args) + f" kwargs={kwargs}")


rng = np.random.default_rng(20241018)
DTYPES_REAL = [np.float64, np.float32, np.int16, np.int64, np.float16, np.uint8, bool]
DTYPES_CPLX = [np.complex128, np.complex64]


def rand_array(shape, dtype):
    dtype = np.dtype(dtype)
    if dtype.kind == "c":
        a = rng.standard_normal(shape) + 1j * rng.standard_normal(shape)
    else:
        a = rng.standard_normal(shape) * 50
    if dtype.kind == "u":
        a = np.abs(a)
    a = a.astype(dtype)
    if a.size and dtype.kind in "fc" and rng.random() < 0.15:  # special values
        flat = a.reshape(-1)
        flat[rng.integers(0, a.size)] = rng.choice([0.0, -0.0, np.nan, np.inf, -np.inf])
    return a


def layouts(a):
    """The array itself plus non C-contiguous variants with identical contents"""
    out = [a]
    if a.ndim > 1:
        out.append(np.asfortranarray(a))
    big = np.zeros(tuple(2 * s for s in a.shape), dtype=a.dtype)
    view = big[tuple(slice(None, None, 2) for _ in a.shape)]
    view[...] = a
    out.append(view)
    if a.ndim > 1:
        out.append(np.swapaxes(np.ascontiguousarray(np.swapaxes(a, 0, -1)), 0, -1))
    ro = a.copy()
    ro.flags.writeable = False
    out.append(ro)
    return out


# ----------------------------------------------------------------------------------------------------------
# ns_optim_fft
# ----------------------------------------------------------------------------------------------------------
def test_ns_optim_fft():
    g = "ns_optim_fft"
    table = ref_ns_optim_fft(np.arange(1))  # warm up
    p2, p3 = np.meshgrid(2 ** np.arange(25), 3 ** np.arange(15))
    table = np.unique((p2 * p3).flatten())
    for ns in range(-3, 4100):
        check(g, fourier.ns_optim_fft, ref_ns_optim_fft, ns)
    for v in table:  # every entry of the table and its neighbours, including the out-of-range IndexError
        for d in (-1, 0, 1):
            check(g, fourier.ns_optim_fft, ref_ns_optim_fft, int(v) + d)
    for ns in rng.integers(0, int(table[-1]) + 1000, size=300):
        check(g, fourier.ns_optim_fft, ref_ns_optim_fft, int(ns))
        check(g, fourier.ns_optim_fft, ref_ns_optim_fft, ns)  # numpy int64
    for ns in (np.int32(100), np.uint16(65535), np.float64(12.5), 7.0, 1e300, np.nan, -1e9, True,
               [5, 17, 300], (4, 4), np.array([], dtype=int), np.array([[1, 2], [1000, 70000]]),
               rng.integers(0, 10 ** 6, size=50), np.arange(20.0) * 1.5, 2 ** 70, "a", None, 1j):
        check(g, fourier.ns_optim_fft, ref_ns_optim_fft, ns)
    # results must be independent objects: writing into one must not corrupt later calls
    out = fourier.ns_optim_fft(np.array([5, 100, 1000]))
    out[:] = -1
    check(g, fourier.ns_optim_fft, ref_ns_optim_fft, np.array([5, 100, 1000]))


# ----------------------------------------------------------------------------------------------------------
# convolve
# ----------------------------------------------------------------------------------------------------------
def test_convolve():
    g = "convolve"
    # every kernel length 0..64 against several signal lengths, both modes, exhaustive parity mix
    for nsw in range(0, 65):
        for nsx in (0, 1, 2, 3, 8, 9, 31, 64, 65, 243):
            x, w = rand_array(nsx, np.float64), rand_array(nsw, np.float64)
            for mode in ("full", "same"):
                check(g, fourier.convolve, ref_convolve, x, w, mode=mode)
    # random lengths 1..300, dtypes, dimensions, layouts
    for _ in range(700):
        nsx, nsw = int(rng.integers(1, 301)), int(rng.integers(1, 301))
        dx, dw = rng.choice(DTYPES_REAL[:5]), rng.choice(DTYPES_REAL[:5])
        kind = rng.integers(0, 4)
        if kind == 0:
            sx, sw = (nsx,), (nsw,)
        elif kind == 1:
            sx, sw = (int(rng.integers(1, 5)), nsx), (nsw,)
        elif kind == 2:
            n = int(rng.integers(1, 5))
            sx, sw = (n, nsx), (n, nsw)
        else:
            sx, sw = (int(rng.integers(1, 3)), int(rng.integers(1, 4)), nsx), (1, nsw)
        x, w = rand_array(sx, dx), rand_array(sw, dw)
        mode = str(rng.choice(["full", "same", "same", "valid", "SAME"]))
        check(g, fourier.convolve, ref_convolve, x, w, mode=mode)
    for x in layouts(rand_array((3, 50), np.float32)):
        for w in layouts(rand_array((3, 7), np.float64)):
            for mode in ("full", "same"):
                check_raw(g, fourier.convolve, ref_convolve, x, w, mode=mode)
    # larger sampled lengths
    for nsx, nsw in ((5000, 301), (4097, 4096), (19683, 2), (65536, 1)):
        check(g, fourier.convolve, ref_convolve, rand_array(nsx, np.float64), rand_array(nsw, np.float32), mode="same")
    # errors: incompatible shapes, complex input, scalars, positional mode
    check(g, fourier.convolve, ref_convolve, rand_array((2, 10), float), rand_array((3, 4), float))
    check(g, fourier.convolve, ref_convolve, rand_array(10, complex), rand_array(4, float))
    check(g, fourier.convolve, ref_convolve, np.float64(3.0), rand_array(4, float))
    check(g, fourier.convolve, ref_convolve, [1.0, 2.0], rand_array(4, float))
    check(g, fourier.convolve, ref_convolve, rand_array(10, float), rand_array(4, float), "same")
    check(g, fourier.convolve, ref_convolve, rand_array(10, float), rand_array(4, float), None)


# ----------------------------------------------------------------------------------------------------------
# freduce / fexpand
# ----------------------------------------------------------------------------------------------------------
def shapes_for(n, ndim, axis):
    shape = [int(s) for s in rng.integers(1, 5, size=ndim)]
    if rng.random() < 0.1:
        shape[int(rng.integers(0, ndim))] = 0
    shape[axis] = n
    return tuple(shape)


def test_freduce_fexpand():
    g1, g2, g3 = "freduce", "fexpand", "freduce/fexpand round trip"
    # all lengths 0..300 on vectors
    for n in range(0, 301):
        x = rand_array(n, np.complex128)
        check(g1, fourier.freduce, ref_freduce, x)
        # as produced by freduce of a spectrum of ns = 2n-2 and 2n-1 samples, plus the default
        for ns in (2 * n - 2, 2 * n - 1, 1, 0, 2 * n, 2 * n + 1, n):
            check(g2, fourier.fexpand, ref_fexpand, x, ns)
    # spectra of real signals: reduction and expansion on every axis of 1-3-D arrays
    for _ in range(500):
        ndim = int(rng.integers(1, 4))
        axis = int(rng.integers(0, ndim))
        ns = int(rng.integers(1, 80))
        sig = rand_array(shapes_for(ns, ndim, axis), rng.choice([np.float64, np.float32]))
        spec = np.fft.fft(sig, axis=axis)
        for ax in {axis, axis - ndim} | ({None} if axis == ndim - 1 else set()):
            _, red = check(g3, fourier.freduce, ref_freduce, spec, axis=ax)
            if isinstance(red, np.ndarray):
                check(g3, fourier.fexpand, ref_fexpand, red, ns=ns, axis=ax)
                check(g3, fourier.fexpand, ref_fexpand, red, ns, ax)
    # arbitrary contents, dtypes, layouts, valid and invalid axes and ns
    for _ in range(500):
        ndim = int(rng.integers(1, 4))
        axis = int(rng.integers(0, ndim))
        n = int(rng.integers(0, 40))
        x = rand_array(shapes_for(n, ndim, axis), rng.choice(DTYPES_REAL + DTYPES_CPLX))
        for xx in layouts(x):
            ax = [axis, axis - ndim, None, ndim, -ndim - 1, 7][int(rng.choice(6, p=[.35, .35, .15, .05, .05, .05]))]
            check_raw(g1, fourier.freduce, ref_freduce, xx, ax)
            ns = rng.choice([int(rng.integers(-5, 2 * n + 6)), 2 * n - 2, 2 * n - 1, float(rng.integers(0, 2 * n + 2)),
                             np.int64(rng.integers(0, 2 * n + 2))])
            check_raw(g2, fourier.fexpand, ref_fexpand, xx, ns, ax)
            check_raw(g2, fourier.fexpand, ref_fexpand, xx, axis=ax)
    # 0-d, object, structured, big
    for x in (np.array(3.0 + 1j), np.array([1, 2 + 1j, "a", None], dtype=object)[:2],
              np.zeros(5, dtype=[("a", "f4"), ("b", "i2")]), rand_array((4, 100001), np.complex64),
              rand_array((100000, 3), np.complex128), rand_array(7, ">f8"), rand_array(7, ">c16")):
        for ax in (None, 0, -1):
            check(g1, fourier.freduce, ref_freduce, x, ax)
            for ns in (1, 6, 7, 200000, 199999):
                check(g2, fourier.fexpand, ref_fexpand, x, ns, ax)
    # the results are fresh arrays: writing into them must leave the input alone
    x = rand_array((3, 8), np.complex128)
    x0 = x.copy()
    fourier.freduce(x)[...] = 0
    fourier.fexpand(x, 14)[...] = 0
    fourier.freduce(x, axis=0)[...] = 0
    fourier.freduce(x[:, :1])[...] = 0
    N_CASES[g1] += 1
    if x.tobytes() != x0.tobytes():
        FAILURES.append("[freduce] result aliases its input")


# ----------------------------------------------------------------------------------------------------------
# _freq_vector and the lp / hp / bp filters, dephas, fit_phase (callers of the changed helpers)
# ----------------------------------------------------------------------------------------------------------
def test_filters():
    g = "_freq_vector"
    for _ in range(300):
        n = int(rng.integers(0, 200))
        f = ref_fscale(max(n, 1), si=float(rng.choice([1, 0.002, 1 / 30000])), one_sided=True)
        if rng.random() < 0.2:
            f = rand_array(n, rng.choice([np.float64, np.float32, np.int64]))
        b = sorted(rng.random(2) * (f.max() if f.size and np.isfinite(f.max()) else 1))
        if rng.random() < 0.1:
            b = [b[0], b[0]]  # degenerate: ZeroDivisionError / nan as before
        if rng.random() < 0.2:
            b = np.array(b)
        if rng.random() < 0.1:
            b = [int(v * 10) for v in b]
        typ = rng.choice(["lp", "hp", "LP", "Hp", "lowpass", "HighPass", "LOWPASS", "bp", "", "low"])
        check(g, fourier._freq_vector, ref__freq_vector, f, b, typ=str(typ))
    f = ref_fscale(50, one_sided=True)
    for typ in (None, 3, b"lp", np.str_("HP"), ["lp"]):
        check(g, fourier._freq_vector, ref__freq_vector, f, [0.1, 0.2], typ=typ)
    check(g, fourier._freq_vector, ref__freq_vector, f, [0.1, 0.2])
    check(g, fourier._freq_vector, ref__freq_vector, f, [0.1], typ=None)  # bounds fail before typ is looked at
    check(g, fourier._freq_vector, ref__freq_vector, 0.15, [0.1, 0.2], typ=None)

    g = "lp/hp/bp"
    for n in range(1, 301):  # every length
        ts = rand_array(n, np.float64)
        for typ, b in (("lp", [0.1, 0.2]), ("hp", [0.1, 0.2]), ("bp", [0.05, 0.1, 0.2, 0.3])):
            check(g, fourier._freq_filter, ref__freq_filter, ts, 1, b, typ=typ)
    for _ in range(300):
        ndim = int(rng.integers(1, 4))
        axis = int(rng.integers(0, ndim))
        ns = int(rng.integers(1, 70))
        ts = rand_array(shapes_for(ns, ndim, axis), rng.choice([np.float64, np.float32, np.int16, np.complex128]))
        si = float(rng.choice([1, 0.002, 1 / 30000]))
        c = np.sort(rng.random(4)) / si / 2
        ax = [axis, None, axis - ndim][int(rng.integers(0, 3))]
        new, b = [(fourier.lp, c[:2]), (fourier.hp, c[1:3]), (fourier.bp, c)][int(rng.integers(0, 3))]
        typ = {fourier.lp: "lp", fourier.hp: "hp", fourier.bp: "bp"}[new]
        check(g, lambda ts, si, b, axis: new(ts, si, b, axis=axis),
              lambda ts, si, b, axis: ref__freq_filter(ts, si, b, axis=axis, typ=typ), ts, si, list(b), ax)
    # full impulse basis: the filters are linear operators
    for ns in (1, 2, 3, 16, 27, 31, 64):
        eye = np.eye(ns)
        for axis in (0, 1):
            check(g, fourier._freq_filter, ref__freq_filter, eye, 0.5, [0.2, 0.4], axis=axis, typ="lp")
            check(g, fourier._freq_filter, ref__freq_filter, eye, 0.5, [0.2, 0.4], axis=axis, typ="hp")
            check(g, fourier._freq_filter, ref__freq_filter, eye, 0.5, [0.1, 0.2, 0.4, 0.6], axis=axis, typ="bp")

    g = "dephas/fit_phase"
    for _ in range(200):
        ndim = int(rng.integers(1, 3))
        axis = int(rng.integers(0, ndim))
        ns = int(rng.integers(1, 90))
        w = rand_array(shapes_for(ns, ndim, axis), rng.choice([np.float64, np.float32]))
        check(g, fourier.dephas, ref_dephas, w, float(rng.integers(-180, 180)), axis=axis)
        if ndim == 1 or axis == ndim - 1:
            check(g, fourier.fit_phase, ref_fit_phase, w, si=0.002, axis=axis)


# ----------------------------------------------------------------------------------------------------------
# dft / dft2
# ----------------------------------------------------------------------------------------------------------
def test_dft():
    g = "dft"
    for ns in range(0, 121):  # every length, real and complex
        check(g, fourier.dft, ref_dft, rand_array(ns, np.float64))
        check(g, fourier.dft, ref_dft, rand_array(ns, np.complex128))
    for _ in range(400):
        ndim = int(rng.integers(1, 4))
        axis = int(rng.integers(0, ndim))
        ns = int(rng.integers(1, 50))
        dtype = rng.choice(DTYPES_REAL + DTYPES_CPLX)
        x = rand_array(shapes_for(ns, ndim, axis), dtype)
        if np.dtype(dtype).kind == "c":
            r = rng.random()
            if r < 0.3:
                x = x.real.astype(dtype)  # complex dtype, purely real contents: positive wavenumbers only
            elif r < 0.4:
                x = x.real.astype(dtype)
                if x.size:
                    x.reshape(-1)[-1] += 1e-30j  # a single tiny imaginary part
            elif r < 0.5:
                x = (x.real + 1j * np.where(rng.random(x.shape) < 0.5, 0.0, -0.0)).astype(dtype)
        kw = {}
        if rng.random() < 0.3:
            kw["xscale"] = np.sort(rng.random(ns)) * ns
        if rng.random() < 0.3:
            kw["kscale"] = np.arange(int(rng.integers(0, ns + 3))) * float(rng.choice([1, 0.5]))
        ax = [axis, axis - ndim][int(rng.integers(0, 2))]
        for xx in layouts(x)[:3]:
            check_raw(g, fourier.dft, ref_dft, xx, axis=ax, **kw)
    check(g, fourier.dft, ref_dft, np.array(["a", "b"]))
    check(g, fourier.dft, ref_dft, np.array([1, 2 + 1j, 3], dtype=object))
    check(g, fourier.dft, ref_dft, np.array([1, 2, 3], dtype=object))
    check(g, fourier.dft, ref_dft, np.float64(1.0))
    check(g, fourier.dft, ref_dft, rand_array((3, 4), float), axis=2)

    g = "dft2"
    for _ in range(400):
        nrc = int(rng.integers(0, 40))
        nt = int(rng.integers(0, 12))
        nk, nl = int(rng.integers(0, 9)), int(rng.integers(0, 9))
        x = rand_array((nrc, nt), rng.choice([np.float64, np.float32, np.int16, np.complex128]))
        p = rng.random()
        if p < 0.5:  # normalised positions on a regular grid
            gk, gl = max(nk, 1), max(nl, 1)
            r = rng.integers(0, gk, size=nrc) / gk
            c = rng.integers(0, gl, size=nrc) / gl
        elif p < 0.8:  # irregular positions
            r, c = rng.random(nrc), rng.standard_normal(nrc)
        elif p < 0.9:  # other dtypes
            r, c = rng.random(nrc).astype(np.float32), rng.integers(-3, 4, size=nrc)
        else:
            r, c = rng.integers(-3, 4, size=nrc), rng.integers(-3, 4, size=nrc).astype(np.int16)
        if rng.random() < 0.1 and nrc:
            r[0] = rng.choice([0, -0.0, np.inf, np.nan]) if r.dtype.kind == "f" else 0
        check(g, fourier.dft2, ref_dft2, x, r, c, nk, nl)
        if rng.random() < 0.2:
            check_raw(g, fourier.dft2, ref_dft2, np.asfortranarray(x), r[::-1], c[::-1], np.int64(nk), nl)
    # a regular grid: the 2-D dft equals the fft (sizes of a small Neuropixel-like layout), 1-D x, bad shapes
    rr, cc = [v.flatten() for v in np.meshgrid(np.arange(12) / 12, np.arange(4) / 4, indexing="ij")]
    check(g, fourier.dft2, ref_dft2, rand_array((48, 30), np.float64), rr, cc, 12, 4)
    check(g, fourier.dft2, ref_dft2, rand_array((1,), np.float64), rr[:1], cc[:1], 3, 2)
    check(g, fourier.dft2, ref_dft2, rand_array((5,), np.float64), rr[:5], cc[:5], 3, 2)
    check(g, fourier.dft2, ref_dft2, rand_array((5, 2), np.float64), rr[:4], cc[:4], 3, 2)
    check(g, fourier.dft2, ref_dft2, rand_array((5, 2), np.float64), rr[:5], cc[:4], 3, 2)
    check(g, fourier.dft2, ref_dft2, rand_array((5, 2), np.float64), rr[:5], cc[:1], 3, 2)
    check(g, fourier.dft2, ref_dft2, rand_array((5, 2), np.float64), rr[:5], cc[:5], 3.0, 2)
    check(g, fourier.dft2, ref_dft2, rand_array((5, 2), np.float64), rr[:5], cc[:5], -1, 2)
    check(g, fourier.dft2, ref_dft2, rand_array((5, 2), np.float64), list(rr[:5]), cc[:5], 3, 2)
    check(g, fourier.dft2, ref_dft2, rand_array((384, 64), np.float32), rng.random(384), rng.random(384), 48, 8)


def timing():
    """Informative only: not part of the verdict"""
    def best(fun, *a, rep=7, **k):
        t = []
        for _ in range(rep):
            t0 = time.perf_counter()
            fun(*a, **k)
            t.append(time.perf_counter() - t0)
        return min(t) * 1e3
    x, w = rand_array((4, 300), np.float32), rand_array(40, np.float32)
    spec = np.fft.fft(rand_array((384, 4096), np.float64))
    red = ref_freduce(spec)
    r, c = rng.random(384), rng.random(384)
    xs = rand_array((384, 16), np.float64)
    big = rand_array((1000, 300), np.float64)
    rows = [
        ("ns_optim_fft(1234)", best(fourier.ns_optim_fft, 1234), best(ref_ns_optim_fft, 1234)),
        ("convolve (4,300)*(40,)", best(fourier.convolve, x, w, mode="same"), best(ref_convolve, x, w, mode="same")),
        ("freduce (384,4096)", best(fourier.freduce, spec), best(ref_freduce, spec)),
        ("freduce (384,4096) axis=0", best(fourier.freduce, spec, axis=0), best(ref_freduce, spec, axis=0)),
        ("fexpand (384,2049)", best(fourier.fexpand, red, 4096), best(ref_fexpand, red, 4096)),
        ("lp (384,4096)", best(fourier.lp, spec.real, 1 / 30000, [300, 600]),
         best(ref__freq_filter, spec.real, 1 / 30000, [300, 600], typ="lp")),
        ("dft2 (384,16) 48x8", best(fourier.dft2, xs, r, c, 48, 8), best(ref_dft2, xs, r, c, 48, 8)),
        ("dft real (1000,300) axis 0", best(fourier.dft, big, axis=0, rep=2), best(ref_dft, big, axis=0, rep=2)),
    ]
    print("timings, ms (imported sources / original reference):")
    for name, tn, tr in rows:
        print(f"  {name:32s} {tn:10.3f} {tr:10.3f}")


if __name__ == "__main__":
    t0 = time.time()
    print("sources under test:", fourier.__file__)
    for t in (test_ns_optim_fft, test_convolve, test_freduce_fexpand, test_filters, test_dft):
        t()
    for k, v in N_CASES.items():
        print(f"  {k:32s} {v:6d} inputs compared")
    print(f"total {sum(N_CASES.values())} inputs in {time.time() - t0:.1f} s")
    if FAILURES:
        print(f"DIFFERENCES FOUND: {len(FAILURES)}")
        for f in FAILURES:
            if f:
                print("  " + f)
        sys.exit(1)
    timing()
    print("all results identical (type, dtype, shape, bits, layout, exception type)")
    sys.exit(0)
