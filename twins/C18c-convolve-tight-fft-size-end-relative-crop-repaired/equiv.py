import sys, os; sys.path.insert(0, os.path.join(os.path.dirname(os.path.abspath(__file__)), "src"))
"""
C18: FFT convolution equals direct convolution in 'full' and 'same' modes for every pair of lengths.

Oracle: the definition, y[n] = sum_k x[k] w[n - k] (np.convolve), and for 'same' the nsx samples of the
full convolution starting at (nsw - 1) // 2, which is also what np.convolve(mode='same') returns.
The library's 'full' output is allowed to carry trailing zero padding, nothing else.
"""
import numpy as np

from ibldsp import fourier

rng = np.random.default_rng(18)
problems = []


def check(nsx, nsw):
    x = rng.standard_normal((3, nsx))
    w = rng.standard_normal(nsw)
    direct = np.stack([np.convolve(row, w) for row in x])  # (3, nsx + nsw - 1)
    first = (nsw - 1) // 2
    same = direct[:, first:first + nsx]
    assert np.allclose(same[0], np.convolve(x[0], w, mode="same"))  # the oracle agrees with numpy's own 'same'

    full_ = fourier.convolve(x, w, mode="full")
    nd = direct.shape[-1]
    if full_.shape[-1] < nd or not np.allclose(full_[:, :nd], direct) or not np.allclose(full_[:, nd:], 0):
        problems.append(f"full  nsx={nsx:4d} nsw={nsw:3d}: shape {full_.shape}, direct convolution has {direct.shape}")

    same_ = fourier.convolve(x, w, mode="same")
    if same_.shape != same.shape:
        problems.append(
            f"same  nsx={nsx:4d} nsw={nsw:3d}: returned {same_.shape[-1]} samples instead of {nsx}"
            f" (nsx + nsw - 1 = {nsx + nsw - 1})")
    elif not np.allclose(same_, same):
        problems.append(f"same  nsx={nsx:4d} nsw={nsw:3d}: max error {np.max(np.abs(same_ - same)):.3g}")


# every pair of lengths up to 64, then the pair of the unit test and a few larger ones
for nsx in range(1, 65):
    for nsw in range(1, nsx + 1):
        check(nsx, nsw)
for nsx, nsw in [(500, 25), (500, 24), (1000, 25), (1000, 24), (2000, 49), (2025, 24), (30000, 601)]:
    check(nsx, nsw)

# the output length of 'same' must not depend on the contents nor on the kernel length
lengths = {nsw: fourier.convolve(np.ones((1, 1000)), np.hanning(nsw), mode="same").shape[-1] for nsw in range(20, 30)}
if set(lengths.values()) != {1000}:
    problems.append(f"same  nsx=1000: output length per kernel length {lengths}")

if problems:
    print(f"C18 violated: fourier.convolve differs from the direct convolution for {len(problems)} cases, first ones:")
    for p in problems[:12]:
        print("  " + p)
    sys.exit(1)
print("C18 holds: fourier.convolve equals the direct convolution in 'full' and 'same' modes for all lengths tried")
sys.exit(0)
