import sys, os; sys.path.insert(0, os.path.join(os.path.dirname(os.path.abspath(__file__)), "src"))
"""
C18 - the fast-size helper must return the smallest number of the form 2^a 3^b that is not
below its argument, for every length (including the lengths whose padded size is a power of 3)

Oracle: the definition itself - walk up from n until a number with no prime factor other than
2 and 3 is met.  The FFT convolution built on the helper is checked against numpy.convolve too
(it has to stay a linear convolution whatever the padded size).
"""
import numpy as np

from ibldsp import fourier


def is_2a3b(n):
    for p in (2, 3):
        while n % p == 0:
            n //= p
    return n == 1


def smallest_fast_size(n):
    m = max(int(n), 1)
    while not is_2a3b(m):
        m += 1
    return m


errors = []

# 1) the helper against its definition: all lengths 1..300 and larger sampled lengths
lengths = list(range(1, 301)) + [3 ** b + d for b in range(6, 13) for d in (-1, 0, 1)]
lengths += list(np.random.default_rng(18).integers(301, 200_000, 400))
wrong = []
for n in lengths:
    got, expected = int(fourier.ns_optim_fft(n)), smallest_fast_size(n)
    if got != expected:
        wrong.append((int(n), got, expected))
if wrong:
    errors.append(
        f"ns_optim_fft is not the smallest 2^a 3^b >= ns for {len(wrong)} of {len(lengths)} lengths, "
        f"(ns, returned, smallest): {wrong[:8]} ..."
    )

# 2) through the caller: the padded size used for signal + kernel lengths summing to a power of 3
rng = np.random.default_rng(0)
for nsx, nsw in ((20, 7), (70, 11), (230, 13)):  # 27, 81, 243
    x, w = rng.standard_normal((2, nsx)), rng.standard_normal(nsw)
    ns_pad = int(fourier.ns_optim_fft(nsx + nsw))
    if ns_pad != nsx + nsw:
        errors.append(f"convolve({nsx}, {nsw}): padded FFT size is {ns_pad} whereas {nsx + nsw} = 3^b is itself a fast size")
    full = fourier.convolve(x, w, mode="full")
    same = fourier.convolve(x, w, mode="same")
    ref = np.stack([np.convolve(x_, w) for x_ in x])
    first = (nsw - 1) // 2
    if full.shape[-1] != nsx + nsw or not np.allclose(full[..., :-1], ref) or not np.allclose(full[..., -1], 0):
        errors.append(f"convolve({nsx}, {nsw}, 'full') differs from the direct convolution")
    if same.shape[-1] != nsx or not np.allclose(same, ref[..., first:first + nsx]):
        errors.append(f"convolve({nsx}, {nsw}, 'same') differs from the direct convolution")

if errors:
    print("C18 VIOLATED")
    for e in errors:
        print(" -", e)
    sys.exit(1)
print("C18 holds: ns_optim_fft is the smallest 2^a 3^b size for all tested lengths, convolve equals the direct convolution")
sys.exit(0)
