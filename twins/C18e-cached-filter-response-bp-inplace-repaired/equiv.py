import sys, os; sys.path.insert(0, os.path.join(os.path.dirname(os.path.abspath(__file__)), "src"))  # noqa
"""
C18: low-pass plus high-pass with the same corners is the identity, band-pass is the product of
the high-pass and low-pass responses - whatever was filtered before.

Oracle: the filters are linear and shift invariant, so filtering the full impulse basis (identity
matrix) and taking the FFT of each output gives the frequency response, which is compared to the
cosine taper written out from its definition with plain NumPy.
"""
import numpy as np

from ibldsp import fourier

SI = 0.002
CORNERS_HP = [20.0, 40.0]
CORNERS_LP = [100.0, 150.0]
CORNERS_BP = CORNERS_HP + CORNERS_LP


def taper(f, b):
    """cosine soft threshold from its definition: 0 below b[0], 1 above b[1]"""
    f = np.abs(f)
    y = (1 - np.cos((f - b[0]) / (b[1] - b[0]) * np.pi)) / 2
    y[f <= b[0]] = 0
    y[f >= b[1]] = 1
    return y


def response(func, ns, b):
    """measured frequency response: filter every impulse, the filter has to be diagonal in Fourier domain"""
    out = func(np.eye(ns), SI, b)  # row i is the response to an impulse at sample i
    # circulant matrix: F C F^-1 is diagonal and holds the frequency response
    F = np.fft.fft(np.eye(ns))
    D = F @ out.T @ np.linalg.inv(F)
    offdiag = np.max(np.abs(D - np.diag(np.diag(D))))
    return np.diag(D), offdiag


errors = []
for ns in (81, 96, 125):  # odd (power of three), even, odd
    freqs = np.fft.fftfreq(ns, SI)
    expected = {
        "hp": taper(freqs, CORNERS_HP),
        "lp": 1 - taper(freqs, CORNERS_LP),
    }
    expected["bp"] = expected["hp"] * expected["lp"]
    rng = np.random.default_rng(ns)
    x = rng.standard_normal((3, ns))
    # history: high-pass, band-pass sharing the low corners, then high-pass, low-pass and band-pass again
    sequence = [
        ("hp", fourier.hp, CORNERS_HP),
        ("bp", fourier.bp, CORNERS_BP),
        ("hp", fourier.hp, CORNERS_HP),
        ("lp", fourier.lp, CORNERS_LP),
        ("bp", fourier.bp, CORNERS_BP),
    ]
    for icall, (typ, func, b) in enumerate(sequence):
        H, offdiag = response(func, ns, b)
        err = np.max(np.abs(H - expected[typ]))
        if err > 1e-9 or offdiag > 1e-9:
            errors.append(
                f"ns={ns} call #{icall} {typ}{b}: frequency response differs from the cosine taper "
                f"definition by {err:.3g} (off diagonal {offdiag:.3g})"
            )
    # low-pass plus high-pass with the same corners is the identity
    ident = fourier.lp(x, SI, CORNERS_HP) + fourier.hp(x, SI, CORNERS_HP)
    err = np.max(np.abs(ident - x))
    if err > 1e-9:
        errors.append(f"ns={ns}: lp + hp with corners {CORNERS_HP} is not the identity, max error {err:.3g}")
    # band-pass is high-pass followed by low-pass
    err = np.max(np.abs(fourier.bp(x, SI, CORNERS_BP) - fourier.lp(fourier.hp(x, SI, CORNERS_HP), SI, CORNERS_LP)))
    if err > 1e-9:
        errors.append(f"ns={ns}: bp differs from lp(hp(.)) with the same corners, max error {err:.3g}")

if errors:
    print("C18 violated: frequency filters depend on the calls made before")
    print("\n".join(errors))
    sys.exit(1)
print("ok: lp + hp is the identity and bp is the product of hp and lp for every call of the sequence")
sys.exit(0)
