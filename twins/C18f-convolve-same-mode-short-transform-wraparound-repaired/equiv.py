import sys, os; sys.path.insert(0, os.path.join(os.path.dirname(os.path.abspath(__file__)), "src"))
"""
C18: FFT convolution must equal the direct (textbook) convolution in 'full' and 'same' modes
for every pair of signal / kernel lengths.  The oracle is numpy.convolve (direct summation).
"""
import numpy as np

from ibldsp import fourier

rng = np.random.default_rng(18)
NMAX = 160
xs = rng.standard_normal(NMAX + 1)
ws = rng.standard_normal(NMAX + 1) + 0.5  # no vanishing end samples
bad = []


def direct(x, w, mode):
    full = np.convolve(x, w, mode="full")  # nsx + nsw - 1 samples
    if mode == "full":
        return full
    first = (w.size - 1) // 2  # centered window of nsx samples, as numpy 'same' for nsx >= nsw
    return full[first:first + x.size]


def check(x, w, mode):
    c = fourier.convolve(x, w, mode=mode)
    ref = direct(x, w, mode)
    if mode == "full":
        c = c[..., :ref.size]
    if c.shape[-1] != ref.size:
        bad.append((x.shape[-1], w.size, mode, "shape %s" % (c.shape,), np.nan))
        return
    err = np.max(np.abs(c - ref))
    if not err < 1e-9 * (1 + np.max(np.abs(ref))):
        i = int(np.argmax(np.abs(c - ref)))
        bad.append((x.shape[-1], w.size, mode, "sample %d: got %.6g expected %.6g" % (i, c[i], ref[i]), err))


for nsx in range(1, NMAX + 1):
    for nsw in range(1, NMAX + 1):
        for mode in ("full", "same"):
            check(xs[:nsx], ws[:nsw], mode)

# larger sampled lengths, including pairs for which nsx + nsw // 2 sits just above a 2^a 3^b size
for nsx, nsw in [(500, 25), (500, 24), (500, 26), (1000, 50), (1000, 49), (2037, 24), (2048, 33),
                 (6550, 24), (30000, 1501), (32756, 26)]:
    x = rng.standard_normal(nsx)
    w = rng.standard_normal(nsw) + 0.5
    for mode in ("full", "same"):
        check(x, w, mode)

# linear operator on the full impulse basis, 2-D broadcast, for one of the lengths above
nsx, nsw = 10, 6
w = np.arange(1, nsw + 1, dtype=float)
c = fourier.convolve(np.eye(nsx), w, mode="same")
ref = np.array([direct(e, w, "same") for e in np.eye(nsx)])
if not np.allclose(c, ref, atol=1e-9):
    i, j = np.unravel_index(np.argmax(np.abs(c - ref)), c.shape)
    bad.append((nsx, nsw, "same", "impulse %d -> sample %d: got %.6g expected %.6g" % (i, j, c[i, j], ref[i, j]),
                np.max(np.abs(c - ref))))

# fast size helper: smallest 2^a 3^b not below its argument
smooth = sorted({2 ** a * 3 ** b for a in range(20) for b in range(13)})
for n in list(range(1, 3000)) + [65532, 65536, 65537, 531441]:
    exp = next(s for s in smooth if s >= n)
    if int(fourier.ns_optim_fft(n)) != exp:
        bad.append((n, 0, "ns_optim_fft", "got %d expected %d" % (fourier.ns_optim_fft(n), exp), np.nan))

if bad:
    print("C18 BROKEN: fourier.convolve / ns_optim_fft differ from the definition in %d cases" % len(bad))
    for nsx, nsw, mode, msg, err in bad[:12]:
        print("  nsx=%d nsw=%d mode=%s: %s (max abs err %.3g)" % (nsx, nsw, mode, msg, err))
    modes = sorted({b[2] for b in bad})
    print("  modes affected: %s; kernel lengths parity: %s" % (modes, sorted({b[1] % 2 for b in bad})))
    sys.exit(1)
print("C18 holds: FFT convolution equals direct convolution for all tested lengths")
sys.exit(0)
