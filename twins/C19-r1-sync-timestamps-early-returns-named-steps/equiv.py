import sys, os; sys.path.insert(0, os.path.join(os.path.dirname(os.path.abspath(__file__)), "src"))
"""
Differential equivalence check for the clean-up of ibldsp.utils.sync_timestamps (with its nested
_interp_fcn) and ibldsp.utils.parabolic_max.

The ORIGINAL implementations are carried below verbatim (only renamed ref_*; the reference
sync_timestamps calls the reference parabolic_max), so this script exits 0 with and without the patch.
Exit code 0: every result identical (values, dtypes, shapes, exception types); 1 otherwise.
"""
import warnings

import numpy as np
import scipy
import scipy.interpolate
import scipy.signal

import ibldsp.utils as U

warnings.simplefilter("ignore")

# --------------------------------------------------------------------------------------
# verbatim copies of the original implementations
# --------------------------------------------------------------------------------------


def ref_sync_timestamps(tsa, tsb, tbin=0.1, return_indices=False, linear=False):
    """
    Sync two arrays of time stamps
    :param tsa: vector of timestamps
    :param tsb: vector of timestamps
    :param tbin: time bin length
    :param return_indices (bool), if True returns 2 sets of indices for tsa and tsb with
    :param linear: (bool) if True, restricts the fit to linear
    identified matches
    :return:
     function: interpolation function such as fnc(tsa) = tsb
     float: drift in ppm
     numpy array: of indices ia
     numpy array: of indices ib
    """

    def _interp_fcn(tsa, tsb, ib, linear=linear):
        # now compute the bpod/fpga drift and precise time shift
        ab = np.polyfit(tsa[ib >= 0], tsb[ib[ib >= 0]] - tsa[ib >= 0], 1)
        drift_ppm = ab[0] * 1e6
        if linear:
            fcn_a2b = lambda x: x * (1 + ab[0]) + ab[1]  # noqa
        else:
            fcn_a2b = scipy.interpolate.interp1d(
                tsa[ib >= 0], tsb[ib[ib >= 0]], fill_value="extrapolate"
            )
        return fcn_a2b, drift_ppm

    # assert sorted inputs
    tmin = np.min([np.min(tsa), np.min(tsb)])
    tmax = np.max([np.max(tsa), np.max(tsb)])
    # brute force correlation to get an estimate of the delta_t between series
    x = np.zeros(int(np.ceil(tmax - tmin) / tbin))
    y = np.zeros_like(x)
    x[np.int32(np.floor((tsa - tmin) / tbin))] = 1
    y[np.int32(np.floor((tsb - tmin) / tbin))] = 1
    delta_t = (
        ref_parabolic_max(scipy.signal.correlate(x, y, mode="full"))[0] - x.shape[0] + 1
    ) * tbin
    # do a first assignment at a DT threshold
    ib = np.zeros(tsa.shape, dtype=np.int32) - 1
    threshold = tbin
    for m in np.arange(tsa.shape[0]):
        dt = np.abs(tsa[m] - delta_t - tsb)
        inds = np.where(dt < threshold)[0]
        if inds.size == 1:
            ib[m] = inds[0]
        elif inds.size > 1:
            candidates = inds[~np.isin(inds, ib[:m])]
            if candidates.size == 1:
                ib[m] = candidates[0]
            elif candidates.size > 1:
                ib[m] = inds[np.argmin(dt[inds])]

    fcn_a2b, _ = _interp_fcn(tsa, tsb, ib)
    # do a second assignment - this time a full matrix of candidate matches is computed
    # the most obvious matches are assigned first and then one by one
    iamiss = np.where(ib < 0)[0]
    ibmiss = np.setxor1d(np.arange(tsb.size), ib[ib >= 0])
    dt = np.abs(fcn_a2b(tsa[iamiss]) - tsb[ibmiss][:, np.newaxis])
    dt[dt > tbin] = np.nan
    while ~np.all(np.isnan(dt)):
        _b, _a = np.unravel_index(np.nanargmin(dt), dt.shape)
        ib[iamiss[_a]] = ibmiss[_b]
        dt[:, _a] = np.nan
        dt[_b, :] = np.nan
    fcn_a2b, drift_ppm = _interp_fcn(tsa, tsb, ib, linear=linear)

    if return_indices:
        return fcn_a2b, drift_ppm, np.where(ib >= 0)[0], ib[ib >= 0]
    else:
        return fcn_a2b, drift_ppm


def ref_parabolic_max(x):
    """
    Maximum picking with parabolic interpolation around the maxima
    :param x: 1d or 2d array
    :return: interpolated max index, interpolated max
    """
    # for 2D arrays, operate along the last dimension
    ns = x.shape[-1]
    axis = -1
    imax = np.argmax(x, axis=axis)

    if x.ndim == 1:
        v010 = x[np.maximum(np.minimum(imax + np.array([-1, 0, 1]), ns - 1), 0)]
        v010 = v010[:, np.newaxis]
    else:
        v010 = np.vstack(
            (
                x[..., np.arange(x.shape[0]), np.maximum(imax - 1, 0)],
                x[..., np.arange(x.shape[0]), imax],
                x[..., np.arange(x.shape[0]), np.minimum(imax + 1, ns - 1)],
            )
        )
    poly = np.matmul(0.5 * np.array([[1, -2, 1], [-1, 0, 1], [0, 2, 0]]), v010)
    ipeak = -poly[1] / (poly[0] + np.double(poly[0] == 0)) / 2
    maxi = poly[2] + ipeak * poly[1] + ipeak**2.0 * poly[0]
    ipeak += imax
    # handle edges
    iedges = np.logical_or(imax == 0, imax == ns - 1)
    if x.ndim == 1:
        maxi = v010[1, 0] if iedges else maxi[0]
        ipeak = imax if iedges else ipeak[0]
    else:
        maxi[iedges] = v010[1, iedges]
        ipeak[iedges] = imax[iedges]
    return ipeak, maxi


# --------------------------------------------------------------------------------------
# comparison helpers
# --------------------------------------------------------------------------------------
FAILURES = []
NCHECKS = 0


def same(a, b):
    """exact equality: type, dtype, shape, values (nan == nan)"""
    if isinstance(a, tuple) or isinstance(b, tuple):
        return (
            type(a) is type(b)
            and len(a) == len(b)
            and all(same(i, j) for i, j in zip(a, b))
        )
    if type(a) is not type(b):
        return False
    a_, b_ = np.asarray(a), np.asarray(b)
    if a_.dtype != b_.dtype or a_.shape != b_.shape:
        return False
    return bool(np.array_equal(a_, b_, equal_nan=a_.dtype.kind in "fc"))


def call(fcn, *args, **kwargs):
    try:
        return "ok", fcn(*args, **kwargs)
    except Exception as e:  # noqa
        return "exc", type(e)


def check(label, out_ref, out_new, cmp):
    global NCHECKS
    NCHECKS += 1
    if out_ref[0] != out_new[0]:
        FAILURES.append(f"{label}: reference -> {out_ref}, refactored -> {out_new}")
    elif out_ref[0] == "exc":
        if out_ref[1] is not out_new[1]:
            FAILURES.append(f"{label}: exception {out_ref[1]} vs {out_new[1]}")
    else:
        msg = cmp(out_ref[1], out_new[1])
        if msg:
            FAILURES.append(f"{label}: {msg}")


def cmp_parabolic(r, n):
    return None if same(r, n) else f"results differ {r!r} vs {n!r}"


def make_cmp_sync(tsa, return_indices):
    finite = np.asarray(tsa, dtype=float).ravel()
    finite = finite[np.isfinite(finite)]
    lo, hi = (float(np.min(finite)), float(np.max(finite))) if finite.size else (0.0, 100.0)
    probes = [
        np.linspace(lo - 50.0, hi + 50.0, 257),  # includes extrapolation
        np.array(tsa, dtype=float).ravel(),
        np.float64(0.5 * (lo + hi)),
        np.array([[lo, hi], [hi + 1.0, lo - 1.0]]),
        np.arange(5) + int(lo),  # integer probe
    ]

    def cmp(r, n):
        if type(r) is not type(n) or len(r) != len(n):
            return f"output structure differs: {len(r)} vs {len(n)}"
        if len(r) != (4 if return_indices else 2):
            return "unexpected number of outputs"
        if type(r[0]) is not type(n[0]):
            return f"mapping types differ: {type(r[0])} vs {type(n[0])}"
        if getattr(r[0], "__name__", None) != getattr(n[0], "__name__", None):
            return "mapping names differ"
        for k, p in enumerate(probes):
            pr, pn = call(r[0], p), call(n[0], p)
            if pr[0] != pn[0]:
                return f"mapping on probe {k}: {pr[0]} vs {pn[0]}"
            if pr[0] == "exc":
                if pr[1] is not pn[1]:
                    return f"mapping on probe {k}: exception types differ"
            elif not same(pr[1], pn[1]):
                return f"mapping differs on probe {k}"
        if isinstance(r[0], scipy.interpolate.interp1d):
            if not (same(r[0].x, n[0].x) and same(r[0].y, n[0].y)):
                return "interpolant knots differ"
        if not same(r[1], n[1]):
            return f"drift differs {r[1]!r} vs {n[1]!r}"
        for k in range(2, len(r)):
            if not same(r[k], n[k]):
                return f"output {k} differs"
        return None

    return cmp


def check_sync(label, tsa, tsb, **kwargs):
    ta0, tb0 = np.copy(tsa), np.copy(tsb)
    out_ref = call(ref_sync_timestamps, np.copy(tsa), np.copy(tsb), **kwargs)
    a_new, b_new = np.copy(tsa), np.copy(tsb)
    out_new = call(U.sync_timestamps, a_new, b_new, **kwargs)
    check(label, out_ref, out_new, make_cmp_sync(ta0, kwargs.get("return_indices", False)))
    # inputs must be left untouched by both
    if not (same(a_new, ta0) and same(b_new, tb0)):
        FAILURES.append(f"{label}: inputs modified")
    return out_ref[0]


def check_parabolic(label, x):
    out_ref = call(ref_parabolic_max, np.copy(x))
    x_new = np.copy(x)
    out_new = call(U.parabolic_max, x_new)
    check(label, out_ref, out_new, cmp_parabolic)
    if not same(x_new, np.asarray(x)):
        FAILURES.append(f"{label}: input modified")
    return out_ref[0]


# --------------------------------------------------------------------------------------
# input generators
# --------------------------------------------------------------------------------------
def event_trains(rng, n=None, max_missing=5, jitter=1e-4):
    """two event trains related by an affine clock map, as quantified by the property"""
    n = int(rng.integers(30, 301)) if n is None else n
    intervals = rng.uniform(0.5, 10.0, n)
    tsa = np.cumsum(intervals) + rng.uniform(0, 100)
    drift = rng.uniform(-100, 100) * 1e-6
    offset = rng.uniform(-180, 180)
    tsb = tsa * (1 + drift) + offset + rng.uniform(-jitter, jitter, n)
    ka = rng.choice(n, int(rng.integers(0, max_missing + 1)), replace=False)
    kb = rng.choice(n, int(rng.integers(0, max_missing + 1)), replace=False)
    return np.delete(tsa, ka), np.delete(tsb, kb)


def main():
    rng = np.random.default_rng(20240619)
    counts = {"ok": 0, "exc": 0}

    # ---------------- parabolic_max: 1D -------------------------------------------------
    for i in range(400):
        ns = int(rng.integers(1, 40))
        kind = i % 8
        if kind == 0:
            x = rng.standard_normal(ns)
        elif kind == 1:
            x = rng.standard_normal(ns).astype(np.float32)
        elif kind == 2:
            x = rng.integers(-5, 6, ns)  # int64 with ties
        elif kind == 3:
            x = np.zeros(ns)
            x[int(rng.integers(0, ns))] = 1.0  # isolated spike, possibly at an edge
        elif kind == 4:
            x = np.sort(rng.standard_normal(ns))[:: (1 if i % 16 < 8 else -1)]  # max on an edge
        elif kind == 5:
            x = np.full(ns, rng.standard_normal())  # flat: zero curvature
        elif kind == 6:
            x = np.arange(ns, dtype=float) * rng.standard_normal()  # linear: zero curvature
        else:
            x = rng.standard_normal(ns)
            x[rng.integers(0, ns, 2)] = [np.nan, np.inf][i % 2]
        counts[check_parabolic(f"parabolic_max 1d #{i}", x)] += 1
    # correlation-like inputs, as used by sync_timestamps
    for i in range(60):
        nb = int(rng.integers(5, 400))
        a = (rng.random(nb) < 0.1).astype(float)
        b = np.roll(a, int(rng.integers(-nb // 2, nb // 2 + 1)))
        counts[check_parabolic(f"parabolic_max xcorr #{i}", scipy.signal.correlate(a, b, mode="full"))] += 1

    # ---------------- parabolic_max: 2D and other ranks ---------------------------------
    for i in range(300):
        nr, ns = int(rng.integers(1, 12)), int(rng.integers(1, 30))
        kind = i % 6
        if kind == 0:
            x = rng.standard_normal((nr, ns))
        elif kind == 1:
            x = rng.standard_normal((nr, ns)).astype(np.float32)
        elif kind == 2:
            x = rng.integers(-3, 4, (nr, ns))
        elif kind == 3:
            x = np.zeros((nr, ns))
            x[np.arange(nr), rng.integers(0, ns, nr)] = 1.0
        elif kind == 4:
            x = np.sort(rng.standard_normal((nr, ns)), axis=1)
            x[::2] = x[::2, ::-1]
        else:
            x = np.tile(rng.standard_normal((nr, 1)), (1, ns))
        counts[check_parabolic(f"parabolic_max 2d #{i}", x)] += 1
    for label, x in [
        ("empty 1d", np.zeros(0)),
        ("empty 2d rows", np.zeros((0, 5))),
        ("empty 2d cols", np.zeros((3, 0))),
        ("0d", np.array(3.0)),
        ("3d square", rng.standard_normal((3, 3, 7))),
        ("3d", rng.standard_normal((2, 3, 7))),
        ("bool 1d", np.array([False, True, False, False])),
        ("bool edge", np.array([True, False])),
        ("list", [0.0, 2.0, 1.0]),
        ("complex", rng.standard_normal(6) + 1j * rng.standard_normal(6)),
        ("uint8", np.array([1, 9, 3, 250], dtype=np.uint8)),
        ("uint8 2d", np.array([[1, 9, 3, 250], [200, 255, 1, 0]], dtype=np.uint8)),
        ("single sample", np.array([4.0])),
        ("single column", np.array([[4.0], [2.0]])),
    ]:
        try:
            counts[check_parabolic(f"parabolic_max {label}", x)] += 1
        except Exception as e:  # np.copy of odd inputs
            FAILURES.append(f"parabolic_max {label}: harness error {e!r}")

    # ---------------- sync_timestamps: admissible event trains --------------------------
    for i in range(260):
        tsa, tsb = event_trains(rng)
        linear = bool(i % 2)
        return_indices = bool((i // 2) % 2)
        kw = {"linear": linear, "return_indices": return_indices}
        if i % 5 == 0:
            kw["tbin"] = [0.1, 0.05, 0.2, 0.01][(i // 5) % 4]
        if i % 13 == 0:  # rely on the defaults
            kw = {}
        counts[check_sync(f"sync_timestamps train #{i} {kw}", tsa, tsb, **kw)] += 1

    # ---------------- sync_timestamps: edge cases ---------------------------------------
    for i in range(120):
        kind = i % 10
        kw = {"linear": bool(i % 2), "return_indices": bool((i // 2) % 2)}
        if kind == 0:  # short trains
            tsa, tsb = event_trains(rng, n=int(rng.integers(2, 12)), max_missing=1)
        elif kind == 1:  # no missing events, no jitter
            tsa, tsb = event_trains(rng, max_missing=0, jitter=0.0)
        elif kind == 2:  # dense events: several candidates within one bin (elif branches)
            n = int(rng.integers(30, 120))
            tsa = np.cumsum(rng.uniform(0.02, 0.3, n))
            tsb = tsa * (1 + 5e-5) + rng.uniform(-3, 3) + rng.uniform(-1e-4, 1e-4, n)
            tsb = np.delete(tsb, rng.choice(n, 3, replace=False))
        elif kind == 3:  # large bins: ambiguous neighbours
            tsa, tsb = event_trains(rng, n=60)
            kw["tbin"] = float(rng.choice([1.0, 2.5, 5.0]))
        elif kind == 4:  # many missing events on both sides
            tsa, tsb = event_trains(rng, n=120, max_missing=40)
        elif kind == 5:  # duplicated time stamps
            tsa, tsb = event_trains(rng, n=50)
            tsa = np.sort(np.r_[tsa, tsa[5:8]])
            tsb = np.sort(np.r_[tsb, tsb[10:12]])
        elif kind == 6:  # unrelated trains: few or no matches
            tsa = np.cumsum(rng.uniform(0.5, 10, 40))
            tsb = np.cumsum(rng.uniform(0.5, 10, 35)) + rng.uniform(-50, 50)
        elif kind == 7:  # float32 / integer time stamps
            tsa, tsb = event_trains(rng, n=40)
            if i % 20 < 10:
                tsa, tsb = tsa.astype(np.float32), tsb.astype(np.float32)
            else:
                tsa, tsb = np.unique(np.round(tsa).astype(np.int64)), np.unique(np.round(tsb).astype(np.int64))
        elif kind == 8:  # unsorted inputs
            tsa, tsb = event_trains(rng, n=40)
            tsa, tsb = rng.permutation(tsa), rng.permutation(tsb)
        else:  # very different lengths / negative times
            tsa, tsb = event_trains(rng, n=80)
            tsa, tsb = tsa[: int(rng.integers(5, 80))] - 500.0, tsb[int(rng.integers(0, 40)):] - 500.0
        counts[check_sync(f"sync_timestamps edge #{i} kind {kind} {kw}", tsa, tsb, **kw)] += 1

    # inputs expected to raise (or to degenerate) - same exception type required
    base_a, base_b = event_trains(rng, n=40)
    for label, tsa, tsb, kw in [
        ("empty a", np.zeros(0), base_b, {}),
        ("empty b", base_a, np.zeros(0), {}),
        ("both empty", np.zeros(0), np.zeros(0), {}),
        ("single event", np.array([1.0]), np.array([1.5]), {}),
        ("single event idx", np.array([1.0]), np.array([1.5]), {"return_indices": True, "linear": True}),
        ("two events", np.array([1.0, 4.0]), np.array([1.5, 4.5]), {"return_indices": True}),
        ("identical", base_a, base_a.copy(), {"return_indices": True}),
        ("no overlap within span", np.array([0.0, 1.0, 2.0]), np.array([1000.0, 1003.0]), {}),
        ("zero span", np.array([3.0, 3.0]), np.array([3.0, 3.0]), {}),
        ("tbin zero", base_a, base_b, {"tbin": 0}),
        ("tbin negative", base_a, base_b, {"tbin": -0.1}),
        ("tbin huge", base_a, base_b, {"tbin": 1e6}),
        ("nan in a", np.r_[base_a, np.nan], base_b, {}),
        ("inf in b", base_a, np.r_[base_b, np.inf], {}),
        ("2d input", base_a[:, np.newaxis], base_b, {}),
        ("list input", list(base_a), list(base_b), {}),
        ("linear as int", base_a, base_b, {"linear": 1, "return_indices": 1}),
        ("return_indices None", base_a, base_b, {"return_indices": None}),
    ]:
        try:
            counts[check_sync(f"sync_timestamps {label}", tsa, tsb, **kw)] += 1
        except Exception as e:
            FAILURES.append(f"sync_timestamps {label}: harness error {e!r}")

    print(f"{NCHECKS} comparisons ({counts['ok']} returning, {counts['exc']} raising), "
          f"module under test: {U.__file__}")
    if FAILURES:
        print(f"{len(FAILURES)} DIFFERENCES")
        for f in FAILURES[:40]:
            print("  " + f)
        return 1
    print("all results identical")
    return 0


if __name__ == "__main__":
    sys.exit(main())
