import sys, os; sys.path.insert(0, os.path.join(os.path.dirname(os.path.abspath(__file__)), "src"))
"""
Differential equivalence check for the clean-up of ibldsp.utils.sync_timestamps / parabolic_max.

The functions ref_sync_timestamps and ref_parabolic_max below are verbatim copies of the ORIGINAL
implementations (only their names carry a ref_ prefix, and the reference sync_timestamps calls the
reference parabolic_max).  They are compared, result for result, with the functions imported from
the sources sitting next to this file.  Exits 0 when everything is identical, 1 with a message otherwise.
"""
import warnings

import numpy as np
import scipy
import scipy.interpolate
import scipy.signal

import ibldsp.utils as utils


# ----------------------------------------------------------------------------------------------
# reference: original implementation
# ----------------------------------------------------------------------------------------------
def ref_sync_timestamps(tsa, tsb, tbin=0.1, return_indices=False, linear=False):
    """
    Sync two arrays of time stamps
    :param tsa: vector of timestamps
    :param tsb: vector of timestamps
    :param tbin: time bin length
    :param return_indices (bool), if True returns 2 sets of indices for tsa and tsb with
    :param linear: (bool) if True, restricts the fit to linear
    identified matches
    :return:
     function: interpolation function such as fnc(tsa) = tsb
     float: drift in ppm
     numpy array: of indices ia
     numpy array: of indices ib
    """

    def _interp_fcn(tsa, tsb, ib, linear=linear):
        # now compute the bpod/fpga drift and precise time shift
        ab = np.polyfit(tsa[ib >= 0], tsb[ib[ib >= 0]] - tsa[ib >= 0], 1)
        drift_ppm = ab[0] * 1e6
        if linear:
            fcn_a2b = lambda x: x * (1 + ab[0]) + ab[1]  # noqa
        else:
            fcn_a2b = scipy.interpolate.interp1d(
                tsa[ib >= 0], tsb[ib[ib >= 0]], fill_value="extrapolate"
            )
        return fcn_a2b, drift_ppm

    # assert sorted inputs
    tmin = np.min([np.min(tsa), np.min(tsb)])
    tmax = np.max([np.max(tsa), np.max(tsb)])
    # brute force correlation to get an estimate of the delta_t between series
    x = np.zeros(int(np.ceil(tmax - tmin) / tbin))
    y = np.zeros_like(x)
    x[np.int32(np.floor((tsa - tmin) / tbin))] = 1
    y[np.int32(np.floor((tsb - tmin) / tbin))] = 1
    delta_t = (
        ref_parabolic_max(scipy.signal.correlate(x, y, mode="full"))[0] - x.shape[0] + 1
    ) * tbin
    # do a first assignment at a DT threshold
    ib = np.zeros(tsa.shape, dtype=np.int32) - 1
    threshold = tbin
    for m in np.arange(tsa.shape[0]):
        dt = np.abs(tsa[m] - delta_t - tsb)
        inds = np.where(dt < threshold)[0]
        if inds.size == 1:
            ib[m] = inds[0]
        elif inds.size > 1:
            candidates = inds[~np.isin(inds, ib[:m])]
            if candidates.size == 1:
                ib[m] = candidates[0]
            elif candidates.size > 1:
                ib[m] = inds[np.argmin(dt[inds])]

    fcn_a2b, _ = _interp_fcn(tsa, tsb, ib)
    # do a second assignment - this time a full matrix of candidate matches is computed
    # the most obvious matches are assigned first and then one by one
    iamiss = np.where(ib < 0)[0]
    ibmiss = np.setxor1d(np.arange(tsb.size), ib[ib >= 0])
    dt = np.abs(fcn_a2b(tsa[iamiss]) - tsb[ibmiss][:, np.newaxis])
    dt[dt > tbin] = np.nan
    while ~np.all(np.isnan(dt)):
        _b, _a = np.unravel_index(np.nanargmin(dt), dt.shape)
        ib[iamiss[_a]] = ibmiss[_b]
        dt[:, _a] = np.nan
        dt[_b, :] = np.nan
    fcn_a2b, drift_ppm = _interp_fcn(tsa, tsb, ib, linear=linear)

    if return_indices:
        return fcn_a2b, drift_ppm, np.where(ib >= 0)[0], ib[ib >= 0]
    else:
        return fcn_a2b, drift_ppm


def ref_parabolic_max(x):
    """
    Maximum picking with parabolic interpolation around the maxima
    :param x: 1d or 2d array
    :return: interpolated max index, interpolated max
    """
    # for 2D arrays, operate along the last dimension
    ns = x.shape[-1]
    axis = -1
    imax = np.argmax(x, axis=axis)

    if x.ndim == 1:
        v010 = x[np.maximum(np.minimum(imax + np.array([-1, 0, 1]), ns - 1), 0)]
        v010 = v010[:, np.newaxis]
    else:
        v010 = np.vstack(
            (
                x[..., np.arange(x.shape[0]), np.maximum(imax - 1, 0)],
                x[..., np.arange(x.shape[0]), imax],
                x[..., np.arange(x.shape[0]), np.minimum(imax + 1, ns - 1)],
            )
        )
    poly = np.matmul(0.5 * np.array([[1, -2, 1], [-1, 0, 1], [0, 2, 0]]), v010)
    ipeak = -poly[1] / (poly[0] + np.double(poly[0] == 0)) / 2
    maxi = poly[2] + ipeak * poly[1] + ipeak**2.0 * poly[0]
    ipeak += imax
    # handle edges
    iedges = np.logical_or(imax == 0, imax == ns - 1)
    if x.ndim == 1:
        maxi = v010[1, 0] if iedges else maxi[0]
        ipeak = imax if iedges else ipeak[0]
    else:
        maxi[iedges] = v010[1, iedges]
        ipeak[iedges] = imax[iedges]
    return ipeak, maxi


# ----------------------------------------------------------------------------------------------
# comparison machinery
# ----------------------------------------------------------------------------------------------
class Mismatch(Exception):
    pass


def _call(fcn, *args, **kwargs):
    """Returns ('ok', result) or ('exc', exception)"""
    try:
        with warnings.catch_warnings():
            warnings.simplefilter("ignore")
            with np.errstate(all="ignore"):
                return "ok", fcn(*args, **kwargs)
    except Exception as e:  # noqa
        return "exc", e


def _same_value(a, b, what):
    """Exact comparison of two scalars / arrays: type, dtype, shape and values (nans match nans)"""
    if type(a) is not type(b):
        raise Mismatch(f"{what}: type {type(a)} != {type(b)}")
    if isinstance(a, (np.ndarray, np.generic)):
        if a.dtype != b.dtype:
            raise Mismatch(f"{what}: dtype {a.dtype} != {b.dtype}")
        if np.shape(a) != np.shape(b):
            raise Mismatch(f"{what}: shape {np.shape(a)} != {np.shape(b)}")
        equal_nan = a.dtype.kind in "fc"
        if not np.array_equal(a, b, equal_nan=equal_nan):
            raise Mismatch(f"{what}: values differ")
        if a.dtype.kind == "f" and a.tobytes() != b.tobytes():
            raise Mismatch(f"{what}: values differ bitwise")
    elif a != b and not (a != a and b != b):
        raise Mismatch(f"{what}: {a!r} != {b!r}")


def _same_outcome(ra, rb, what, compare):
    (ka, va), (kb, vb) = ra, rb
    if ka != kb:
        raise Mismatch(f"{what}: reference -> {ka} {va!r}, refactored -> {kb} {vb!r}")
    if ka == "exc":
        if type(va) is not type(vb):
            raise Mismatch(f"{what}: exception {type(va)} != {type(vb)}")
        if str(va) != str(vb):
            raise Mismatch(f"{what}: exception message {va} != {vb}")
        return "exc"
    compare(va, vb, what)
    return "ok"


def _compare_fcn(fa, fb, probes, what):
    if type(fa) is not type(fb):
        raise Mismatch(f"{what}: mapping type {type(fa)} != {type(fb)}")
    if isinstance(fa, scipy.interpolate.interp1d):
        _same_value(np.asarray(fa.x), np.asarray(fb.x), f"{what} interp1d.x")
        _same_value(np.asarray(fa.y), np.asarray(fb.y), f"{what} interp1d.y")
    else:
        if fa.__name__ != fb.__name__:
            raise Mismatch(f"{what}: mapping name {fa.__name__} != {fb.__name__}")
    for ip, p in enumerate(probes):
        _same_outcome(_call(fa, p), _call(fb, p), f"{what} mapping at probe {ip}", _same_value)


def _compare_sync(probes):
    def compare(va, vb, what):
        if type(va) is not type(vb) or len(va) != len(vb):
            raise Mismatch(f"{what}: output structure differs")
        _compare_fcn(va[0], vb[0], probes, what)
        _same_value(va[1], vb[1], f"{what} drift_ppm")
        for k in range(2, len(va)):
            _same_value(va[k], vb[k], f"{what} indices output {k}")
    return compare


def _compare_pmax(va, vb, what):
    if type(va) is not type(vb) or len(va) != len(vb):
        raise Mismatch(f"{what}: output structure differs")
    _same_value(va[0], vb[0], f"{what} ipeak")
    _same_value(va[1], vb[1], f"{what} maxi")


# ----------------------------------------------------------------------------------------------
# input generation
# ----------------------------------------------------------------------------------------------
def _event_trains(rng, n=None, drift_ppm=None, offset=None, nmiss=None, jitter=None, spacing=(0.5, 10)):
    """Two event trains related by an affine clock map, with missing events and jitter"""
    n = int(rng.integers(30, 301)) if n is None else n
    drift_ppm = rng.uniform(-100, 100) if drift_ppm is None else drift_ppm
    offset = rng.uniform(-300, 300) if offset is None else offset
    jitter = rng.uniform(0, 1e-4) if jitter is None else jitter
    nmiss = (int(rng.integers(0, 6)), int(rng.integers(0, 6))) if nmiss is None else nmiss
    t = rng.uniform(-50, 50) + np.cumsum(rng.uniform(*spacing, size=n))
    ta = t + rng.uniform(-jitter, jitter, size=n)
    tb = t * (1 + drift_ppm / 1e6) + offset + rng.uniform(-jitter, jitter, size=n)
    ka = np.setdiff1d(np.arange(n), rng.choice(n, nmiss[0], replace=False))
    kb = np.setdiff1d(np.arange(n), rng.choice(n, nmiss[1], replace=False))
    held_out = t[np.setdiff1d(np.arange(n), ka)]
    return ta[ka], tb[kb], held_out


def _sync_cases(rng):
    # random admissible cases
    for i in range(320):
        tsa, tsb, held = _event_trains(rng)
        tbin = [0.1, 0.1, 0.1, 0.05, 0.2, 0.25][i % 6]
        yield f"random {i}", tsa, tsb, held, tbin
    # edge cases of the admissible domain
    for n in (30, 31, 299, 300):
        for drift in (-100.0, 0.0, 100.0):
            for offset in (-300.0, -0.04, 0.0, 1e-3, 17.3, 300.0):
                tsa, tsb, held = _event_trains(rng, n=n, drift_ppm=drift, offset=offset)
                yield f"edge n={n} drift={drift} offset={offset}", tsa, tsb, held, 0.1
    for nmiss in ((0, 0), (5, 0), (0, 5), (5, 5)):
        for jitter in (0.0, 1e-4):
            tsa, tsb, held = _event_trains(rng, nmiss=nmiss, jitter=jitter)
            yield f"edge nmiss={nmiss} jitter={jitter}", tsa, tsb, held, 0.1
    # missing events at the very start / end of the series
    tsa, tsb, held = _event_trains(rng, n=80, nmiss=(0, 0))
    yield "missing first of a", tsa[3:], tsb, held, 0.1
    yield "missing last of b", tsa, tsb[:-4], held, 0.1
    yield "missing both ends", tsa[2:-1], tsb[1:-3], held, 0.1
    # tight and loose spacing, repeated / ambiguous candidates (several events within a bin)
    for spacing in ((0.5, 0.5001), (0.5, 0.6), (9.9, 10.0), (0.01, 0.2), (0.001, 0.05)):
        for tbin in (0.1, 0.5):
            tsa, tsb, held = _event_trains(rng, n=60, spacing=spacing)
            yield f"spacing {spacing} tbin {tbin}", tsa, tsb, held, tbin
    # identical series, integer valued and float32 time stamps
    tsa, tsb, held = _event_trains(rng, n=40, nmiss=(0, 0))
    yield "identical", tsa, tsa.copy(), held, 0.1
    yield "same object", tsa, tsa, held, 0.1
    yield "float32", tsa.astype(np.float32), tsb.astype(np.float32), held, 0.1
    ti = np.cumsum(rng.integers(1, 11, size=50))
    yield "integers", ti, ti + 7, held, 0.1
    yield "integers / floats", ti, (ti + 7).astype(float), held, 0.1
    # beyond the admissible domain: these mostly raise, the exception must be the same
    yield "unrelated series", np.cumsum(rng.uniform(0.5, 10, 40)), 5000 + np.cumsum(rng.uniform(0.5, 10, 40)), held, 0.1
    yield "empty a", np.array([]), tsb, held, 0.1
    yield "empty b", tsa, np.array([]), held, 0.1
    yield "single events", np.array([1.0]), np.array([2.0]), held, 0.1
    yield "two events", np.array([1.0, 3.0]), np.array([2.0, 4.0]), held, 0.1
    yield "nan inside", np.r_[tsa[:5], np.nan, tsa[5:]], tsb, held, 0.1
    yield "lists", list(tsa), list(tsb), held, 0.1
    yield "2d input", tsa[:, np.newaxis], tsb[:, np.newaxis], held, 0.1
    yield "zero tbin", tsa, tsb, held, 0.0
    yield "negative tbin", tsa, tsb, held, -0.1
    yield "huge tbin", tsa, tsb, held, 1e4
    yield "unsorted", tsa[::-1], tsb, held, 0.1


def check_sync_timestamps(rng):
    ncases, nexc = 0, 0
    for label, tsa, tsb, held, tbin in _sync_cases(rng):
        if isinstance(tsa, np.ndarray) and tsa.size:
            t0, t1 = np.nanmin(tsa), np.nanmax(tsa)
        else:
            t0, t1 = 0.0, 1.0
        probes = [tsa, held, np.linspace(t0 - 100, t1 + 100, 57), np.float64(t0), 12.5, np.array([])]
        for linear in (False, True):
            for return_indices in (False, True):
                what = f"sync_timestamps[{label}, tbin={tbin}, linear={linear}, return_indices={return_indices}]"
                args_ref = [np.copy(tsa) if isinstance(tsa, np.ndarray) else list(tsa),
                            np.copy(tsb) if isinstance(tsb, np.ndarray) else list(tsb)]
                args_new = [np.copy(tsa) if isinstance(tsa, np.ndarray) else list(tsa),
                            np.copy(tsb) if isinstance(tsb, np.ndarray) else list(tsb)]
                kwargs = dict(tbin=tbin, return_indices=return_indices, linear=linear)
                ra = _call(ref_sync_timestamps, *args_ref, **kwargs)
                rb = _call(utils.sync_timestamps, *args_new, **kwargs)
                outcome = _same_outcome(ra, rb, what, _compare_sync(probes))
                # neither implementation may modify its inputs
                for a0, a1, a2 in zip((tsa, tsb), args_ref, args_new):
                    if isinstance(a0, np.ndarray):
                        _same_value(a0, a1, f"{what} input after reference call")
                        _same_value(a0, a2, f"{what} input after refactored call")
                ncases += 1
                nexc += outcome == "exc"
        # defaults and positional arguments
        what = f"sync_timestamps[{label}, defaults]"
        if tbin == 0.1:
            _same_outcome(_call(ref_sync_timestamps, tsa, tsb), _call(utils.sync_timestamps, tsa, tsb),
                          what, _compare_sync(probes))
            _same_outcome(_call(ref_sync_timestamps, tsa, tsb, 0.1, True, True),
                          _call(utils.sync_timestamps, tsa, tsb, 0.1, True, True), what, _compare_sync(probes))
            ncases += 2
    return ncases, nexc


def _pmax_cases(rng):
    for i in range(300):
        ndim = 1 + i % 2
        ns = int(rng.integers(1, 40))
        shape = (ns,) if ndim == 1 else (int(rng.integers(1, 12)), ns)
        kind = i % 5
        if kind == 0:
            x = rng.standard_normal(shape)
        elif kind == 1:
            x = rng.integers(-5, 6, size=shape)  # integer input with ties
        elif kind == 2:
            x = rng.standard_normal(shape).astype(np.float32)
        elif kind == 3:
            x = rng.standard_normal(shape)
            x[rng.random(shape) < 0.1] = np.nan
        else:
            x = np.round(rng.standard_normal(shape), 1)  # many ties
        yield f"random {i} {x.dtype} {shape}", x
    # maxima on the first / last sample, flat signals, plateaus
    base = np.array([0, 1, 3, 2, 0, 0, 0, 0], dtype=float)
    edge = [base, base[::-1], np.r_[5, base], np.r_[base, 5], np.zeros(8), np.ones(1), np.array([1.0, 2.0]),
            np.array([2.0, 1.0]), np.array([1.0, 2.0, 1.0]), np.array([0, 3, 3, 0.0]), np.array([0, 1, 2, 3.0]),
            np.array([np.nan, 1, 2]), np.full(5, np.nan), np.array([np.inf, 1, 2]), np.array([1, np.inf, 2]),
            np.array([1, -np.inf, 2]), np.array([True, False, True]), np.array([1 + 1j, 2, 0])]
    for i, x in enumerate(edge):
        yield f"edge 1d {i}", x
        yield f"edge 2d single row {i}", x[np.newaxis, :]
        yield f"edge 2d three rows {i}", np.tile(x, (3, 1))
    yield "test fixture", np.array([[0, 0, 0, 0, 0, np.nan, 0, 0], [0, 0, 0, 0, 0, 0, 0, 0], [0, 0, 0, 0, 1, 3, 2, 0],
                                    [0, 1, 3, 2, 0, 0, 0, 0], [5, 1, 3, 2, 0, 0, 0, 0], [0, 1, 3, 2, 0, 0, 0, 5]])
    yield "non contiguous", rng.standard_normal((6, 40))[::2, ::3]
    yield "fortran order", np.asfortranarray(rng.standard_normal((6, 40)))
    # correlation-like input, as fed by sync_timestamps
    a = (rng.random(500) < 0.05).astype(float)
    yield "xcorr", scipy.signal.correlate(a, np.roll(a, 13), mode="full")
    # beyond the admissible domain: the exception, if any, must be the same
    yield "empty 1d", np.array([])
    yield "empty 2d", np.zeros((3, 0))
    yield "no rows", np.zeros((0, 4))
    yield "0d", np.array(3.0)
    yield "3d", rng.standard_normal((3, 3, 7))
    yield "3d non square", rng.standard_normal((2, 3, 7))
    yield "list", [0.0, 1.0, 0.5]


def check_parabolic_max(rng):
    ncases, nexc = 0, 0
    for label, x in _pmax_cases(rng):
        x_ref = np.copy(x) if isinstance(x, np.ndarray) else list(x)
        x_new = np.copy(x) if isinstance(x, np.ndarray) else list(x)
        what = f"parabolic_max[{label}]"
        outcome = _same_outcome(_call(ref_parabolic_max, x_ref), _call(utils.parabolic_max, x_new), what, _compare_pmax)
        if isinstance(x, np.ndarray):
            _same_value(x, x_ref, f"{what} input after reference call")
            _same_value(x, x_new, f"{what} input after refactored call")
        ncases += 1
        nexc += outcome == "exc"
    return ncases, nexc


def main():
    rng = np.random.default_rng(20261003)
    try:
        ns, es = check_sync_timestamps(rng)
        npm, epm = check_parabolic_max(rng)
    except Mismatch as e:
        print(f"DIFFERENCE: {e}")
        return 1
    print(f"sync_timestamps: {ns} calls identical ({es} of them raising the same exception)")
    print(f"parabolic_max: {npm} calls identical ({epm} of them raising the same exception)")
    print(f"sources checked: {utils.__file__}")
    return 0


if __name__ == "__main__":
    sys.exit(main())
