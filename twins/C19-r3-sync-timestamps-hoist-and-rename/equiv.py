import sys, os; sys.path.insert(0, os.path.join(os.path.dirname(os.path.abspath(__file__)), "src"))  # noqa
"""
Differential equivalence check for the clean-up of ibldsp.utils.sync_timestamps (with its inner
_interp_fcn) and ibldsp.utils.parabolic_max.

The ORIGINAL implementations are carried below verbatim as ref_sync_timestamps / ref_parabolic_max
(only the function names differ, and the reference sync calls the reference parabolic_max), so the
script exits 0 with and without the patch.  Results are compared exactly: values, dtypes, shapes,
python types, exception types and the warnings raised.
"""
import warnings

import numpy as np
import scipy
import scipy.interpolate
import scipy.signal

import ibldsp.utils as utils


# --------------------------------------------------------------------------------------------
# verbatim copies of the original implementations
# --------------------------------------------------------------------------------------------
def ref_sync_timestamps(tsa, tsb, tbin=0.1, return_indices=False, linear=False):
    """
    Sync two arrays of time stamps
    :param tsa: vector of timestamps
    :param tsb: vector of timestamps
    :param tbin: time bin length
    :param return_indices (bool), if True returns 2 sets of indices for tsa and tsb with
    :param linear: (bool) if True, restricts the fit to linear
    identified matches
    :return:
     function: interpolation function such as fnc(tsa) = tsb
     float: drift in ppm
     numpy array: of indices ia
     numpy array: of indices ib
    """

    def _interp_fcn(tsa, tsb, ib, linear=linear):
        # now compute the bpod/fpga drift and precise time shift
        ab = np.polyfit(tsa[ib >= 0], tsb[ib[ib >= 0]] - tsa[ib >= 0], 1)
        drift_ppm = ab[0] * 1e6
        if linear:
            fcn_a2b = lambda x: x * (1 + ab[0]) + ab[1]  # noqa
        else:
            fcn_a2b = scipy.interpolate.interp1d(
                tsa[ib >= 0], tsb[ib[ib >= 0]], fill_value="extrapolate"
            )
        return fcn_a2b, drift_ppm

    # assert sorted inputs
    tmin = np.min([np.min(tsa), np.min(tsb)])
    tmax = np.max([np.max(tsa), np.max(tsb)])
    # brute force correlation to get an estimate of the delta_t between series
    x = np.zeros(int(np.ceil(tmax - tmin) / tbin))
    y = np.zeros_like(x)
    x[np.int32(np.floor((tsa - tmin) / tbin))] = 1
    y[np.int32(np.floor((tsb - tmin) / tbin))] = 1
    delta_t = (
        ref_parabolic_max(scipy.signal.correlate(x, y, mode="full"))[0] - x.shape[0] + 1
    ) * tbin
    # do a first assignment at a DT threshold
    ib = np.zeros(tsa.shape, dtype=np.int32) - 1
    threshold = tbin
    for m in np.arange(tsa.shape[0]):
        dt = np.abs(tsa[m] - delta_t - tsb)
        inds = np.where(dt < threshold)[0]
        if inds.size == 1:
            ib[m] = inds[0]
        elif inds.size > 1:
            candidates = inds[~np.isin(inds, ib[:m])]
            if candidates.size == 1:
                ib[m] = candidates[0]
            elif candidates.size > 1:
                ib[m] = inds[np.argmin(dt[inds])]

    fcn_a2b, _ = _interp_fcn(tsa, tsb, ib)
    # do a second assignment - this time a full matrix of candidate matches is computed
    # the most obvious matches are assigned first and then one by one
    iamiss = np.where(ib < 0)[0]
    ibmiss = np.setxor1d(np.arange(tsb.size), ib[ib >= 0])
    dt = np.abs(fcn_a2b(tsa[iamiss]) - tsb[ibmiss][:, np.newaxis])
    dt[dt > tbin] = np.nan
    while ~np.all(np.isnan(dt)):
        _b, _a = np.unravel_index(np.nanargmin(dt), dt.shape)
        ib[iamiss[_a]] = ibmiss[_b]
        dt[:, _a] = np.nan
        dt[_b, :] = np.nan
    fcn_a2b, drift_ppm = _interp_fcn(tsa, tsb, ib, linear=linear)

    if return_indices:
        return fcn_a2b, drift_ppm, np.where(ib >= 0)[0], ib[ib >= 0]
    else:
        return fcn_a2b, drift_ppm


def ref_parabolic_max(x):
    """
    Maximum picking with parabolic interpolation around the maxima
    :param x: 1d or 2d array
    :return: interpolated max index, interpolated max
    """
    # for 2D arrays, operate along the last dimension
    ns = x.shape[-1]
    axis = -1
    imax = np.argmax(x, axis=axis)

    if x.ndim == 1:
        v010 = x[np.maximum(np.minimum(imax + np.array([-1, 0, 1]), ns - 1), 0)]
        v010 = v010[:, np.newaxis]
    else:
        v010 = np.vstack(
            (
                x[..., np.arange(x.shape[0]), np.maximum(imax - 1, 0)],
                x[..., np.arange(x.shape[0]), imax],
                x[..., np.arange(x.shape[0]), np.minimum(imax + 1, ns - 1)],
            )
        )
    poly = np.matmul(0.5 * np.array([[1, -2, 1], [-1, 0, 1], [0, 2, 0]]), v010)
    ipeak = -poly[1] / (poly[0] + np.double(poly[0] == 0)) / 2
    maxi = poly[2] + ipeak * poly[1] + ipeak**2.0 * poly[0]
    ipeak += imax
    # handle edges
    iedges = np.logical_or(imax == 0, imax == ns - 1)
    if x.ndim == 1:
        maxi = v010[1, 0] if iedges else maxi[0]
        ipeak = imax if iedges else ipeak[0]
    else:
        maxi[iedges] = v010[1, iedges]
        ipeak[iedges] = imax[iedges]
    return ipeak, maxi


# --------------------------------------------------------------------------------------------
# exact comparison helpers
# --------------------------------------------------------------------------------------------
class Mismatch(Exception):
    pass


def same_value(a, b, what):
    """exact equality: python type, dtype, shape, values (NaN == NaN, signed zeros and bits)"""
    if type(a) is not type(b):
        raise Mismatch(f"{what}: type {type(a)} != {type(b)}")
    if isinstance(a, (np.ndarray, np.generic)):
        if a.dtype != b.dtype:
            raise Mismatch(f"{what}: dtype {a.dtype} != {b.dtype}")
        if np.shape(a) != np.shape(b):
            raise Mismatch(f"{what}: shape {np.shape(a)} != {np.shape(b)}")
        equal_nan = a.dtype.kind in "fc"
        if not np.array_equal(a, b, equal_nan=equal_nan):
            raise Mismatch(f"{what}: values differ")
        if np.asarray(a).tobytes() != np.asarray(b).tobytes():
            raise Mismatch(f"{what}: bit patterns differ")
    elif isinstance(a, (tuple, list)):
        if len(a) != len(b):
            raise Mismatch(f"{what}: length {len(a)} != {len(b)}")
        for i, (ai, bi) in enumerate(zip(a, b)):
            same_value(ai, bi, f"{what}[{i}]")
    else:
        if not (a == b or (a != a and b != b)):
            raise Mismatch(f"{what}: {a!r} != {b!r}")


def run(fcn, *args, **kwargs):
    """returns (result, exception type, sorted list of warnings (category name, message))"""
    with warnings.catch_warnings(record=True) as wlist:
        warnings.simplefilter("always")
        try:
            out, exc = fcn(*args, **kwargs), None
        except Exception as e:  # noqa
            out, exc = None, type(e)
    wrn = sorted((w.category.__name__, str(w.message)) for w in wlist)
    return out, exc, wrn


def compare_mapping(f_new, f_ref, probes, what):
    """the returned mapping is a callable: same kind, same internals, same values at the probes"""
    if type(f_new) is not type(f_ref):
        raise Mismatch(f"{what}: mapping type {type(f_new)} != {type(f_ref)}")
    if isinstance(f_ref, scipy.interpolate.interp1d):
        same_value(f_new.x, f_ref.x, f"{what}: interp1d.x")
        same_value(f_new.y, f_ref.y, f"{what}: interp1d.y")
        same_value(f_new.fill_value, f_ref.fill_value, f"{what}: interp1d.fill_value")
        same_value(f_new.bounds_error, f_ref.bounds_error, f"{what}: interp1d.bounds_error")
    else:
        # the linear lambda: same closed over coefficients
        c_new = [c.cell_contents for c in f_new.__closure__]
        c_ref = [c.cell_contents for c in f_ref.__closure__]
        same_value(c_new, c_ref, f"{what}: closure of the linear mapping")
    for i, p in enumerate(probes):
        r_new, e_new, w_new = run(f_new, p)
        r_ref, e_ref, w_ref = run(f_ref, p)
        if e_new is not e_ref:
            raise Mismatch(f"{what}: mapping probe {i} exception {e_new} != {e_ref}")
        if e_ref is None:
            same_value(r_new, r_ref, f"{what}: mapping at probe {i}")


def check_sync(tsa, tsb, what, probes=(), **kwargs):
    tsa_new, tsb_new, tsa_ref, tsb_ref = tsa.copy(), tsb.copy(), tsa.copy(), tsb.copy()
    new, e_new, w_new = run(utils.sync_timestamps, tsa_new, tsb_new, **kwargs)
    ref, e_ref, w_ref = run(ref_sync_timestamps, tsa_ref, tsb_ref, **kwargs)
    if e_new is not e_ref:
        raise Mismatch(f"{what}: exception {e_new} != {e_ref}")
    if w_new != w_ref:
        raise Mismatch(f"{what}: warnings {w_new} != {w_ref}")
    # inputs are left untouched by both
    same_value(tsa_new, tsa, f"{what}: tsa mutated")
    same_value(tsb_new, tsb, f"{what}: tsb mutated")
    if e_ref is not None:
        return "exception"
    if len(new) != len(ref):
        raise Mismatch(f"{what}: number of outputs {len(new)} != {len(ref)}")
    same_value(tuple(new[1:]), tuple(ref[1:]), f"{what}: outputs")
    probes = [tsa, tsa[::3], np.float64(tsa[0] - 12.5), float(tsa[-1]) + 3.25] + list(probes)
    compare_mapping(new[0], ref[0], probes, what)
    return "ok"


def check_parabolic(x, what):
    x_new, x_ref = x.copy(), x.copy()
    new, e_new, w_new = run(utils.parabolic_max, x_new)
    ref, e_ref, w_ref = run(ref_parabolic_max, x_ref)
    if e_new is not e_ref:
        raise Mismatch(f"{what}: exception {e_new} != {e_ref}")
    if w_new != w_ref:
        raise Mismatch(f"{what}: warnings {w_new} != {w_ref}")
    same_value(x_new, x, f"{what}: input mutated")
    if e_ref is not None:
        return "exception"
    same_value(new, ref, what)
    return "ok"


# --------------------------------------------------------------------------------------------
# input generators
# --------------------------------------------------------------------------------------------
def make_trains(rng, n=None, drift_ppm=None, offset=None, nmiss_a=None, nmiss_b=None, jitter=None,
                gap=(0.5, 10.0), t0=None):
    """two event trains related by an affine clock map, with missing events and jitter"""
    n = int(rng.integers(30, 301)) if n is None else n
    drift_ppm = rng.uniform(-100, 100) if drift_ppm is None else drift_ppm
    offset = rng.uniform(-180, 180) if offset is None else offset
    nmiss_a = int(rng.integers(0, 6)) if nmiss_a is None else nmiss_a
    nmiss_b = int(rng.integers(0, 6)) if nmiss_b is None else nmiss_b
    jitter = rng.uniform(0, 1e-4) if jitter is None else jitter
    t0 = rng.uniform(0, 50) if t0 is None else t0
    ta = t0 + np.cumsum(rng.uniform(gap[0], gap[1], n))
    tb = ta * (1 + drift_ppm * 1e-6) + offset + rng.uniform(-jitter, jitter, n)
    keep_a = np.ones(n, dtype=bool)
    keep_b = np.ones(n, dtype=bool)
    keep_a[rng.choice(n, nmiss_a, replace=False)] = False
    keep_b[rng.choice(n, nmiss_b, replace=False)] = False
    return ta[keep_a], tb[keep_b], ta[~keep_a]


def main():
    rng = np.random.default_rng(20190319)
    counts = {"ok": 0, "exception": 0}
    ncases = 0
    try:
        # ---- sync_timestamps: admissible random cases, both modes, with and without indices
        for i in range(360):
            tsa, tsb, held_out = make_trains(rng)
            kwargs = dict(linear=bool(i % 2), return_indices=bool((i // 2) % 2))
            if i % 7 == 0:
                kwargs["tbin"] = [0.05, 0.1, 0.2, 0.025][(i // 7) % 4]
            if i % 11 == 0:  # swap the roles of the two clocks
                tsa, tsb = tsb, tsa
            counts[check_sync(tsa, tsb, f"sync random {i} {kwargs}", probes=[held_out], **kwargs)] += 1
            ncases += 1
        # ---- sync_timestamps: edge cases of the admissible domain
        edge = []
        for drift in (-100.0, 0.0, 100.0):
            for offset in (-300.0, -0.04, 0.0, 0.04, 300.0):
                edge.append(dict(drift_ppm=drift, offset=offset))
        edge += [dict(n=30), dict(n=300), dict(n=30, nmiss_a=5, nmiss_b=5), dict(nmiss_a=0, nmiss_b=0),
                 dict(jitter=0.0), dict(jitter=1e-4), dict(jitter=0.0, drift_ppm=0.0, offset=0.0),
                 dict(gap=(0.5, 0.5000001)), dict(gap=(10.0, 10.0)), dict(gap=(0.5, 0.6), n=300),
                 dict(t0=0.0, gap=(1.0, 1.0), jitter=0.0, drift_ppm=0.0, offset=0.0),
                 dict(t0=0.0, gap=(1.0, 1.0), jitter=0.0, drift_ppm=0.0, offset=5.0, n=40),
                 dict(t0=-1000.0), dict(t0=1e5)]
        for k, kw in enumerate(edge):
            for linear in (False, True):
                tsa, tsb, held_out = make_trains(rng, **kw)
                what = f"sync edge {k} {kw} linear={linear}"
                counts[check_sync(tsa, tsb, what, probes=[held_out], linear=linear, return_indices=True)] += 1
                ncases += 1
        # first / last events missing on either side
        for k in range(20):
            tsa, tsb, _ = make_trains(rng, nmiss_a=0, nmiss_b=0)
            ca, cb = [(2, 0), (0, 2), (1, 1), (3, 2)][k % 4]
            tsa = tsa[ca:] if k % 2 else tsa[:tsa.size - ca]
            tsb = tsb[cb:] if (k // 2) % 2 else tsb[:tsb.size - cb]
            counts[check_sync(tsa, tsb, f"sync ends {k}", linear=bool(k % 2), return_indices=True)] += 1
            ncases += 1
        # ---- sync_timestamps: outside of the admissible domain (ambiguous matches, bursts, other dtypes,
        # unrelated trains, degenerate sizes, nan): whatever happens must be the same thing
        for k in range(60):
            n = int(rng.integers(2, 60))
            ta = np.cumsum(rng.uniform(0.01, 0.3, n))  # several events per bin: ambiguous candidates
            tb = ta + rng.uniform(-5, 5) + rng.uniform(-0.05, 0.05, n)
            tb = np.sort(tb)[rng.random(n) > 0.1]
            counts[check_sync(ta, tb, f"sync burst {k}", linear=bool(k % 2), return_indices=True)] += 1
            ncases += 1
        for k in range(20):
            ta = np.sort(rng.uniform(0, 100, int(rng.integers(1, 40))))
            tb = np.sort(rng.uniform(0, 100, int(rng.integers(1, 40))))
            counts[check_sync(ta, tb, f"sync unrelated {k}", linear=bool(k % 2), return_indices=True)] += 1
            ncases += 1
        tsa, tsb, _ = make_trains(rng)
        odd = [
            (tsa.astype(np.float32), tsb.astype(np.float32), {}),
            (tsa.astype(np.float32), tsb, dict(linear=True)),
            (np.round(tsa).astype(np.int64), np.round(tsb).astype(np.int64), dict(tbin=1)),
            (np.round(tsa).astype(np.int32), np.round(tsb).astype(np.int32), dict(tbin=1.0, linear=True)),
            (tsa, tsb, dict(tbin=0)),
            (tsa, tsb, dict(tbin=-0.1)),
            (tsa, tsb, dict(tbin=1000.0)),
            (tsa[:1], tsb[:1], {}),
            (tsa[:2], tsb[:2], {}),
            (tsa[:0], tsb, {}),
            (tsa, tsb[:0], {}),
            (np.r_[tsa, np.nan], tsb, {}),
            (tsa, np.r_[tsb, np.inf], {}),
            (tsa[::-1], tsb, {}),
            (tsa, tsb[::-1], dict(linear=True)),
            (tsa[:40].reshape(4, 10), tsb, {}),
            (np.arange(10.0), np.arange(10.0), {}),
            (np.arange(11.0), np.arange(11.0) + 3, dict(linear=True)),
            (np.arange(0, 50, 0.1), np.arange(0, 50, 0.1) + 0.25, {}),
            (np.repeat(tsa[:20], 2), np.repeat(tsb[:20], 2), {}),
        ]
        for k, (a, b, kw) in enumerate(odd):
            counts[check_sync(a, b, f"sync odd {k}", return_indices=True, **kw)] += 1
            ncases += 1
        # the test-suite cases
        ta = np.cumsum(rng.random(200) * 10)
        tb = ta * (1 + 24e-6) + 3.14
        for ka, kb in [(slice(None), slice(None)), (slice(1, None), slice(None)), (slice(None), slice(3, -2))]:
            for linear in (True, False):
                counts[check_sync(ta[ka], tb[kb], "sync unit-test like", linear=linear, return_indices=True)] += 1
                ncases += 1

        # ---- parabolic_max
        for k in range(300):
            kind = k % 6
            dtype = [np.float64, np.float32, np.int64, np.int32, np.float64, np.float16][k % 6]
            if kind in (0, 1, 5):
                x = rng.normal(size=int(rng.integers(1, 200)))
            elif kind == 2:
                x = rng.integers(-50, 50, size=int(rng.integers(1, 100)))
            elif kind == 3:
                x = rng.integers(-5, 5, size=(int(rng.integers(1, 12)), int(rng.integers(1, 40))))
            else:
                x = rng.normal(size=(int(rng.integers(1, 30)), int(rng.integers(1, 60))))
            x = np.asarray(x).astype(dtype)
            if k % 5 == 0:  # maximum on an edge
                x[..., 0 if k % 2 else -1] = np.abs(x).max() + 1
            if k % 13 == 0:  # plateau: vanishing curvature
                x[..., : min(3, x.shape[-1])] = np.abs(x).max() + 2
            counts[check_parabolic(x, f"parabolic random {k} shape={x.shape} dtype={x.dtype}")] += 1
            ncases += 1
        t = np.arange(-20, 21) / 7.0
        odd = [
            np.zeros(10), np.ones(1), np.zeros((3, 1)), np.zeros((1, 1)), np.zeros(0), np.zeros((0, 5)),
            np.zeros((5, 0)), np.array(3.0), np.array([np.nan, 1.0, 2.0, 1.0]), np.array([1.0, np.inf, 0.0]),
            np.full((4, 6), np.nan), rng.normal(size=(3, 4, 5)), rng.normal(size=(4, 4, 4)),
            rng.normal(size=(1, 1, 7)), np.array([True, False, True, True]), np.array([1.0, 2.0]),
            np.array([[1.0, 2.0], [2.0, 1.0]]), -(t - 0.3) ** 2, np.vstack([-(t - s) ** 2 for s in (-1.1, 0.0, 2.6)]),
            np.asfortranarray(rng.normal(size=(6, 9))), rng.normal(size=(9, 6)).T, rng.normal(size=50)[::-2],
            rng.normal(size=20) + 1j * rng.normal(size=20),
        ]
        for k, x in enumerate(odd):
            counts[check_parabolic(x, f"parabolic odd {k} shape={x.shape} dtype={x.dtype}")] += 1
            ncases += 1
        # the cross-correlations sync_timestamps hands over
        for k in range(40):
            tsa, tsb, _ = make_trains(rng)
            tmin, tmax = min(tsa.min(), tsb.min()), max(tsa.max(), tsb.max())
            xa = np.zeros(int(np.ceil(tmax - tmin) / 0.1))
            xb = np.zeros_like(xa)
            xa[np.int32(np.floor((tsa - tmin) / 0.1))] = 1
            xb[np.int32(np.floor((tsb - tmin) / 0.1))] = 1
            counts[check_parabolic(scipy.signal.correlate(xa, xb, mode="full"), f"parabolic xcorr {k}")] += 1
            ncases += 1
    except Mismatch as e:
        print(f"MISMATCH after {ncases} identical cases: {e}")
        return 1
    print(f"{ncases} cases identical ({counts['ok']} with results, {counts['exception']} raising the same exception)")
    return 0


if __name__ == "__main__":
    sys.exit(main())
