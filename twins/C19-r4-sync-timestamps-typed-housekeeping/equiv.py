import sys, os; sys.path.insert(0, os.path.join(os.path.dirname(os.path.abspath(__file__)), "src"))
"""
Differential equivalence check for the C19 housekeeping change in src/ibldsp/utils.py
(sync_timestamps, sync_timestamps._interp_fcn, parabolic_max).

The two functions below, up to the END OF REFERENCE marker, are verbatim copies of the ORIGINAL
implementation (they keep their original names so that the reference sync_timestamps calls the reference
parabolic_max).  The implementation under test is imported as `new` from the sources next to this file.
Exits 0 if every result is identical (type, dtype, shape, values, exception type), 1 otherwise.
"""
import warnings

import numpy as np
import scipy
import scipy.interpolate  # noqa
import scipy.signal  # noqa


# ----------------------------------------------------------------------------- REFERENCE (verbatim original)
def sync_timestamps(tsa, tsb, tbin=0.1, return_indices=False, linear=False):
    """
    Sync two arrays of time stamps
    :param tsa: vector of timestamps
    :param tsb: vector of timestamps
    :param tbin: time bin length
    :param return_indices (bool), if True returns 2 sets of indices for tsa and tsb with
    :param linear: (bool) if True, restricts the fit to linear
    identified matches
    :return:
     function: interpolation function such as fnc(tsa) = tsb
     float: drift in ppm
     numpy array: of indices ia
     numpy array: of indices ib
    """

    def _interp_fcn(tsa, tsb, ib, linear=linear):
        # now compute the bpod/fpga drift and precise time shift
        ab = np.polyfit(tsa[ib >= 0], tsb[ib[ib >= 0]] - tsa[ib >= 0], 1)
        drift_ppm = ab[0] * 1e6
        if linear:
            fcn_a2b = lambda x: x * (1 + ab[0]) + ab[1]  # noqa
        else:
            fcn_a2b = scipy.interpolate.interp1d(
                tsa[ib >= 0], tsb[ib[ib >= 0]], fill_value="extrapolate"
            )
        return fcn_a2b, drift_ppm

    # assert sorted inputs
    tmin = np.min([np.min(tsa), np.min(tsb)])
    tmax = np.max([np.max(tsa), np.max(tsb)])
    # brute force correlation to get an estimate of the delta_t between series
    x = np.zeros(int(np.ceil(tmax - tmin) / tbin))
    y = np.zeros_like(x)
    x[np.int32(np.floor((tsa - tmin) / tbin))] = 1
    y[np.int32(np.floor((tsb - tmin) / tbin))] = 1
    delta_t = (
        parabolic_max(scipy.signal.correlate(x, y, mode="full"))[0] - x.shape[0] + 1
    ) * tbin
    # do a first assignment at a DT threshold
    ib = np.zeros(tsa.shape, dtype=np.int32) - 1
    threshold = tbin
    for m in np.arange(tsa.shape[0]):
        dt = np.abs(tsa[m] - delta_t - tsb)
        inds = np.where(dt < threshold)[0]
        if inds.size == 1:
            ib[m] = inds[0]
        elif inds.size > 1:
            candidates = inds[~np.isin(inds, ib[:m])]
            if candidates.size == 1:
                ib[m] = candidates[0]
            elif candidates.size > 1:
                ib[m] = inds[np.argmin(dt[inds])]

    fcn_a2b, _ = _interp_fcn(tsa, tsb, ib)
    # do a second assignment - this time a full matrix of candidate matches is computed
    # the most obvious matches are assigned first and then one by one
    iamiss = np.where(ib < 0)[0]
    ibmiss = np.setxor1d(np.arange(tsb.size), ib[ib >= 0])
    dt = np.abs(fcn_a2b(tsa[iamiss]) - tsb[ibmiss][:, np.newaxis])
    dt[dt > tbin] = np.nan
    while ~np.all(np.isnan(dt)):
        _b, _a = np.unravel_index(np.nanargmin(dt), dt.shape)
        ib[iamiss[_a]] = ibmiss[_b]
        dt[:, _a] = np.nan
        dt[_b, :] = np.nan
    fcn_a2b, drift_ppm = _interp_fcn(tsa, tsb, ib, linear=linear)

    if return_indices:
        return fcn_a2b, drift_ppm, np.where(ib >= 0)[0], ib[ib >= 0]
    else:
        return fcn_a2b, drift_ppm


def parabolic_max(x):
    """
    Maximum picking with parabolic interpolation around the maxima
    :param x: 1d or 2d array
    :return: interpolated max index, interpolated max
    """
    # for 2D arrays, operate along the last dimension
    ns = x.shape[-1]
    axis = -1
    imax = np.argmax(x, axis=axis)

    if x.ndim == 1:
        v010 = x[np.maximum(np.minimum(imax + np.array([-1, 0, 1]), ns - 1), 0)]
        v010 = v010[:, np.newaxis]
    else:
        v010 = np.vstack(
            (
                x[..., np.arange(x.shape[0]), np.maximum(imax - 1, 0)],
                x[..., np.arange(x.shape[0]), imax],
                x[..., np.arange(x.shape[0]), np.minimum(imax + 1, ns - 1)],
            )
        )
    poly = np.matmul(0.5 * np.array([[1, -2, 1], [-1, 0, 1], [0, 2, 0]]), v010)
    ipeak = -poly[1] / (poly[0] + np.double(poly[0] == 0)) / 2
    maxi = poly[2] + ipeak * poly[1] + ipeak**2.0 * poly[0]
    ipeak += imax
    # handle edges
    iedges = np.logical_or(imax == 0, imax == ns - 1)
    if x.ndim == 1:
        maxi = v010[1, 0] if iedges else maxi[0]
        ipeak = imax if iedges else ipeak[0]
    else:
        maxi[iedges] = v010[1, iedges]
        ipeak[iedges] = imax[iedges]
    return ipeak, maxi


# ----------------------------------------------------------------------------- END OF REFERENCE

ref_sync_timestamps = sync_timestamps
ref_parabolic_max = parabolic_max

import ibldsp.utils as new  # noqa: E402

assert os.path.dirname(os.path.abspath(new.__file__)).startswith(
    os.path.dirname(os.path.abspath(__file__))
), f"wrong sources imported: {new.__file__}"

FAILURES = []
COUNTS = {}


def same(a, b, path="result"):
    """Exact comparison: python type, dtype, shape, values (NaN equal to NaN). Returns a message or None"""
    if type(a) is not type(b):
        return f"{path}: type {type(a)} != {type(b)}"
    if isinstance(a, (tuple, list)):
        if len(a) != len(b):
            return f"{path}: length {len(a)} != {len(b)}"
        for i, (u, v) in enumerate(zip(a, b)):
            msg = same(u, v, f"{path}[{i}]")
            if msg:
                return msg
        return None
    if isinstance(a, (np.ndarray, np.generic)):
        if a.dtype != b.dtype:
            return f"{path}: dtype {a.dtype} != {b.dtype}"
        if a.shape != b.shape:
            return f"{path}: shape {a.shape} != {b.shape}"
        equal_nan = a.dtype.kind in "fc"
        if not np.array_equal(a, b, equal_nan=equal_nan):
            return f"{path}: values differ"
        if a.dtype.kind == "f" and a.tobytes() != b.tobytes() and not np.any(np.isnan(a)):
            return f"{path}: bytes differ"
        return None
    if callable(a):
        return None  # functions are compared by evaluation, see run()
    if a != b:
        return f"{path}: {a!r} != {b!r}"
    return None


def call(fcn, *args, **kwargs):
    try:
        with warnings.catch_warnings():
            warnings.simplefilter("ignore")
            return "ok", fcn(*args, **kwargs)
    except Exception as e:  # noqa
        return "raise", type(e)


def run(group, label, fref, fnew, args, kwargs=None, probes=None):
    """Runs both implementations on private copies of the inputs and records any difference"""
    kwargs = kwargs or {}
    COUNTS[group] = COUNTS.get(group, 0) + 1
    copy = lambda a: a.copy() if isinstance(a, np.ndarray) else a  # noqa
    args_r, args_n = [copy(a) for a in args], [copy(a) for a in args]
    sr, rr = call(fref, *args_r, **kwargs)
    sn, rn = call(fnew, *args_n, **kwargs)
    if sr != sn:
        FAILURES.append(f"{group} {label}: reference {sr} {rr!r} / new {sn} {rn!r}")
        return
    if sr == "raise":
        if rr is not rn:
            FAILURES.append(f"{group} {label}: exception {rr} != {rn}")
        return
    msg = same(rr, rn)
    # inputs must be left in the same state by both
    for i, (u, v, o) in enumerate(zip(args_r, args_n, args)):
        if isinstance(o, np.ndarray):
            msg = msg or same(u, v, f"input[{i}] after the call")
    # returned mapping functions are compared by evaluating them inside and outside the fitted range
    if msg is None and probes is not None:
        for k, p in enumerate(probes):
            s1, v1 = call(rr[0], p)
            s2, v2 = call(rn[0], p)
            if s1 != s2 or (s1 == "raise" and v1 is not v2):
                msg = f"mapping probe {k}: {s1} {v1!r} / {s2} {v2!r}"
            elif s1 == "ok":
                msg = same(v1, v2, f"mapping(probe {k})")
            if msg:
                break
    if msg:
        FAILURES.append(f"{group} {label}: {msg}")


# ----------------------------------------------------------------------------- parabolic_max
def check_parabolic_max(rng):
    g = "parabolic_max"
    fixed = [
        np.array([0.0, 1.0, 3.0, 2.0, 0.0]),
        np.array([5.0, 1.0, 3.0, 2.0, 0.0]),  # maximum on the first sample
        np.array([0.0, 1.0, 3.0, 2.0, 9.0]),  # maximum on the last sample
        np.array([1.0, 1.0, 1.0, 1.0]),  # flat
        np.array([0.0, 2.0, 2.0, 0.0]),  # plateau
        np.array([0.0, 1.0, 2.0, 3.0, 2.0, 1.0, 0.0]),  # triangle: zero curvature handling
        np.array([1.0, 2.0, 3.0]),
        np.array([3.0]),
        np.array([1.0, 2.0]),
        np.array([2.0, 1.0]),
        np.array([0, 4, 9, 4, 0]),  # integers
        np.array([0, 4, 9, 4, 0], dtype=np.int16),
        np.array([0, 4, 9, 4, 0], dtype=np.uint8),
        np.array([False, True, False]),
        np.array([0.0, np.nan, 2.0, 1.0]),
        np.array([0.0, np.inf, 2.0, 1.0]),
        np.array([0.0, 1.0, 3.0, 2.0], dtype=np.float32),
        np.array([]),  # raises
        np.zeros((0, 4)),
        np.zeros((3, 0)),  # raises
        np.array(3.0),  # raises
        np.array([[0.0, 1.0, 3.0, 2.0, 0.0], [5.0, 1.0, 3.0, 2.0, 0.0], [0.0, 1.0, 3.0, 2.0, 9.0]]),
        np.array([[1.0, 1.0, 1.0]]),
        np.array([[1, 5, 2], [7, 5, 2]]),
        np.array([[1.0], [2.0]]),
        np.arange(24.0).reshape(2, 3, 4),  # 3D: whatever it does, it must do the same
        np.arange(27.0).reshape(3, 3, 3),
        [0.0, 1.0, 3.0, 2.0],  # a list raises
    ]
    for i, x in enumerate(fixed):
        run(g, f"fixed {i}", ref_parabolic_max, new.parabolic_max, (x,))
    for i in range(150):  # 1D
        ns = int(rng.integers(1, 40))
        kind = i % 5
        if kind == 0:
            x = rng.standard_normal(ns)
        elif kind == 1:
            x = rng.integers(-5, 5, ns).astype(rng.choice([np.int32, np.int64, np.float32, np.float64]))
        elif kind == 2:
            x = -((np.arange(ns) - rng.uniform(-2, ns + 2)) ** 2) + rng.standard_normal(ns) * 0.01
        elif kind == 3:
            x = np.zeros(ns)
            x[rng.integers(0, ns)] = 1
        else:
            x = np.round(rng.standard_normal(ns), 0)
        run(g, f"1d {i}", ref_parabolic_max, new.parabolic_max, (x,))
    for i in range(150):  # 2D
        ntr, ns = int(rng.integers(1, 12)), int(rng.integers(1, 30))
        kind = i % 4
        if kind == 0:
            x = rng.standard_normal((ntr, ns))
        elif kind == 1:
            x = rng.integers(-3, 3, (ntr, ns)).astype(rng.choice([np.int16, np.int64, np.float32, np.float64]))
        elif kind == 2:
            x = -((np.arange(ns)[np.newaxis, :] - rng.uniform(-2, ns + 2, (ntr, 1))) ** 2)
        else:
            x = np.asfortranarray(rng.standard_normal((ntr, ns)))
        run(g, f"2d {i}", ref_parabolic_max, new.parabolic_max, (x,))


# ----------------------------------------------------------------------------- sync_timestamps
def event_trains(rng, n=None, drift_ppm=None, offset=None, nmiss=(None, None), jitter=None):
    n = int(rng.integers(30, 301)) if n is None else n
    drift_ppm = rng.uniform(-100, 100) if drift_ppm is None else drift_ppm
    offset = rng.choice([-1, 1]) * 10 ** rng.uniform(-2, np.log10(180)) if offset is None else offset
    jitter = rng.uniform(0, 1e-4) if jitter is None else jitter
    ta = np.cumsum(rng.uniform(0.5, 10, n)) + rng.uniform(0, 50)
    tb = ta * (1 + drift_ppm * 1e-6) + offset + rng.uniform(-jitter, jitter, n)
    na = int(rng.integers(0, 6)) if nmiss[0] is None else nmiss[0]
    nb = int(rng.integers(0, 6)) if nmiss[1] is None else nmiss[1]
    ta = np.delete(ta, rng.choice(n, na, replace=False))
    tb = np.delete(tb, rng.choice(n, nb, replace=False))
    return ta, tb


def probes_for(ta, tb, rng):
    lo, hi = min(ta.min(), tb.min()), max(ta.max(), tb.max())
    return [
        ta,
        rng.uniform(lo - 100, hi + 100, 25),  # inside and outside (extrapolation)
        float(ta[0]),
        np.float64(ta[-1] + 12.5),
        np.array([lo, hi], dtype=np.float32),
        np.arange(3),
        np.array([]),
        np.array([np.nan, np.inf]),
    ]


def check_sync_timestamps(rng):
    g = "sync_timestamps"
    for i in range(260):
        ta, tb = event_trains(rng)
        kwargs = {}
        if i % 2:
            kwargs["linear"] = True
        if i % 3 == 0:
            kwargs["return_indices"] = True
        if i % 5 == 0:
            kwargs["tbin"] = float(rng.choice([0.01, 0.05, 0.2, 0.25, 0.5]))
        if i % 7 == 0:
            kwargs["return_indices"] = int(rng.integers(0, 3))  # truthy / falsy non booleans
        if i % 11 == 0:
            kwargs["linear"] = int(rng.integers(0, 2))
        run(g, f"random {i} {kwargs}", ref_sync_timestamps, new.sync_timestamps, (ta, tb), kwargs,
            probes=probes_for(ta, tb, rng))
    # edge cases of the admissible domain
    edge = {
        "minimum size, nothing missing": dict(n=30, nmiss=(0, 0)),
        "maximum size, 5 missing each": dict(n=300, nmiss=(5, 5)),
        "no drift no jitter": dict(drift_ppm=0.0, jitter=0.0),
        "+100 ppm": dict(drift_ppm=100.0),
        "-100 ppm": dict(drift_ppm=-100.0),
        "zero offset": dict(offset=0.0, jitter=0.0, drift_ppm=0.0, nmiss=(0, 0)),
        "offset +3 min": dict(offset=180.0),
        "offset -3 min": dict(offset=-180.0),
        "missing only in a": dict(nmiss=(5, 0)),
        "missing only in b": dict(nmiss=(0, 5)),
    }
    for label, kw in edge.items():
        for linear in (False, True):
            for return_indices in (False, True):
                ta, tb = event_trains(rng, **kw)
                run(g, f"edge {label} linear={linear} ri={return_indices}", ref_sync_timestamps, new.sync_timestamps,
                    (ta, tb), dict(linear=linear, return_indices=return_indices), probes=probes_for(ta, tb, rng))
    # positional arguments, other dtypes, dense trains (several candidates within one bin), duplicates
    for i in range(60):
        ta, tb = event_trains(rng, n=int(rng.integers(30, 80)))
        kind = i % 6
        if kind == 0:
            args = (ta, tb, 0.1, True, True)
        elif kind == 1:
            args = (ta.astype(np.float32), tb.astype(np.float32), 0.25, True)
        elif kind == 2:  # integer timestamps
            args = (np.round(ta).astype(np.int64), np.round(tb).astype(np.int64), 1.0, True)
        elif kind == 3:  # dense train: several candidates under the threshold, first-pass tie breaks
            ta = np.cumsum(rng.uniform(0.01, 0.3, 120))
            tb = np.delete(ta + 0.7 + rng.uniform(-1e-3, 1e-3, ta.size), rng.choice(120, 4, replace=False))
            args = (ta, tb, 0.1, True, bool(i % 4))
        elif kind == 4:  # repeated timestamps
            args = (np.sort(np.r_[ta, ta[::7]]), np.sort(np.r_[tb, tb[::9]]), 0.1, True)
        else:  # unrelated trains: hardly anything matches
            args = (ta, np.cumsum(rng.uniform(0.5, 10, 40)), 0.1, True)
        run(g, f"variant {i}", ref_sync_timestamps, new.sync_timestamps, args,
            probes=probes_for(np.asarray(args[0], dtype=float), np.asarray(args[1], dtype=float), rng))
    # inputs that raise or degenerate: both versions have to do the same thing
    ta, tb = event_trains(rng, n=40)
    bad = {
        "empty a": (np.array([]), tb),
        "empty b": (ta, np.array([])),
        "both empty": (np.array([]), np.array([])),
        "single events": (np.array([1.0]), np.array([1.5])),
        "two events": (np.array([1.0, 4.0]), np.array([1.5, 4.5])),
        "three events": (np.array([1.0, 4.0, 9.0]), np.array([1.5, 4.5, 9.5])),
        "no overlap at all": (ta, tb + 1e5),
        "lists": (list(ta), list(tb)),
        "list a": (list(ta), tb),
        "nan in a": (np.r_[ta, np.nan], tb),
        "inf in b": (ta, np.r_[tb, np.inf]),
        "2d a": (ta[:, np.newaxis], tb),
        "2d b": (ta, tb[:, np.newaxis]),
        "tbin zero": (ta, tb, 0.0),
        "tbin negative": (ta, tb, -0.1),
        "tbin huge": (ta, tb, 1e4),
        "tbin None": (ta, tb, None),
        "return_indices array": (ta, tb, 0.1, np.array([True, False])),
        "strings": (np.array(["a", "b"]), tb),
        "unsorted": (ta[::-1].copy(), tb, 0.1, True),
        "shuffled b": (ta, rng.permutation(tb), 0.1, True),
    }
    for label, args in bad.items():
        for linear in (False, True):
            run(g, f"degenerate {label} linear={linear}", ref_sync_timestamps, new.sync_timestamps, args,
                dict(linear=linear))


def main():
    rng = np.random.default_rng(20240619)
    check_parabolic_max(rng)
    check_sync_timestamps(rng)
    total = sum(COUNTS.values())
    print(", ".join(f"{k}: {v} cases" for k, v in COUNTS.items()), f"- {total} in total")
    if FAILURES:
        print(f"{len(FAILURES)} DIFFERENCES between the reference and the implementation under test")
        for f in FAILURES[:40]:
            print("  ", f)
        return 1
    print("identical results for every case")
    return 0


if __name__ == "__main__":
    sys.exit(main())
