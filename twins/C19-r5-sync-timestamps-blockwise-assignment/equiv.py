import sys, os; sys.path.insert(0, os.path.join(os.path.dirname(os.path.abspath(__file__)), "src"))  # noqa
"""
Differential equivalence check for the performance clean-up of ibldsp.utils.sync_timestamps
(and its nested _interp_fcn) and ibldsp.utils.parabolic_max.

The functions of the module found next to this file (src/ibldsp/utils.py) are compared against a
verbatim copy of the original implementations, on a few hundred seeded random and hand-made inputs.
Everything is compared exactly: types, dtypes, shapes, values (nans in the same places), the values
returned by the fitted function on probe points, and the type of the exception when one is raised.
Exit status 0 when everything is identical, 1 with a message otherwise.
"""
import time
import warnings

import numpy as np
import scipy
import scipy.interpolate  # noqa
import scipy.signal  # noqa

import ibldsp.utils as utils


def _make_reference():
    """
    The ORIGINAL implementations, copied verbatim (only indented so as to live in their own namespace,
    in which sync_timestamps calls the original parabolic_max)
    """
    def sync_timestamps(tsa, tsb, tbin=0.1, return_indices=False, linear=False):
        """
        Sync two arrays of time stamps
        :param tsa: vector of timestamps
        :param tsb: vector of timestamps
        :param tbin: time bin length
        :param return_indices (bool), if True returns 2 sets of indices for tsa and tsb with
        :param linear: (bool) if True, restricts the fit to linear
        identified matches
        :return:
         function: interpolation function such as fnc(tsa) = tsb
         float: drift in ppm
         numpy array: of indices ia
         numpy array: of indices ib
        """

        def _interp_fcn(tsa, tsb, ib, linear=linear):
            # now compute the bpod/fpga drift and precise time shift
            ab = np.polyfit(tsa[ib >= 0], tsb[ib[ib >= 0]] - tsa[ib >= 0], 1)
            drift_ppm = ab[0] * 1e6
            if linear:
                fcn_a2b = lambda x: x * (1 + ab[0]) + ab[1]  # noqa
            else:
                fcn_a2b = scipy.interpolate.interp1d(
                    tsa[ib >= 0], tsb[ib[ib >= 0]], fill_value="extrapolate"
                )
            return fcn_a2b, drift_ppm

        # assert sorted inputs
        tmin = np.min([np.min(tsa), np.min(tsb)])
        tmax = np.max([np.max(tsa), np.max(tsb)])
        # brute force correlation to get an estimate of the delta_t between series
        x = np.zeros(int(np.ceil(tmax - tmin) / tbin))
        y = np.zeros_like(x)
        x[np.int32(np.floor((tsa - tmin) / tbin))] = 1
        y[np.int32(np.floor((tsb - tmin) / tbin))] = 1
        delta_t = (
            parabolic_max(scipy.signal.correlate(x, y, mode="full"))[0] - x.shape[0] + 1
        ) * tbin
        # do a first assignment at a DT threshold
        ib = np.zeros(tsa.shape, dtype=np.int32) - 1
        threshold = tbin
        for m in np.arange(tsa.shape[0]):
            dt = np.abs(tsa[m] - delta_t - tsb)
            inds = np.where(dt < threshold)[0]
            if inds.size == 1:
                ib[m] = inds[0]
            elif inds.size > 1:
                candidates = inds[~np.isin(inds, ib[:m])]
                if candidates.size == 1:
                    ib[m] = candidates[0]
                elif candidates.size > 1:
                    ib[m] = inds[np.argmin(dt[inds])]

        fcn_a2b, _ = _interp_fcn(tsa, tsb, ib)
        # do a second assignment - this time a full matrix of candidate matches is computed
        # the most obvious matches are assigned first and then one by one
        iamiss = np.where(ib < 0)[0]
        ibmiss = np.setxor1d(np.arange(tsb.size), ib[ib >= 0])
        dt = np.abs(fcn_a2b(tsa[iamiss]) - tsb[ibmiss][:, np.newaxis])
        dt[dt > tbin] = np.nan
        while ~np.all(np.isnan(dt)):
            _b, _a = np.unravel_index(np.nanargmin(dt), dt.shape)
            ib[iamiss[_a]] = ibmiss[_b]
            dt[:, _a] = np.nan
            dt[_b, :] = np.nan
        fcn_a2b, drift_ppm = _interp_fcn(tsa, tsb, ib, linear=linear)

        if return_indices:
            return fcn_a2b, drift_ppm, np.where(ib >= 0)[0], ib[ib >= 0]
        else:
            return fcn_a2b, drift_ppm


    def parabolic_max(x):
        """
        Maximum picking with parabolic interpolation around the maxima
        :param x: 1d or 2d array
        :return: interpolated max index, interpolated max
        """
        # for 2D arrays, operate along the last dimension
        ns = x.shape[-1]
        axis = -1
        imax = np.argmax(x, axis=axis)

        if x.ndim == 1:
            v010 = x[np.maximum(np.minimum(imax + np.array([-1, 0, 1]), ns - 1), 0)]
            v010 = v010[:, np.newaxis]
        else:
            v010 = np.vstack(
                (
                    x[..., np.arange(x.shape[0]), np.maximum(imax - 1, 0)],
                    x[..., np.arange(x.shape[0]), imax],
                    x[..., np.arange(x.shape[0]), np.minimum(imax + 1, ns - 1)],
                )
            )
        poly = np.matmul(0.5 * np.array([[1, -2, 1], [-1, 0, 1], [0, 2, 0]]), v010)
        ipeak = -poly[1] / (poly[0] + np.double(poly[0] == 0)) / 2
        maxi = poly[2] + ipeak * poly[1] + ipeak**2.0 * poly[0]
        ipeak += imax
        # handle edges
        iedges = np.logical_or(imax == 0, imax == ns - 1)
        if x.ndim == 1:
            maxi = v010[1, 0] if iedges else maxi[0]
            ipeak = imax if iedges else ipeak[0]
        else:
            maxi[iedges] = v010[1, iedges]
            ipeak[iedges] = imax[iedges]
        return ipeak, maxi

    return sync_timestamps, parabolic_max


ref_sync_timestamps, ref_parabolic_max = _make_reference()

PROBE = np.array([-1e4, -123.456, -1.0, 0.0, 0.05, 1.0, 17.3, 250.0, 999.999, 4321.0, 1e5])


def _same(a, b, path="result"):
    """Returns None when a and b are exactly the same, a message otherwise"""
    if type(a) is not type(b):
        return f"{path}: type {type(a)} != {type(b)}"
    if isinstance(a, (tuple, list)):
        if len(a) != len(b):
            return f"{path}: length {len(a)} != {len(b)}"
        for i, (ai, bi) in enumerate(zip(a, b)):
            msg = _same(ai, bi, f"{path}[{i}]")
            if msg:
                return msg
        return None
    if isinstance(a, (np.ndarray, np.generic)):
        a_, b_ = np.asarray(a), np.asarray(b)
        if a_.dtype != b_.dtype:
            return f"{path}: dtype {a_.dtype} != {b_.dtype}"
        if a_.shape != b_.shape:
            return f"{path}: shape {a_.shape} != {b_.shape}"
        equal_nan = a_.dtype.kind in "fc"
        if not np.array_equal(a_, b_, equal_nan=equal_nan):
            return f"{path}: values differ"
        if a_.dtype.kind == "f" and not np.array_equal(np.signbit(a_), np.signbit(b_)):
            return f"{path}: signs of zeros / nans differ"
        return None
    if isinstance(a, scipy.interpolate.interp1d):
        for att in ("x", "y"):
            msg = _same(getattr(a, att), getattr(b, att), f"{path}.{att}")
            if msg:
                return msg
        return None
    if callable(a):
        return None  # compared through the values it returns, see _evaluate
    if a != b and not (a != a and b != b):
        return f"{path}: {a!r} != {b!r}"
    return None


def _evaluate(fcn, args, kwargs, probes):
    """Runs fcn, returns ("ok", result, values of the returned function on probes) or ("raised", type)"""
    with warnings.catch_warnings():
        warnings.simplefilter("ignore")
        with np.errstate(all="ignore"):
            try:
                out = fcn(*[a.copy() if isinstance(a, np.ndarray) else a for a in args], **kwargs)
            except Exception as e:  # noqa
                return "raised", type(e), None
            values = None
            if isinstance(out, tuple) and callable(out[0]):
                values = tuple(out[0](p) for p in probes)
    return "ok", out, values


class Checker:
    def __init__(self):
        self.n = 0
        self.nraised = 0
        self.failures = []
        self.tnew = 0.0
        self.tref = 0.0

    def check(self, label, new, ref, args, kwargs=None, probes=()):
        kwargs = kwargs or {}
        t0 = time.perf_counter()
        rnew = _evaluate(new, args, kwargs, probes)
        t1 = time.perf_counter()
        rref = _evaluate(ref, args, kwargs, probes)
        t2 = time.perf_counter()
        self.tnew += t1 - t0
        self.tref += t2 - t1
        self.n += 1
        if rnew[0] != rref[0]:
            msg = f"outcome {rnew[:2]} != {rref[:2]}"
        elif rnew[0] == "raised":
            self.nraised += 1
            msg = None if rnew[1] is rref[1] else f"exception {rnew[1]} != {rref[1]}"
        else:
            msg = _same(rnew[1], rref[1]) or _same(rnew[2], rref[2], "fcn(probes)")
        if msg:
            self.failures.append(f"{label}: {msg}")


def make_trains(rng, n=None, spacing=(0.5, 10.0), drift_ppm=None, offset=None, nmiss=None, jitter=None):
    """An admissible pair of event trains: tsb = affine(tsa) + jitter, with events missing on each side"""
    n = int(rng.integers(30, 301)) if n is None else n
    drift_ppm = rng.uniform(-100, 100) if drift_ppm is None else drift_ppm
    offset = rng.uniform(-300, 300) if offset is None else offset
    jitter = rng.uniform(0, 1e-4) if jitter is None else jitter
    t = rng.uniform(0, 50) + np.cumsum(rng.uniform(spacing[0], spacing[1], n))
    tb = t * (1 + drift_ppm * 1e-6) + offset + rng.uniform(-jitter, jitter, n)
    na, nb = (rng.integers(0, 6, 2) if nmiss is None else nmiss)
    keepa = np.sort(rng.permutation(n)[: n - na])
    keepb = np.sort(rng.permutation(n)[: n - nb])
    return t[keepa], tb[keepb]


def sync_cases(rng):
    """yields label, tsa, tsb, kwargs"""
    # the admissible domain of the property
    for i in range(260):
        tsa, tsb = make_trains(rng)
        kwargs = dict(linear=bool(i % 2), return_indices=bool((i // 2) % 2 == 0))
        if i % 7 == 0:
            kwargs["tbin"] = float(rng.choice([0.05, 0.1, 0.2, 0.25]))
        yield f"admissible-{i}", tsa, tsb, kwargs
    # corners of the admissible domain
    for i, (n, drift, offset, nmiss) in enumerate([
        (30, 100, 300, (5, 5)), (30, -100, -300, (5, 0)), (300, 100, -300, (0, 5)), (300, -100, 300, (0, 0)),
        (31, 0, 0, (0, 0)), (64, 0, 1e-3, (1, 1)), (127, 50, 0.05, (2, 3)), (128, -50, -0.05, (3, 2)),
    ]):
        for linear in (False, True):
            tsa, tsb = make_trains(rng, n=n, drift_ppm=drift, offset=offset, nmiss=nmiss)
            yield f"corner-{i}-{linear}", tsa, tsb, dict(linear=linear, return_indices=True)
    # first / last events missing
    for i in range(12):
        tsa, tsb = make_trains(rng, nmiss=(0, 0))
        k = int(rng.integers(1, 6))
        tsa, tsb = [(tsa[k:], tsb), (tsa[:-k], tsb), (tsa, tsb[k:]), (tsa, tsb[:-k])][i % 4]
        yield f"ends-{i}", tsa, tsb, dict(linear=bool(i % 2), return_indices=True)
    # dense trains: several candidates below the threshold, ties, repeated events
    for i in range(60):
        n = int(rng.integers(5, 120))
        tsa, tsb = make_trains(rng, n=n, spacing=[(0.01, 0.3), (0.0, 0.12), (0.05, 1.0)][i % 3],
                               nmiss=rng.integers(0, min(4, n - 3), 2), jitter=rng.choice([0, 1e-4, 2e-2]))
        if i % 4 == 0:
            tsa, tsb = np.round(tsa, 1), np.round(tsb, 1)  # exact ties in the distances
        if i % 5 == 0:
            tsb = np.sort(np.r_[tsb, tsb[:: 3]])  # repeated events
        tbin = float(rng.choice([0.1, 0.1, 0.5, 1.0]))
        yield f"dense-{i}", tsa, tsb, dict(linear=bool(i % 2), return_indices=True, tbin=tbin)
    # unsorted trains
    for i in range(30):
        tsa, tsb = make_trains(rng, n=int(rng.integers(10, 80)), spacing=(0.05, 3.0))
        if i % 3 != 1:
            tsa = rng.permutation(tsa)
        if i % 3 != 2:
            tsb = rng.permutation(tsb)
        yield f"unsorted-{i}", tsa, tsb, dict(linear=bool(i % 2), return_indices=True)
    # unrelated trains: few or no matches on the first pass, second pass and exceptions exercised
    for i in range(30):
        tsa = np.cumsum(rng.uniform(0.2, 5, int(rng.integers(2, 60))))
        tsb = np.cumsum(rng.uniform(0.2, 5, int(rng.integers(2, 60)))) + rng.uniform(-50, 50)
        tbin = float(rng.choice([0.1, 0.3, 1.0]))
        yield f"unrelated-{i}", tsa, tsb, dict(linear=bool(i % 2), return_indices=True, tbin=tbin)
    # very short trains, other dtypes, integer bin, large trains (several blocks of the distance matrix)
    for i in range(24):
        n = int(rng.integers(1, 6))
        tsa = np.cumsum(rng.uniform(0.5, 10, n))
        yield f"short-{i}", tsa, (tsa + rng.uniform(-3, 3))[: n - i % 2], dict(linear=bool(i % 2), return_indices=True)
    for i in range(12):
        tsa, tsb = make_trains(rng, n=60)
        tsa, tsb = [
            (tsa.astype(np.float32), tsb.astype(np.float32)), (tsa.astype(np.float32), tsb),
            (np.round(tsa).astype(np.int64), np.round(tsb).astype(np.int64)), (tsa, np.round(tsb).astype(np.int32)),
        ][i % 4]
        yield f"dtype-{i}", tsa, tsb, dict(linear=bool(i % 2), return_indices=True, tbin=[0.1, 1, 1.0][i % 3])
    for i in range(4):
        tsa, tsb = make_trains(rng, n=[1500, 2500][i % 2], spacing=[(0.5, 2.0), (0.02, 0.5)][i // 2], nmiss=(5, 5))
        yield f"large-{i}", tsa, tsb, dict(linear=bool(i % 2), return_indices=True)
    # inadmissible inputs: same exception expected
    yield "empty-a", np.array([]), np.arange(10.0), {}
    yield "empty-b", np.arange(10.0), np.array([]), {}
    yield "nan-a", np.array([1.0, np.nan, 3.0]), np.arange(10.0), {}
    yield "nan-b", np.arange(10.0), np.array([1.0, np.nan, 3.0]), {}
    yield "one-bin", np.array([1.0, 1.01]), np.array([1.0, 1.02]), {}
    yield "inf", np.array([0.0, 1.0, np.inf]), np.array([0.0, 1.0, 2.0]), {}
    yield "list", [1.0, 2.0, 4.0], [1.0, 2.0, 4.0], {}
    yield "tbin-0", np.arange(10.0), np.arange(10.0), dict(tbin=0)


def parabolic_cases(rng):
    """yields label, x"""
    for i in range(120):
        n = int(rng.integers(1, 40))
        x = rng.normal(size=n)
        if i % 3 == 0:
            x = np.round(x * 2)  # ties, flat tops, zero curvature
        if i % 5 == 0:
            x[int(rng.integers(0, 2)) * (n - 1)] = 10  # maximum on an edge
        if i % 11 == 0:
            x[int(rng.integers(0, n))] = np.nan
        x = x.astype([np.float64, np.float64, np.float32, np.int64, np.int16][i % 5]) if i % 11 else x
        yield f"1d-{i}", x
    for i in range(120):
        nr, n = int(rng.integers(1, 12)), int(rng.integers(1, 30))
        x = rng.normal(size=(nr, n))
        if i % 3 == 0:
            x = np.round(x * 2)
        if i % 4 == 0:
            rows = rng.integers(0, nr, 3)
            x[rows, rng.integers(0, 2, 3) * (n - 1)] = 10
        if i % 11 == 0:
            x[int(rng.integers(0, nr)), int(rng.integers(0, n))] = np.nan
        x = x.astype([np.float64, np.float32, np.int64, np.float64][i % 4]) if i % 11 else x
        if i % 13 == 0:
            x = np.asfortranarray(x)
        if i % 17 == 0:
            x = x[:, ::-1]
        yield f"2d-{i}", x
    yield "flat-1d", np.zeros(8)
    yield "flat-2d", np.zeros((3, 8))
    yield "empty-1d", np.zeros(0)
    yield "empty-2d", np.zeros((0, 5))
    yield "empty-2d-cols", np.zeros((4, 0))
    yield "3d-square", rng.normal(size=(4, 4, 9))
    yield "3d", rng.normal(size=(2, 3, 9))
    yield "0d", np.array(3.0)
    yield "bool", np.array([False, True, False, True])


def main():
    checker = Checker()
    rng = np.random.default_rng(20241004)
    for label, x in parabolic_cases(rng):
        checker.check(f"parabolic_max/{label}", utils.parabolic_max, ref_parabolic_max, (x,))
    nparabolic = checker.n
    cases = list(sync_cases(rng))
    for label, tsa, tsb, kwargs in cases:
        probes = (PROBE, tsa, np.float64(12.5))
        checker.check(f"sync_timestamps/{label}", utils.sync_timestamps, ref_sync_timestamps, (tsa, tsb), kwargs, probes)
    tnew, tref = checker.tnew, checker.tref  # timings of the runs with the default settings only
    # when the refactored module computes the first assignment by blocks, exercise small and odd block sizes too
    block_attr = "_SYNC_BLOCK_SIZE"
    if hasattr(utils, block_attr):
        original_block = getattr(utils, block_attr)
        try:
            for block in (1, 7, 100, 1000):
                setattr(utils, block_attr, block)
                for label, tsa, tsb, kwargs in cases[::3]:
                    if label.startswith("large"):
                        continue
                    checker.check(f"sync_timestamps/block-{block}/{label}", utils.sync_timestamps, ref_sync_timestamps,
                                  (tsa, tsb), kwargs, (PROBE, tsa))
        finally:
            setattr(utils, block_attr, original_block)
    print(f"{nparabolic} parabolic_max and {checker.n - nparabolic} sync_timestamps comparisons, "
          f"{checker.nraised} of which raised the same exception on both sides; "
          f"with the default settings: module under test {tnew:.2f} s, reference {tref:.2f} s")
    if checker.failures:
        print(f"{len(checker.failures)} DIFFERENCES")
        for f in checker.failures[:40]:
            print("  " + f)
        return 1
    print("all results identical")
    return 0


if __name__ == "__main__":
    sys.exit(main())
