import sys, os; sys.path.insert(0, os.path.join(os.path.dirname(os.path.abspath(__file__)), "src"))
"""
C19 - clock synchronisation recovers the affine map and only true event pairs.

Builds irregular event trains (spacing 0.5 .. 10 s) seen by two clocks related by
tb = ta * (1 + drift) + offset, with sub-millisecond jitter and a few events missing on
either side.  The oracle is the construction itself: we know which event of series a is
which event of series b, and we know the affine map.

Checks, for the linear and the interpolating mode:
  * every returned index pair (ia, ib) is a true correspondence,
  * nearly all true correspondences are returned,
  * the mapping evaluated at held-out events (events series a did not see) is within 2 ms
    of the true map,
  * the reported drift is within 5 ppm of the true one.
"""
import numpy as np

import ibldsp.utils as utils

TOL_T = 2e-3  # seconds
TOL_PPM = 5.0
JITTER = 1e-4  # seconds


def make_train(rng, n, short_gaps=()):
    gaps = rng.uniform(0.5, 10.0, n)
    for k in short_gaps:  # interval between event k and event k + 1
        gaps[k + 1] = 0.6
    return 20.0 + np.cumsum(gaps)


def check(label, n, drift_ppm, offset, miss_a, miss_b, linear, seed, short_gaps=()):
    rng = np.random.default_rng(seed)
    t = make_train(rng, n, short_gaps)
    true_map = lambda x: x * (1 + drift_ppm * 1e-6) + offset  # noqa
    ev_a = np.setdiff1d(np.arange(n), miss_a)  # event number of each entry of tsa
    ev_b = np.setdiff1d(np.arange(n), miss_b)
    tsa = t[ev_a] + rng.uniform(-JITTER, JITTER, ev_a.size)
    tsb = true_map(t[ev_b]) + rng.uniform(-JITTER, JITTER, ev_b.size)

    fcn, drift, ia, ib = utils.sync_timestamps(tsa, tsb, return_indices=True, linear=linear)

    problems = []
    wrong = np.where(ev_a[ia] != ev_b[ib])[0]
    for w in wrong:
        problems.append(
            f"returned pair (ia={ia[w]}, ib={ib[w]}) joins event #{ev_a[ia[w]]} of a with event "
            f"#{ev_b[ib[w]]} of b: {tsb[ib[w]] - true_map(tsa[ia[w]]):+.3f} s away from the true map"
        )
    n_true = np.intersect1d(ev_a, ev_b).size
    n_found = int(np.sum(ev_a[ia] == ev_b[ib]))
    if n_found < n_true - 2:
        problems.append(f"only {n_found} of the {n_true} true correspondences returned")
    # held out: the events that series a has not seen (inside the matched span), else a few mid-points
    held = t[np.asarray(miss_a, dtype=int)] if len(miss_a) else (t[10:-10:7] + 0.2)
    err = np.max(np.abs(fcn(held) - true_map(held)))
    if err > TOL_T:
        problems.append(f"mapping off by {err * 1e3:.2f} ms at held-out events (tolerance {TOL_T * 1e3:.0f} ms)")
    if abs(drift - drift_ppm) > TOL_PPM:
        problems.append(f"reported drift {drift:.2f} ppm, true drift {drift_ppm:.2f} ppm")
    mode = "linear" if linear else "interp"
    status = "FAIL" if problems else "ok"
    print(f"[{status}] {label} ({mode}, n={n}, drift={drift_ppm} ppm, offset={offset} s, "
          f"missing a={list(miss_a)}, b={list(miss_b)})")
    for p in problems:
        print("       - " + p)
    return len(problems)


def main():
    nfail = 0
    for linear in (True, False):
        # ordinary situations
        nfail += check("nothing missing", 120, 37.5, 81.37, [], [], linear, seed=1)
        nfail += check("missing on a only", 120, -62.0, -153.4, [17, 18, 77], [], linear, seed=2)
        nfail += check("missing on b only", 150, 12.3, 45.81, [], [5, 64, 120], linear, seed=3)
        nfail += check("more missing on a than on b", 200, 55.0, 34.32, [30, 31, 150], [90], linear, seed=4)
        # one event missing on each side, next to each other: a has not seen event 60 and b has
        # not seen event 61, which happen to be 0.6 s apart.  Both series have the same length.
        nfail += check("one missing on each side, adjacent", 200, 40.0, -73.21, [60], [61], linear,
                       seed=5, short_gaps=(60,))
        # two missing on each side
        nfail += check("two missing on each side", 250, -25.0, 310.07, [100, 180], [101, 181], linear,
                       seed=6, short_gaps=(100, 180))
    if nfail:
        print(f"\nC19 violated: {nfail} problem(s) - sync_timestamps returned event pairs that are not "
              f"true correspondences and/or a clock mapping that is off the true affine map")
        return 1
    print("\nC19 holds on all scenarios")
    return 0


if __name__ == "__main__":
    sys.exit(main())
