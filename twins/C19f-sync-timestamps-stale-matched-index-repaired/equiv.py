import sys, os; sys.path.insert(0, os.path.join(os.path.dirname(os.path.abspath(__file__)), "src"))
"""
C19 - clock synchronisation recovers the affine map and only true event pairs.

Two event trains related by tb = ta * (1 + drift) + offset, a few events missing on either
side, 0.1 ms jitter.  The oracle is the construction itself: we know which event of train a
corresponds to which event of train b, and we know the true map, so we can check

  * every returned (ia, ib) pair is a true correspondence,
  * nearly all (>= 97 %) of the true correspondences are returned,
  * the returned function reproduces the true map at every event time, including the events
    that were withheld from train a, within 2 ms,
  * the reported drift is within 0.5 ppm of the true one.

The trains are long (300 events, 7-10 s apart with the odd short interval) and the drift is
large (+-100 ppm), so the accumulated drift over the train exceeds the coarse one-bin
threshold and the ends of the train can only be paired by the second assignment pass.
"""
import numpy as np

import ibldsp.utils as utils

TOL_T = 2e-3       # seconds
TOL_DRIFT = 0.5    # ppm
MIN_RECALL = 0.97


def make_trains(seed, n, drift_ppm, offset, n_miss_a, n_miss_b, jitter):
    rng = np.random.default_rng(seed)
    # irregular spacing within [0.5, 10] s: mostly 7-10 s, one in ten between 0.5 and 2 s
    gaps = rng.uniform(7.0, 10.0, n)
    short = rng.random(n) < 0.1
    gaps[short] = rng.uniform(0.5, 2.0, np.sum(short))
    t = 3.0 + np.cumsum(gaps)                       # true event times on clock a
    tb = t * (1 + drift_ppm * 1e-6) + offset        # true event times on clock b
    ka = np.sort(rng.choice(n, n - n_miss_a, replace=False))   # events seen by a
    kb = np.sort(rng.choice(n, n - n_miss_b, replace=False))   # events seen by b
    tsa = t[ka] + rng.uniform(-jitter, jitter, ka.size)
    tsb = tb[kb] + rng.uniform(-jitter, jitter, kb.size)
    return t, tb, ka, kb, tsa, tsb


def check(seed, drift_ppm, offset, linear):
    t, tb, ka, kb, tsa, tsb = make_trains(seed, 300, drift_ppm, offset, 3, 4, 1e-4)
    fcn, drift, ia, ib = utils.sync_timestamps(tsa, tsb, return_indices=True, linear=linear)
    problems = []
    # returned pairs against the construction
    n_wrong = int(np.sum(ka[ia] != kb[ib]))
    n_true = np.intersect1d(ka, kb).size
    recall = (ia.size - n_wrong) / n_true
    if n_wrong:
        problems.append(f"{n_wrong} returned pairs are not true correspondences")
    if recall < MIN_RECALL:
        problems.append(f"only {ia.size - n_wrong} of {n_true} true correspondences returned ({recall:.0%})")
    # the mapping at all true event times and at the events withheld from train a
    err_all = np.max(np.abs(fcn(t) - tb))
    held_out = np.setdiff1d(np.arange(t.size), ka)
    err_held = np.max(np.abs(fcn(t[held_out]) - tb[held_out]))
    if err_all > TOL_T:
        problems.append(f"mapping is off by up to {err_all * 1e3:.2f} ms over the train "
                        f"({err_held * 1e3:.2f} ms at the withheld events), tolerance {TOL_T * 1e3:.0f} ms")
    if abs(drift - drift_ppm) > TOL_DRIFT:
        problems.append(f"reported drift {drift:.3f} ppm, true drift {drift_ppm} ppm")
    label = f"seed={seed} drift={drift_ppm:+d} ppm offset={offset:+.1f} s {'linear' if linear else 'interp'}"
    print(f"{label}: pairs={ia.size}/{n_true} wrong={n_wrong} max|err|={err_all * 1e3:.3f} ms "
          f"drift={drift:.3f} ppm -> {'FAIL' if problems else 'ok'}")
    for p in problems:
        print("    " + p)
    return not problems


if __name__ == "__main__":
    ok = True
    for seed, drift_ppm, offset in [(1, 100, 83.2), (2, -100, -141.7), (3, 95, -12.4)]:
        for linear in (True, False):
            ok &= check(seed, drift_ppm, offset, linear)
    if not ok:
        print("C19 violated: sync_timestamps drops true correspondences and/or the mapping is off at held-out events")
        sys.exit(1)
    print("C19 holds on all cases")
    sys.exit(0)
