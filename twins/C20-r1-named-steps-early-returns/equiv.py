import sys, os; sys.path.insert(0, os.path.join(os.path.dirname(os.path.abspath(__file__)), "src"))
"""
Differential equivalence check for the C20 clean-up (r1): the refactored functions of
ibldsp.cadzow, ibldsp.smooth, ibldsp.spiketrains and ibldsp.voltage are compared, bit for bit
(type, dtype, shape, values, exception type and message, warnings, side effects on the arguments),
against verbatim copies of the original implementations kept below.
Exits 0 when everything is identical, 1 with a message otherwise.
"""
import contextlib  # noqa: E402
import copy  # noqa: E402
import io  # noqa: E402
import warnings  # noqa: E402

import numpy as np  # noqa: E402
import pandas as pd  # noqa: E402
import tqdm  # noqa: E402
from scipy.interpolate import interp1d  # noqa: E402
from iblutil.numerical import ismember2d, bincount2D  # noqa: E402

import ibldsp.fourier as ft  # noqa: E402
import ibldsp.cadzow as new_cadzow  # noqa: E402
import ibldsp.smooth as new_smooth  # noqa: E402
import ibldsp.spiketrains as new_spiketrains  # noqa: E402
import ibldsp.voltage as new_voltage  # noqa: E402
# helpers the changed functions call and that the clean-up leaves untouched
from ibldsp.cadzow import traj_matrix_indices  # noqa: E402
from ibldsp.voltage import _svd_denoise  # noqa: E402

# ----------------------------------------------------------------------------------------------
# Verbatim copies of the ORIGINAL implementations (git HEAD) of every function the patch changes
# ----------------------------------------------------------------------------------------------

# ---- src/ibldsp/cadzow.py


def derank(T, r):
    u, s, v = np.linalg.svd(T)
    # try non-integer rank as a proportion of singular values ?
    # ik = np.searchsorted(np.cumsum(s) / np.sum(s), KEEP)
    T_ = np.zeros_like(T)
    for i in np.arange(r):
        T_ += s[i] * np.outer(u.T[i], v[i])
    return T_


def trajectory(x, y):
    """
    Computes the 2 spatial dimensions block-Toeplitz indices from x and y traces coordinates
    Coordinates are assumed to be regularly spaced
    :param x: trace spatial coordinate (np.array)
    :param y: trace spatial coordinate (np.array)
    :return: T: 2-D complex matrix whose elements are the spatial dimensions
    :return: it, itr: (tuple, ndarray) indices such that T[it] = data[itr]
    :return: trcount: count of traces in the trajectory matrix
    """
    xu, ix = np.unique(x, return_inverse=True)
    yu, iy = np.unique(y, return_inverse=True)
    nx, ny = (np.size(xu), np.size(yu))

    tiy_ = traj_matrix_indices(ny)
    tix_ = traj_matrix_indices(nx)
    tiy = np.tile(tiy_, tix_.shape)
    tix = np.repeat(np.repeat(tix_, tiy_.shape[0], axis=0), tiy_.shape[1], axis=1)

    it, itr = ismember2d(np.c_[tix.flatten(), tiy.flatten()], np.c_[ix, iy])
    it = np.unravel_index(np.where(it)[0], tiy.shape)

    T = np.zeros(tix.shape, dtype=np.complex128)

    trcount = np.bincount(itr)
    return T, it, itr, trcount


def denoise(WAV, x, y, r, imax=None, niter=1):
    """
    Applies cadzow denoising by de-ranking spatial matrices in frequency domain
    :param WAV: np array (nc, ns) in frequency domain
    :param x: trace spatial coordinate np.array (nc)
    :param y: trace spatial coordinate np.array (nc)
    :param r: rank
    :param imax: index of the maximum frequency to keep, all frequencies are de-ranked if None (None)
    :param niter: number of iterations (1)
    :return: WAV_: np array nc / ns in frequency domain
    """
    WAV_ = np.zeros_like(WAV)
    WAV0 = np.copy(WAV)
    imax = np.minimum(WAV.shape[-1], imax) if imax else WAV.shape[-1]
    T, it, itr, trcount = trajectory(x, y)
    for _ in np.arange(niter):
        for ind_f in np.arange(imax):
            T[it] = WAV0[itr, ind_f]
            T_ = derank(T, r)
            WAV_[:, ind_f] = np.bincount(itr, weights=np.real(T_[it]))
            WAV_[:, ind_f] += 1j * np.bincount(itr, weights=np.imag(T_[it]))
            WAV_[:, ind_f] /= trcount
        WAV0 = WAV_.copy()
    return WAV_

# ---- src/ibldsp/smooth.py


def lp(ts, fac, pad=0.2):
    """
    Smooth the data in frequency domain (assumes a uniform sampling rate), using edge padding

    ibllib.dsp.smooth.lp(ts, [.1, .15])
    :param ts: input signal to be smoothed
    :param fac: 2 element vector of the frequency edges relative to Nyquist: [0.15, 0.2] keeps
    everything up to 15% of the full band tapering down to 20%
    :param pad: padding on the edges of the time serie, between 0 and 1 (0.2 means 20% of the size)
    :return: smoothed time series
    """
    # keep at least two periods for the padding
    lpad = int(np.ceil(ts.shape[0] * pad))
    ts_ = np.pad(ts, lpad, mode="edge")
    ts_ = ft.lp(ts_, 1, np.array(fac) / 2)
    return ts_[lpad:-lpad]


def rolling_window(x, window_len=11, window="blackman"):
    """
    Smooth the data using a window with requested size.

    This method is based on the convolution of a scaled window with the signal.
    The signal is prepared by introducing reflected copies of the signal
    (with the window size) in both ends so that transient parts are minimized
    in the beginning and end part of the output signal.

    :param x: The input signal
    :type x: list or numpy.array
    :param window_len: The dimension of the smoothing window,
                       should be an **odd** integer, defaults to 11
    :type window_len: int, optional
    :param window: The type of window from ['flat', 'hanning', 'hamming',
                   'bartlett', 'blackman']
                   flat window will produce a moving average smoothing,
                   defaults to 'blackman'
    :type window: str, optional
    :raises ValueError: Smooth only accepts 1 dimension arrays.
    :raises ValueError: Input vector needs to be bigger than window size.
    :raises ValueError: Window is not one of 'flat', 'hanning', 'hamming',
                        'bartlett', 'blackman'
    :return: Smoothed array
    :rtype: numpy.array
    """
    # **NOTE:** length(output) != length(input), to correct this:
    # return y[(window_len/2-1):-(window_len/2)] instead of just y.
    if isinstance(x, list):
        x = np.array(x)

    if x.ndim != 1:
        raise ValueError("smooth only accepts 1 dimension arrays.")

    if x.size < window_len:
        raise ValueError("Input vector needs to be bigger than window size.")

    if window_len < 3:
        return x

    if window not in ["flat", "hanning", "hamming", "bartlett", "blackman"]:
        raise ValueError(
            "Window is not one of 'flat', 'hanning', 'hamming',\
'bartlett', 'blackman'"
        )

    s = np.r_[x[window_len - 1: 0: -1], x, x[-1:-window_len:-1]]
    # print(len(s))
    if window == "flat":  # moving average
        w = np.ones(window_len, "d")
    else:
        w = eval("np." + window + "(window_len)")

    y = np.convolve(w / w.sum(), s, mode="valid")
    return y[round((window_len / 2 - 1)): round(-(window_len / 2))]


def non_uniform_savgol(x, y, window, polynom):
    """Applies a Savitzky-Golay filter to y with non-uniform spacing as defined in x.
    This is based on
    https://dsp.stackexchange.com/questions/1676/savitzky-golay-smoothing-filter-for-not-equally-spaced-data
    The borders are interpolated like scipy.signal.savgol_filter would do
    https://dsp.stackexchange.com/a/64313
    Parameters
    ----------
    x : array_like
        List of floats representing the x values of the data
    y : array_like
        List of floats representing the y values. Must have same length as x
    window : int (odd)
        Window length of datapoints. Must be odd and smaller than x
    polynom : int
        The order of polynom used. Must be smaller than the window size
    Returns
    -------
    np.array
        The smoothed y values
    """

    if len(x) != len(y):
        raise ValueError('"x" and "y" must be of the same size')
    if len(x) < window:
        raise ValueError("The data size must be larger than the window size")
    if type(window) is not int:
        raise TypeError('"window" must be an integer')
    if window % 2 == 0:
        raise ValueError('The "window" must be an odd integer')
    if type(polynom) is not int:
        raise TypeError('"polynom" must be an integer')
    if polynom >= window:
        raise ValueError('"polynom" must be less than "window"')

    half_window = window // 2
    polynom += 1

    # Initialize variables
    A = np.empty((window, polynom))  # Matrix
    tA = np.empty((polynom, window))  # Transposed matrix
    t = np.empty(window)  # Local x variables
    y_smoothed = np.full(len(y), np.nan)

    # Start smoothing
    for i in range(half_window, len(x) - half_window, 1):
        # Center a window of x values on x[i]
        for j in range(0, window, 1):
            t[j] = x[i + j - half_window] - x[i]

        # Create the initial matrix A and its transposed form tA
        for j in range(0, window, 1):
            r = 1.0
            for k in range(0, polynom, 1):
                A[j, k] = r
                tA[k, j] = r
                r *= t[j]

        # Multiply the two matrices
        tAA = np.matmul(tA, A)
        # Invert the product of the matrices
        tAA = np.linalg.inv(tAA)
        # Calculate the pseudoinverse of the design matrix
        coeffs = np.matmul(tAA, tA)
        # Calculate c0 which is also the y value for y[i]
        y_smoothed[i] = 0
        for j in range(0, window, 1):
            y_smoothed[i] += coeffs[0, j] * y[i + j - half_window]

        # If at the end or beginning, store all coefficients for the polynom
        if i == half_window:
            first_coeffs = np.zeros(polynom)
            for j in range(0, window, 1):
                for k in range(polynom):
                    first_coeffs[k] += coeffs[k, j] * y[j]
        elif i == len(x) - half_window - 1:
            last_coeffs = np.zeros(polynom)
            for j in range(0, window, 1):
                for k in range(polynom):
                    last_coeffs[k] += coeffs[k, j] * y[len(y) - window + j]

    # Interpolate the result at the left border
    for i in range(0, half_window, 1):
        y_smoothed[i] = 0
        x_i = 1
        for j in range(0, polynom, 1):
            y_smoothed[i] += first_coeffs[j] * x_i
            x_i *= x[i] - x[half_window]

    # Interpolate the result at the right border
    for i in range(len(x) - half_window, len(x), 1):
        y_smoothed[i] = 0
        x_i = 1
        for j in range(0, polynom, 1):
            y_smoothed[i] += last_coeffs[j] * x_i
            x_i *= x[i] - x[-half_window - 1]

    return y_smoothed


def smooth_interpolate_savgol(signal, window=31, order=3, interp_kind="cubic"):
    """Run savitzy-golay filter on signal, interpolate through nan points.

    Parameters
    ----------
    signal : np.ndarray
        original noisy signal of shape (t,), may contain nans
    window : int
        window of polynomial fit for savitzy-golay filter
    order : int
        order of polynomial for savitzy-golay filter
    interp_kind : str
        type of interpolation for nans, e.g. 'linear', 'quadratic', 'cubic'
    Returns
    -------
    np.array
        smoothed, interpolated signal for each time point, shape (t,)
    """

    signal_noisy_w_nans = np.copy(signal)
    timestamps = np.arange(signal_noisy_w_nans.shape[0])
    good_idxs = np.where(~np.isnan(signal_noisy_w_nans))[0]
    # perform savitzky-golay filtering on non-nan points
    signal_smooth_nonans = non_uniform_savgol(
        timestamps[good_idxs],
        signal_noisy_w_nans[good_idxs],
        window=window,
        polynom=order,
    )
    signal_smooth_w_nans = np.copy(signal_noisy_w_nans)
    signal_smooth_w_nans[good_idxs] = signal_smooth_nonans
    # interpolate nan points
    interpolater = interp1d(
        timestamps[good_idxs],
        signal_smooth_nonans,
        kind=interp_kind,
        fill_value="extrapolate",
    )
    signal = interpolater(timestamps)

    return signal

# ---- src/ibldsp/spiketrains.py


def _spikes_venn(
    samples_tuple,
    channels_tuple,
    samples_binsize,
    channels_binsize,
    fs,
    num_channels,
    chunk_size,
    num_sorters,
):
    """
    Internal spike venn generation for n sorters.
    """
    if not samples_binsize:
        # set default: 0.4 ms
        samples_binsize = int(0.4 * fs / 1000)

    if not chunk_size:
        # set default: 20 s
        chunk_size = 20 * fs

    # find the timestamp of the last spike detected by any of the sorters
    # to calibrate chunking
    max_samples = max([np.max(samples) for samples in samples_tuple])
    num_chunks = int((max_samples // chunk_size) + 1)

    # each spike falls into one of 7 conditions based on whether it was found
    # by different sortings
    cond_names = [format(i, f"0{num_sorters}b") for i in range(1, 2**num_sorters)]
    pre_result = np.zeros(2**num_sorters - 1, int)
    vec = np.array([2**i for i in range(num_sorters - 1, -1, -1)])

    print(f"Running spike venning routine with {num_chunks} chunks.")
    for ch in tqdm.tqdm(range(num_chunks)):
        # select spikes within this chunk's time snippet
        sample_offset = ch * chunk_size
        spike_indices = [
            slice(
                *np.searchsorted(samples, [sample_offset, sample_offset + chunk_size])
            )
            for samples in samples_tuple
        ]
        # get corresponding spike sample times and channels
        samples_chunks = [
            samples[spike_indices[i]].astype(int) - sample_offset
            for i, samples in enumerate(samples_tuple)
        ]
        channels_chunks = [
            channels[spike_indices[i]].astype(int)
            for i, channels in enumerate(channels_tuple)
        ]

        # compute fast 2D bin count for each sorter, resulting in an (3, num_bins)
        # array where the (i, j) number is the number of spikes found by sorter i
        # in (linearized) bin j.
        bin_counts = np.array(
            [
                bincount2D(
                    samples_chunks[i],
                    channels_chunks[i],
                    samples_binsize,
                    channels_binsize,
                    [0, chunk_size],
                    [0, num_channels],
                )[0].flatten()
                for i in range(num_sorters)
            ]
        )

        # this process iteratively counts the number of spikes falling into each
        # of the 7 conditions by separating out which spikes must have been found
        # by each spike sorter within each bin, and updates the master `pre_result`
        # count array for this chunk
        max_per_spike = np.amax(bin_counts, axis=0)
        overall_max = np.max(max_per_spike)

        for i in range(0, overall_max):
            ind = max_per_spike - i > 0
            venn_info = bin_counts[:, ind] >= (max_per_spike - i)[ind]
            venn_info_int = vec @ venn_info
            conds, counts = np.unique(venn_info_int, return_counts=True)
            pre_result[conds - 1] += counts

    return dict(zip(cond_names, pre_result))

# ---- src/ibldsp/voltage.py


def stack(data, word, fcn_agg=np.nanmean, header=None):
    """
    Stack numpy array traces according to the word vector
    :param data: (ntr, ns) numpy array of sample values
    :param word: (ntr) label according to which the traces will be aggregated (usually cdp)
    :param header: dictionary of vectors (ntr): header labels, will be aggregated as average
    :param fcn_agg: function, defaults to np.mean but could be np.sum or np.median
    :return: stack (ntr_stack, ns): aggregated numpy array
             header ( ntr_stack): aggregated header. If no header is provided, fold of coverage
    """
    (ntr, ns) = data.shape
    group, uinds, fold = np.unique(word, return_inverse=True, return_counts=True)
    ntrs = group.size

    stack = np.zeros((ntrs, ns), dtype=data.dtype)
    for sind in np.arange(ntrs):
        i2stack = sind == uinds
        stack[sind, :] = fcn_agg(data[i2stack, :], axis=0)

    # aggregate the header using pandas
    if header is None:
        hstack = fold
    else:
        header["stack_word"] = word
        dfh = pd.DataFrame(header).groupby("stack_word")
        hstack = dfh.aggregate("mean").to_dict(orient="series")
        hstack = {k: hstack[k].values for k in hstack.keys()}
        hstack["fold"] = fold

    return stack, hstack


def svd_denoise_npx(datr, rank=None, collection=None):
    """

    :param datr: [nc, ns]
    :param rank:
    :param collection:
    :return:
    """
    svd = np.zeros_like(datr)
    nc = datr.shape[0]
    rank = rank or nc // 4
    if collection is None:
        collection = np.zeros(nc, dtype=int)
    for col in np.unique(collection):
        ind = np.where(collection == col)[0]
        isort = np.argsort(collection[ind])
        itr = ind[isort]
        svd[itr, :] = _svd_denoise(datr[itr, :], rank=int(rank * ind.size / nc))
    return svd


# ----------------------------------------------------------------------------------------------
# Differential harness: refactored sources (imported from ./src) against the reference copies above
# ----------------------------------------------------------------------------------------------
REF = {
    "derank": derank,
    "trajectory": trajectory,
    "denoise": denoise,
    "lp": lp,
    "rolling_window": rolling_window,
    "non_uniform_savgol": non_uniform_savgol,
    "smooth_interpolate_savgol": smooth_interpolate_savgol,
    "_spikes_venn": _spikes_venn,
    "stack": stack,
    "svd_denoise_npx": svd_denoise_npx,
}
NEW = {
    "derank": new_cadzow.derank,
    "trajectory": new_cadzow.trajectory,
    "denoise": new_cadzow.denoise,
    "lp": new_smooth.lp,
    "rolling_window": new_smooth.rolling_window,
    "non_uniform_savgol": new_smooth.non_uniform_savgol,
    "smooth_interpolate_savgol": new_smooth.smooth_interpolate_savgol,
    "_spikes_venn": new_spiketrains._spikes_venn,
    "stack": new_voltage.stack,
    "svd_denoise_npx": new_voltage.svd_denoise_npx,
}

COUNTS = {}
OUTCOMES = {}
FAILURES = []


def same(a, b, path="result"):
    """Exact comparison: type, dtype, shape, values (NaN == NaN). Returns None or a message."""
    if isinstance(a, np.ndarray) or isinstance(b, np.ndarray):
        if not (isinstance(a, np.ndarray) and isinstance(b, np.ndarray)):
            return f"{path}: type {type(a).__name__} != {type(b).__name__}"
        if a.dtype != b.dtype:
            return f"{path}: dtype {a.dtype} != {b.dtype}"
        if a.shape != b.shape:
            return f"{path}: shape {a.shape} != {b.shape}"
        if a.dtype == object:
            ok = all(same(u, v) is None for u, v in zip(a.ravel(), b.ravel()))
        elif a.dtype.kind in "fc":
            ok = np.array_equal(a, b, equal_nan=True)
            # bit for bit: also the sign of zeros
            ok = ok and np.array_equal(np.signbit(a.real), np.signbit(b.real))
        else:
            ok = np.array_equal(a, b)
        return None if ok else f"{path}: values differ"
    if type(a) is not type(b):
        return f"{path}: type {type(a).__name__} != {type(b).__name__}"
    if isinstance(a, (tuple, list)):
        if len(a) != len(b):
            return f"{path}: length {len(a)} != {len(b)}"
        for i, (u, v) in enumerate(zip(a, b)):
            msg = same(u, v, f"{path}[{i}]")
            if msg:
                return msg
        return None
    if isinstance(a, dict):
        if list(a.keys()) != list(b.keys()):
            return f"{path}: keys {list(a.keys())} != {list(b.keys())}"
        for k in a:
            msg = same(a[k], b[k], f"{path}[{k!r}]")
            if msg:
                return msg
        return None
    if isinstance(a, (pd.Series, pd.DataFrame)):
        return None if a.equals(b) else f"{path}: pandas values differ"
    if isinstance(a, (float, np.floating)) and np.isnan(a) and np.isnan(b):
        return None
    return None if a == b else f"{path}: {a!r} != {b!r}"


def run(fn, args, kwargs):
    """Runs fn on private copies of the arguments; returns (outcome, args after the call)."""
    args = copy.deepcopy(args)
    kwargs = copy.deepcopy(kwargs)
    sink = io.StringIO()
    try:
        with warnings.catch_warnings(record=True) as wlist:
            warnings.simplefilter("always")
            with contextlib.redirect_stdout(sink), contextlib.redirect_stderr(sink):
                out = ("ok", fn(*args, **kwargs))
    except Exception as e:  # noqa
        out = ("raise", type(e), str(e))
    wcats = sorted({w.category.__name__ for w in wlist})
    return out, wcats, (args, kwargs)


def check(name, *args, **kwargs):
    COUNTS[name] = COUNTS.get(name, 0) + 1
    r_out, r_warn, r_args = run(REF[name], args, kwargs)
    OUTCOMES[name, r_out[0]] = OUTCOMES.get((name, r_out[0]), 0) + 1
    n_out, n_warn, n_args = run(NEW[name], args, kwargs)
    msg = None
    if r_out[0] != n_out[0]:
        msg = f"outcome {r_out[:2]} != {n_out[:2]}"
    elif r_out[0] == "raise":
        if r_out[1] is not n_out[1]:
            msg = f"exception {r_out[1].__name__} != {n_out[1].__name__}"
        elif r_out[2] != n_out[2]:
            msg = f"exception message {r_out[2]!r} != {n_out[2]!r}"
    else:
        msg = same(r_out[1], n_out[1])
    if msg is None and r_warn != n_warn:
        msg = f"warnings {r_warn} != {n_warn}"
    if msg is None:
        # side effects on the (mutable) arguments must be the same too
        msg = same(r_args, n_args, "arguments after call")
    if msg:
        FAILURES.append(f"{name} case {COUNTS[name]}: {msg}")
    return r_out


def layout(rng, ncols, nrows, kind):
    """Site coordinates: full grid, or the staggered Neuropixel 1 checkerboard"""
    if kind == "grid":
        col, row = np.meshgrid(np.arange(ncols), np.arange(nrows))
        col, row = col.flatten(), row.flatten()
        x = col * 32.0
    else:  # staggered: 2 sites per row, shifted every other row
        row = np.repeat(np.arange(nrows), 2)
        col = np.tile(np.array([0, 1]), nrows)
        x = (col * 2 + row % 2) * 16.0 + 11
    y = row * 20.0
    return x, y


def cases_cadzow(rng):
    # derank
    for i in range(60):
        m, n = rng.integers(1, 9, size=2)
        T = rng.standard_normal((m, n))
        if i % 3:
            T = T + 1j * rng.standard_normal((m, n))
        if i % 7 == 0:
            T = T.astype(np.complex64)
        for r in (0, 1, int(min(m, n)), int(rng.integers(0, min(m, n) + 1)), int(min(m, n)) + 1 + (i % 2) * 9):
            check("derank", T, r)
    check("derank", np.zeros((3, 3), dtype=np.complex128), 2)
    check("derank", np.zeros((0, 3)), 0)
    check("derank", np.arange(12).reshape(3, 4), 2)  # integer matrix: in-place add cannot cast
    # trajectory and denoise
    k = 0
    for ncols in (1, 2, 3, 4):
        for nrows in (4, 5, 8, 13, 24, 40):
            k += 1
            kind = "stag" if (ncols == 2 and nrows % 2 == 0) else "grid"
            x, y = layout(rng, ncols, nrows, kind)
            if k % 3 == 0:
                perm = rng.permutation(x.size)
                x, y = x[perm], y[perm]
            check("trajectory", x, y)
            if nrows > 13:
                continue
            nc, nf = x.size, int(rng.integers(2, 6))
            WAV = rng.standard_normal((nc, nf)) + 1j * rng.standard_normal((nc, nf))
            # a plane wave: rank one
            kx, ky = rng.uniform(-0.05, 0.05, 2)
            PW = np.exp(1j * (kx * x + ky * y))[:, np.newaxis] * np.exp(1j * rng.uniform(0, 6, nf))[np.newaxis, :]
            T = trajectory(x, y)[0]
            full = int(min(T.shape))
            rnd = int(rng.integers(1, full + 1))
            # (every call of trajectory compiles a numba helper inside iblutil.ismember2d: keep the count moderate)
            check("denoise", WAV, x, y, full)
            check("denoise", PW, x, y, 1, imax=int(rng.integers(0, nf + 3)))
            check("denoise", PW + 0.1 * WAV, x=x, y=y, r=rnd, imax=None, niter=2)
            special = k % 8
            if special == 0:
                check("denoise", WAV.astype(np.complex64), x, y, 2, niter=int(rng.integers(0, 3)))
            elif special == 1:
                check("denoise", WAV, x, y, full + 1)  # rank too large: IndexError
            elif special == 2:
                check("denoise", WAV, x, y, 1, imax=np.int64(nf - 1))
            elif special == 3:
                check("denoise", WAV, x, y, 1, imax=1.0)  # float imax
            elif special == 4:
                check("denoise", np.real(WAV), x, y, 1)  # real input: the in-place complex add raises
            elif special == 5:
                check("denoise", WAV[:-1], x, y, 1)  # fewer traces than coordinates
            elif special == 6:
                check("denoise", WAV, x, y, rnd, imax=nf + 4, niter=0)  # no iteration: zeros
            else:
                check("denoise", PW, x, y, 2, imax=0)  # imax 0 means all frequencies
    # missing sites (the trace count has holes) and single trace
    x, y = layout(rng, 2, 6, "grid")
    check("trajectory", x[:-1], y[:-1])
    check("trajectory", x[:1], y[:1])
    check("trajectory", np.array([]), np.array([]))
    check("trajectory", x, y[:-1])
    WAV = rng.standard_normal((x.size - 1, 3)) + 1j * rng.standard_normal((x.size - 1, 3))
    check("denoise", WAV, x[:-1], y[:-1], 2)
    check("denoise", WAV[[0, 1, 2, 3, 5, 6, 7, 8, 9, 10]], np.delete(x, [4, 11]), np.delete(y, [4, 11]), 2)


def cases_smooth(rng):
    # lp
    for i in range(50):
        n = int(rng.integers(4, 300))
        ts = rng.standard_normal(n)
        if i % 5 == 0:
            ts = np.ones(n) * rng.uniform(-3, 3)
        if i % 6 == 0:
            ts = ts.astype(np.float32)
        f0 = rng.uniform(0.02, 0.5)
        fac = [f0, f0 + rng.uniform(0.01, 0.4)]
        if i % 4 == 0:
            fac = np.array(fac)
        elif i % 4 == 1:
            fac = tuple(fac)
        check("lp", ts, fac)
        check("lp", ts, fac, pad=float(rng.uniform(0, 1)))
    check("lp", np.arange(20.0), [0.1, 0.2], pad=0)  # no padding: empty slice
    check("lp", np.arange(20), [0.1, 0.2])  # integers
    check("lp", rng.standard_normal((6, 30)), [0.1, 0.2])  # 2-D
    check("lp", list(range(20)), [0.1, 0.2])  # list has no shape
    check("lp", np.arange(20.0), [0.1, 0.2, 0.3])
    check("lp", np.arange(20.0), 0.1)
    check("lp", np.array([]), [0.1, 0.2])
    # rolling_window
    wins = ["flat", "hanning", "hamming", "bartlett", "blackman"]
    for i in range(80):
        n = int(rng.integers(1, 120))
        x = rng.standard_normal(n)
        if i % 5 == 0:
            x = np.ones(n) * 3.25
        if i % 7 == 0:
            x = list(x)
        if i % 11 == 0:
            x = (np.asarray(x) * 10).astype(int)
        wl = int(rng.integers(0, 25))
        check("rolling_window", x, wl, wins[i % 5])
        check("rolling_window", x, window_len=min(wl, n), window=wins[(i + 1) % 5])
        check("rolling_window", x)
    x = rng.standard_normal(40)
    check("rolling_window", x, 7, "kaiser")
    check("rolling_window", x, 2, "kaiser")  # short window returns before the name check
    check("rolling_window", x, 7, "boxcar")
    check("rolling_window", x, 7, None)
    check("rolling_window", x.reshape(4, 10), 3)
    check("rolling_window", x, 41)
    check("rolling_window", x, 40)
    check("rolling_window", x, 7.0)  # float window length cannot slice
    check("rolling_window", x.astype(np.float32), 9, "flat")
    check("rolling_window", [], 0)
    check("rolling_window", tuple(x), 5)  # tuple has no ndim
    # non_uniform_savgol
    for i in range(70):
        n = int(rng.integers(3, 60))
        window = int(rng.choice([1, 3, 5, 7, 9, 11]))
        order = int(rng.integers(0, 5))
        x = np.cumsum(rng.uniform(0.05, 2.0, n)) + rng.uniform(-5, 5)
        deg = int(rng.integers(0, order + 1))
        y = np.polyval(rng.standard_normal(deg + 1), x)
        if i % 3 == 0:
            y = y + rng.standard_normal(n) * 0.1
        if i % 8 == 0:
            x, y = list(x), list(y)
        elif i % 8 == 1:
            y = y.astype(np.float32)
        elif i % 8 == 2:
            x = np.arange(n)
            y = (np.asarray(y) * 100).astype(int)
        elif i % 8 == 3:
            x = x[::-1].copy()
        check("non_uniform_savgol", x, y, window, order)
    x = np.cumsum(rng.uniform(0.1, 1, 21))
    y = rng.standard_normal(21)
    check("non_uniform_savgol", x, y[:-1], 5, 2)
    check("non_uniform_savgol", x, y, 23, 2)
    check("non_uniform_savgol", x, y, 5.0, 2)
    check("non_uniform_savgol", x, y, np.int64(5), 2)
    check("non_uniform_savgol", x, y, 6, 2)
    check("non_uniform_savgol", x, y, 5, 2.0)
    check("non_uniform_savgol", x, y, 5, 5)
    check("non_uniform_savgol", x, y, 5, 7)
    check("non_uniform_savgol", x, y, 5, 4)
    check("non_uniform_savgol", x, y, 21, 3)  # data exactly one window long: right border has no coefficients
    for w in (3, 5, 7, 9):  # same, and one sample more than a window: first and last windows are neighbours
        check("non_uniform_savgol", x[:w], y[:w], w, 2)
        check("non_uniform_savgol", x[:w + 1], y[:w + 1], w, 2)
    check("non_uniform_savgol", x[:1], y[:1], 1, 0)
    check("non_uniform_savgol", x, y, 1, 0)
    check("non_uniform_savgol", x, y, "5", 2)
    check("non_uniform_savgol", np.zeros(21), y, 5, 2)  # singular normal equations
    check("non_uniform_savgol", x, y + 1j * y, 5, 2)  # complex samples
    check("non_uniform_savgol", np.array([]), np.array([]), 1, 0)
    ynan = y.copy()
    ynan[7] = np.nan
    check("non_uniform_savgol", x, ynan, 5, 2)
    # smooth_interpolate_savgol
    for i in range(60):
        n = int(rng.integers(40, 160))
        t = np.arange(n)
        sig = np.polyval(rng.standard_normal(int(rng.integers(1, 4))) * 1e-2, t) + rng.standard_normal(n) * 0.05
        nnan = int(rng.integers(0, n // 3))
        if i % 4 == 0:  # one contiguous gap
            i0 = int(rng.integers(0, n - nnan))
            sig[i0: i0 + nnan] = np.nan
        elif i % 4 == 1:  # gaps at the edges
            sig[: nnan // 2] = np.nan
            sig[n - nnan // 2:] = np.nan
        else:
            sig[rng.choice(n, nnan, replace=False)] = np.nan
        if i % 9 == 0:
            sig = sig.astype(np.float32)
        window = int(rng.choice([5, 7, 11, 31]))
        order = int(rng.integers(1, 4))
        kind = ["cubic", "linear", "quadratic", "nearest"][i % 4]
        check("smooth_interpolate_savgol", sig, window=window, order=order, interp_kind=kind)
        if i % 10 == 0:
            check("smooth_interpolate_savgol", sig)
    sig = rng.standard_normal(50)
    check("smooth_interpolate_savgol", np.arange(50), window=5, order=2)  # integer signal
    check("smooth_interpolate_savgol", np.full(50, np.nan), window=5, order=2)
    check("smooth_interpolate_savgol", sig, window=6, order=2)
    check("smooth_interpolate_savgol", sig, window=51, order=2)
    check("smooth_interpolate_savgol", sig, window=5, order=2, interp_kind="bogus")
    check("smooth_interpolate_savgol", list(sig), window=5, order=2)
    check("smooth_interpolate_savgol", sig.reshape(5, 10), window=5, order=2)
    few = np.full(50, np.nan)
    few[[3, 10, 20, 30, 44]] = 1.0
    check("smooth_interpolate_savgol", few, window=5, order=2)  # exactly one window of samples


def cases_spiketrains(rng):
    for i in range(70):
        num_sorters = 2 + i % 2
        fs = int(rng.choice([30000, 30000, 2500]))
        num_channels = int(rng.choice([384, 96, 32]))
        tmax = int(rng.integers(200, 40000))
        base_n = int(rng.integers(1, 150))
        base_s = np.sort(rng.integers(0, tmax, base_n))
        base_c = rng.integers(0, num_channels, base_n)
        samples, channels = [], []
        for s in range(num_sorters):
            keep = rng.random(base_n) < 0.7
            extra = int(rng.integers(0, 30))
            ss = np.r_[base_s[keep] + rng.integers(-3, 4, keep.sum()), rng.integers(0, tmax, extra)]
            cc = np.r_[base_c[keep], rng.integers(0, num_channels, extra)]
            ss = np.clip(ss, 0, None)
            if ss.size == 0:
                ss, cc = np.array([5]), np.array([1])
            isort = np.argsort(ss, kind="stable")
            ss, cc = ss[isort], cc[isort]
            if i % 5 == 0:
                ss, cc = ss.astype(np.float64), cc.astype(np.float64)
            elif i % 5 == 1:
                ss, cc = ss.astype(np.uint64), cc.astype(np.int16)
            samples.append(ss)
            channels.append(cc)
        samples, channels = tuple(samples), tuple(channels)
        sbin = [None, 0, 12, 30, 7][i % 5]
        cbin = [4, 1, 8, 3][i % 4]
        chunk_sizes = (int(rng.integers(40, 4000)), tmax + 1000, 1000)
        if i % 5 == 0:  # the default chunk is 20 s long: large bin count arrays, used sparingly
            chunk_sizes += (None, 0)
        for chunk_size in chunk_sizes:
            if chunk_size and sbin and chunk_size < sbin:
                continue
            check("_spikes_venn", samples, channels, sbin, cbin, fs, num_channels, chunk_size, num_sorters)
    s = (np.array([10, 10, 10, 500]), np.array([10, 11, 600]))
    c = (np.array([3, 3, 3, 8]), np.array([3, 3, 9]))
    check("_spikes_venn", s, c, None, 4, 30000, 384, None, 2)
    check("_spikes_venn", s, c, None, 4, 30000, 384, 100, 2)
    check("_spikes_venn", s, c, None, 4, 30000, 384, 100, 3)  # more sorters than spike trains
    check("_spikes_venn", (), (), None, 4, 30000, 384, None, 2)  # nothing to take the maximum of
    check("_spikes_venn", (np.array([]), np.array([])), (np.array([]), np.array([])), None, 4, 30000, 384, None, 2)
    check("_spikes_venn", s, (c[0] + 400, c[1]), None, 4, 30000, 384, None, 2)  # channels out of range
    check("_spikes_venn", s, c, None, 4, 30000, 384, 7, 2)  # chunk smaller than the time bin
    check("_spikes_venn", s, c, 12.5, 4, 30000.0, 384, 2000.0, 2)  # float parameters


def cases_voltage(rng):
    aggs = [np.nanmean, np.mean, np.sum, np.median, np.nanmedian, np.max]
    for i in range(60):
        ntr, ns = int(rng.integers(1, 40)), int(rng.integers(1, 12))
        data = rng.standard_normal((ntr, ns))
        if i % 4 == 1:
            data = data.astype(np.float32)
        elif i % 4 == 2:
            data = (data * 10).astype(np.int32)
        elif i % 4 == 3:
            data[rng.random((ntr, ns)) < 0.2] = np.nan
        nlab = int(rng.integers(1, 6))
        word = rng.integers(0, nlab, ntr) * int(rng.choice([1, 7]))
        if i % 6 == 0:
            word = word.astype(float) / 2
        elif i % 6 == 1:
            word = np.array(["a", "bb", "c", "d", "e", "f"])[word % 6]
        fcn = aggs[i % len(aggs)]
        check("stack", data, word, fcn)
        check("stack", data, word, fcn_agg=fcn, header=None)
        header = {"x": rng.standard_normal(ntr), "cdp": rng.integers(0, 9, ntr)}
        if i % 3 == 0:
            header["stack_word"] = rng.integers(0, 3, ntr)  # gets overwritten
        if i % 5 == 0:
            header["fold"] = rng.standard_normal(ntr)  # gets overwritten in the output
        check("stack", data, word, fcn, header)
        if i % 10 == 0:
            check("stack", data, word, header={})
            check("stack", data, word[:-1], fcn, header)
            check("stack", data, word, fcn, {"x": np.arange(ntr + 1)})
            check("stack", data, word, fcn, {"s": np.array(["k"] * ntr)})
    check("stack", np.zeros((0, 4)), np.array([]))
    check("stack", np.zeros((0, 4)), np.array([]), header={})
    check("stack", np.zeros(5), np.zeros(5))
    check("stack", np.zeros((5, 2)), np.zeros(5), fcn_agg=lambda d, axis: d)
    for i in range(70):
        nc, ns = int(rng.integers(1, 49)), int(rng.integers(1, 60))
        datr = rng.standard_normal((nc, ns))
        if i % 5 == 0:
            datr = datr.astype(np.float32)
        elif i % 5 == 1:  # low rank data
            k = int(rng.integers(1, 4))
            datr = rng.standard_normal((nc, k)) @ rng.standard_normal((k, ns))
        ranks = [None, 0, 1, nc, int(rng.integers(1, nc + 1)), nc + 5, float(rng.uniform(0.5, nc)), np.int64(2)]
        rank = ranks[i % len(ranks)]
        check("svd_denoise_npx", datr, rank)
        ncoll = int(rng.integers(1, 5))
        collection = rng.integers(0, ncoll, nc)
        if i % 3 == 0:
            collection = np.sort(collection)
        check("svd_denoise_npx", datr, rank=rank, collection=collection)
        if i % 7 == 0:
            check("svd_denoise_npx", datr, rank, collection.astype(float))
            check("svd_denoise_npx", datr, -1, collection)
            check("svd_denoise_npx", datr, rank, collection[:-1])
            check("svd_denoise_npx", (datr * 10).astype(int), rank, collection)
    check("svd_denoise_npx", np.zeros((0, 5)))
    check("svd_denoise_npx", np.zeros((8, 5)), 2)
    check("svd_denoise_npx", np.zeros(8), 2)
    check("svd_denoise_npx", rng.standard_normal((8, 5)), "2")
    check("svd_denoise_npx", rng.standard_normal((8, 5)), 2, list(range(8)))


def main():
    for seed, fcn in enumerate((cases_cadzow, cases_smooth, cases_spiketrains, cases_voltage)):
        fcn(np.random.default_rng(20200 + seed))
    total = sum(COUNTS.values())
    for name in REF:
        nok, nraise = OUTCOMES.get((name, "ok"), 0), OUTCOMES.get((name, "raise"), 0)
        print(f"{name:28s} {COUNTS.get(name, 0):5d} cases ({nok} returning, {nraise} raising)")
    if FAILURES:
        print(f"DIFFERENT: {len(FAILURES)} of {total} cases")
        for line in FAILURES[:40]:
            print("  " + line)
        return 1
    print(f"identical on all {total} cases")
    return 0


if __name__ == "__main__":
    sys.exit(main())
