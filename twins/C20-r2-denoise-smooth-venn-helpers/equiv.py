import sys, os; sys.path.insert(0, os.path.join(os.path.dirname(os.path.abspath(__file__)), "src"))
"""
Differential equivalence check for the C20 clean-up (helpers extracted + equivalent idioms).

The functions of src/ibldsp/{cadzow,smooth,spiketrains,voltage}.py found next to this file are compared, on
several hundred seeded random and edge-case inputs, with verbatim copies of the ORIGINAL implementations
(reference functions below).  Results must be identical bit for bit: same type, dtype, shape, values
(NaN positions included), same exception type when one is raised, same mutation of the arguments.
Exits 0 when everything is identical, 1 with a message otherwise.
"""
import contextlib
import io
import warnings

import numpy as np
import pandas as pd
import tqdm
from scipy.interpolate import interp1d
from iblutil.numerical import ismember2d, bincount2D

import ibldsp.cadzow as new_cadzow
import ibldsp.smooth as new_smooth
import ibldsp.spiketrains as new_spiketrains
import ibldsp.voltage as new_voltage

warnings.filterwarnings("ignore")

# iblutil.numerical.ismember2d (third party, not part of the change, deterministic) re-compiles a numba kernel at
# each call (~0.3 s) and is called once per trajectory() / denoise() call.  Both the reference and the refactored
# cadzow functions are given the same memoised wrapper of it so that the ~2500 calls below take seconds instead of
# ten minutes; set DEMO_NO_CACHE=1 to run with the bare function (same outcome, much slower).
_ismember2d, _ISMEMBER2D_CACHE = ismember2d, {}


def _ismember2d_cached(a, b):
    key = tuple((np.asarray(v).dtype.str, np.asarray(v).shape, np.asarray(v).tobytes()) for v in (a, b))
    if key not in _ISMEMBER2D_CACHE:
        _ISMEMBER2D_CACHE[key] = _ismember2d(a, b)
    return tuple(v.copy() for v in _ISMEMBER2D_CACHE[key])


if not os.environ.get("DEMO_NO_CACHE"):
    ismember2d = new_cadzow.ismember2d = _ismember2d_cached

# =====================================================================================================
# Reference functions: verbatim copies of the original implementations
# =====================================================================================================

# ---- src/ibldsp/cadzow.py (HEAD) ----
def derank(T, r):
    u, s, v = np.linalg.svd(T)
    # try non-integer rank as a proportion of singular values ?
    # ik = np.searchsorted(np.cumsum(s) / np.sum(s), KEEP)
    T_ = np.zeros_like(T)
    for i in np.arange(r):
        T_ += s[i] * np.outer(u.T[i], v[i])
    return T_


def traj_matrix_indices(n):
    """
    Computes the single spatial dimension Toeplitz-like indices from a number of spatial traces
    :param n: number of dimensions
    :return: 2-D int matrix whose elements are indices of the spatial dimension
    """
    nrows = int(np.floor(n / 2 + 1))
    ncols = int(np.ceil(n / 2))
    itraj = np.tile(np.arange(nrows), (ncols, 1)).T + np.flipud(np.arange(ncols))
    return itraj


def trajectory(x, y):
    """
    Computes the 2 spatial dimensions block-Toeplitz indices from x and y traces coordinates
    Coordinates are assumed to be regularly spaced
    :param x: trace spatial coordinate (np.array)
    :param y: trace spatial coordinate (np.array)
    :return: T: 2-D complex matrix whose elements are the spatial dimensions
    :return: it, itr: (tuple, ndarray) indices such that T[it] = data[itr]
    :return: trcount: count of traces in the trajectory matrix
    """
    xu, ix = np.unique(x, return_inverse=True)
    yu, iy = np.unique(y, return_inverse=True)
    nx, ny = (np.size(xu), np.size(yu))

    tiy_ = traj_matrix_indices(ny)
    tix_ = traj_matrix_indices(nx)
    tiy = np.tile(tiy_, tix_.shape)
    tix = np.repeat(np.repeat(tix_, tiy_.shape[0], axis=0), tiy_.shape[1], axis=1)

    it, itr = ismember2d(np.c_[tix.flatten(), tiy.flatten()], np.c_[ix, iy])
    it = np.unravel_index(np.where(it)[0], tiy.shape)

    T = np.zeros(tix.shape, dtype=np.complex128)

    trcount = np.bincount(itr)
    return T, it, itr, trcount


def denoise(WAV, x, y, r, imax=None, niter=1):
    """
    Applies cadzow denoising by de-ranking spatial matrices in frequency domain
    :param WAV: np array (nc, ns) in frequency domain
    :param x: trace spatial coordinate np.array (nc)
    :param y: trace spatial coordinate np.array (nc)
    :param r: rank
    :param imax: index of the maximum frequency to keep, all frequencies are de-ranked if None (None)
    :param niter: number of iterations (1)
    :return: WAV_: np array nc / ns in frequency domain
    """
    WAV_ = np.zeros_like(WAV)
    WAV0 = np.copy(WAV)
    imax = np.minimum(WAV.shape[-1], imax) if imax else WAV.shape[-1]
    T, it, itr, trcount = trajectory(x, y)
    for _ in np.arange(niter):
        for ind_f in np.arange(imax):
            T[it] = WAV0[itr, ind_f]
            T_ = derank(T, r)
            WAV_[:, ind_f] = np.bincount(itr, weights=np.real(T_[it]))
            WAV_[:, ind_f] += 1j * np.bincount(itr, weights=np.imag(T_[it]))
            WAV_[:, ind_f] /= trcount
        WAV0 = WAV_.copy()
    return WAV_



# ---- src/ibldsp/smooth.py (HEAD) ----
def rolling_window(x, window_len=11, window="blackman"):
    """
    Smooth the data using a window with requested size.

    This method is based on the convolution of a scaled window with the signal.
    The signal is prepared by introducing reflected copies of the signal
    (with the window size) in both ends so that transient parts are minimized
    in the beginning and end part of the output signal.

    :param x: The input signal
    :type x: list or numpy.array
    :param window_len: The dimension of the smoothing window,
                       should be an **odd** integer, defaults to 11
    :type window_len: int, optional
    :param window: The type of window from ['flat', 'hanning', 'hamming',
                   'bartlett', 'blackman']
                   flat window will produce a moving average smoothing,
                   defaults to 'blackman'
    :type window: str, optional
    :raises ValueError: Smooth only accepts 1 dimension arrays.
    :raises ValueError: Input vector needs to be bigger than window size.
    :raises ValueError: Window is not one of 'flat', 'hanning', 'hamming',
                        'bartlett', 'blackman'
    :return: Smoothed array
    :rtype: numpy.array
    """
    # **NOTE:** length(output) != length(input), to correct this:
    # return y[(window_len/2-1):-(window_len/2)] instead of just y.
    if isinstance(x, list):
        x = np.array(x)

    if x.ndim != 1:
        raise ValueError("smooth only accepts 1 dimension arrays.")

    if x.size < window_len:
        raise ValueError("Input vector needs to be bigger than window size.")

    if window_len < 3:
        return x

    if window not in ["flat", "hanning", "hamming", "bartlett", "blackman"]:
        raise ValueError(
            "Window is not one of 'flat', 'hanning', 'hamming',\
'bartlett', 'blackman'"
        )

    s = np.r_[x[window_len - 1: 0: -1], x, x[-1:-window_len:-1]]
    # print(len(s))
    if window == "flat":  # moving average
        w = np.ones(window_len, "d")
    else:
        w = eval("np." + window + "(window_len)")

    y = np.convolve(w / w.sum(), s, mode="valid")
    return y[round((window_len / 2 - 1)): round(-(window_len / 2))]


def non_uniform_savgol(x, y, window, polynom):
    """Applies a Savitzky-Golay filter to y with non-uniform spacing as defined in x.
    This is based on
    https://dsp.stackexchange.com/questions/1676/savitzky-golay-smoothing-filter-for-not-equally-spaced-data
    The borders are interpolated like scipy.signal.savgol_filter would do
    https://dsp.stackexchange.com/a/64313
    Parameters
    ----------
    x : array_like
        List of floats representing the x values of the data
    y : array_like
        List of floats representing the y values. Must have same length as x
    window : int (odd)
        Window length of datapoints. Must be odd and smaller than x
    polynom : int
        The order of polynom used. Must be smaller than the window size
    Returns
    -------
    np.array
        The smoothed y values
    """

    if len(x) != len(y):
        raise ValueError('"x" and "y" must be of the same size')
    if len(x) < window:
        raise ValueError("The data size must be larger than the window size")
    if type(window) is not int:
        raise TypeError('"window" must be an integer')
    if window % 2 == 0:
        raise ValueError('The "window" must be an odd integer')
    if type(polynom) is not int:
        raise TypeError('"polynom" must be an integer')
    if polynom >= window:
        raise ValueError('"polynom" must be less than "window"')

    half_window = window // 2
    polynom += 1

    # Initialize variables
    A = np.empty((window, polynom))  # Matrix
    tA = np.empty((polynom, window))  # Transposed matrix
    t = np.empty(window)  # Local x variables
    y_smoothed = np.full(len(y), np.nan)

    # Start smoothing
    for i in range(half_window, len(x) - half_window, 1):
        # Center a window of x values on x[i]
        for j in range(0, window, 1):
            t[j] = x[i + j - half_window] - x[i]

        # Create the initial matrix A and its transposed form tA
        for j in range(0, window, 1):
            r = 1.0
            for k in range(0, polynom, 1):
                A[j, k] = r
                tA[k, j] = r
                r *= t[j]

        # Multiply the two matrices
        tAA = np.matmul(tA, A)
        # Invert the product of the matrices
        tAA = np.linalg.inv(tAA)
        # Calculate the pseudoinverse of the design matrix
        coeffs = np.matmul(tAA, tA)
        # Calculate c0 which is also the y value for y[i]
        y_smoothed[i] = 0
        for j in range(0, window, 1):
            y_smoothed[i] += coeffs[0, j] * y[i + j - half_window]

        # If at the end or beginning, store all coefficients for the polynom
        if i == half_window:
            first_coeffs = np.zeros(polynom)
            for j in range(0, window, 1):
                for k in range(polynom):
                    first_coeffs[k] += coeffs[k, j] * y[j]
        elif i == len(x) - half_window - 1:
            last_coeffs = np.zeros(polynom)
            for j in range(0, window, 1):
                for k in range(polynom):
                    last_coeffs[k] += coeffs[k, j] * y[len(y) - window + j]

    # Interpolate the result at the left border
    for i in range(0, half_window, 1):
        y_smoothed[i] = 0
        x_i = 1
        for j in range(0, polynom, 1):
            y_smoothed[i] += first_coeffs[j] * x_i
            x_i *= x[i] - x[half_window]

    # Interpolate the result at the right border
    for i in range(len(x) - half_window, len(x), 1):
        y_smoothed[i] = 0
        x_i = 1
        for j in range(0, polynom, 1):
            y_smoothed[i] += last_coeffs[j] * x_i
            x_i *= x[i] - x[-half_window - 1]

    return y_smoothed


def smooth_interpolate_savgol(signal, window=31, order=3, interp_kind="cubic"):
    """Run savitzy-golay filter on signal, interpolate through nan points.

    Parameters
    ----------
    signal : np.ndarray
        original noisy signal of shape (t,), may contain nans
    window : int
        window of polynomial fit for savitzy-golay filter
    order : int
        order of polynomial for savitzy-golay filter
    interp_kind : str
        type of interpolation for nans, e.g. 'linear', 'quadratic', 'cubic'
    Returns
    -------
    np.array
        smoothed, interpolated signal for each time point, shape (t,)
    """

    signal_noisy_w_nans = np.copy(signal)
    timestamps = np.arange(signal_noisy_w_nans.shape[0])
    good_idxs = np.where(~np.isnan(signal_noisy_w_nans))[0]
    # perform savitzky-golay filtering on non-nan points
    signal_smooth_nonans = non_uniform_savgol(
        timestamps[good_idxs],
        signal_noisy_w_nans[good_idxs],
        window=window,
        polynom=order,
    )
    signal_smooth_w_nans = np.copy(signal_noisy_w_nans)
    signal_smooth_w_nans[good_idxs] = signal_smooth_nonans
    # interpolate nan points
    interpolater = interp1d(
        timestamps[good_idxs],
        signal_smooth_nonans,
        kind=interp_kind,
        fill_value="extrapolate",
    )
    signal = interpolater(timestamps)

    return signal



# ---- src/ibldsp/spiketrains.py (HEAD) ----
def _spikes_venn(
    samples_tuple,
    channels_tuple,
    samples_binsize,
    channels_binsize,
    fs,
    num_channels,
    chunk_size,
    num_sorters,
):
    """
    Internal spike venn generation for n sorters.
    """
    if not samples_binsize:
        # set default: 0.4 ms
        samples_binsize = int(0.4 * fs / 1000)

    if not chunk_size:
        # set default: 20 s
        chunk_size = 20 * fs

    # find the timestamp of the last spike detected by any of the sorters
    # to calibrate chunking
    max_samples = max([np.max(samples) for samples in samples_tuple])
    num_chunks = int((max_samples // chunk_size) + 1)

    # each spike falls into one of 7 conditions based on whether it was found
    # by different sortings
    cond_names = [format(i, f"0{num_sorters}b") for i in range(1, 2**num_sorters)]
    pre_result = np.zeros(2**num_sorters - 1, int)
    vec = np.array([2**i for i in range(num_sorters - 1, -1, -1)])

    print(f"Running spike venning routine with {num_chunks} chunks.")
    for ch in tqdm.tqdm(range(num_chunks)):
        # select spikes within this chunk's time snippet
        sample_offset = ch * chunk_size
        spike_indices = [
            slice(
                *np.searchsorted(samples, [sample_offset, sample_offset + chunk_size])
            )
            for samples in samples_tuple
        ]
        # get corresponding spike sample times and channels
        samples_chunks = [
            samples[spike_indices[i]].astype(int) - sample_offset
            for i, samples in enumerate(samples_tuple)
        ]
        channels_chunks = [
            channels[spike_indices[i]].astype(int)
            for i, channels in enumerate(channels_tuple)
        ]

        # compute fast 2D bin count for each sorter, resulting in an (3, num_bins)
        # array where the (i, j) number is the number of spikes found by sorter i
        # in (linearized) bin j.
        bin_counts = np.array(
            [
                bincount2D(
                    samples_chunks[i],
                    channels_chunks[i],
                    samples_binsize,
                    channels_binsize,
                    [0, chunk_size],
                    [0, num_channels],
                )[0].flatten()
                for i in range(num_sorters)
            ]
        )

        # this process iteratively counts the number of spikes falling into each
        # of the 7 conditions by separating out which spikes must have been found
        # by each spike sorter within each bin, and updates the master `pre_result`
        # count array for this chunk
        max_per_spike = np.amax(bin_counts, axis=0)
        overall_max = np.max(max_per_spike)

        for i in range(0, overall_max):
            ind = max_per_spike - i > 0
            venn_info = bin_counts[:, ind] >= (max_per_spike - i)[ind]
            venn_info_int = vec @ venn_info
            conds, counts = np.unique(venn_info_int, return_counts=True)
            pre_result[conds - 1] += counts

    return dict(zip(cond_names, pre_result))



# ---- src/ibldsp/voltage.py (HEAD) ----
def stack(data, word, fcn_agg=np.nanmean, header=None):
    """
    Stack numpy array traces according to the word vector
    :param data: (ntr, ns) numpy array of sample values
    :param word: (ntr) label according to which the traces will be aggregated (usually cdp)
    :param header: dictionary of vectors (ntr): header labels, will be aggregated as average
    :param fcn_agg: function, defaults to np.mean but could be np.sum or np.median
    :return: stack (ntr_stack, ns): aggregated numpy array
             header ( ntr_stack): aggregated header. If no header is provided, fold of coverage
    """
    (ntr, ns) = data.shape
    group, uinds, fold = np.unique(word, return_inverse=True, return_counts=True)
    ntrs = group.size

    stack = np.zeros((ntrs, ns), dtype=data.dtype)
    for sind in np.arange(ntrs):
        i2stack = sind == uinds
        stack[sind, :] = fcn_agg(data[i2stack, :], axis=0)

    # aggregate the header using pandas
    if header is None:
        hstack = fold
    else:
        header["stack_word"] = word
        dfh = pd.DataFrame(header).groupby("stack_word")
        hstack = dfh.aggregate("mean").to_dict(orient="series")
        hstack = {k: hstack[k].values for k in hstack.keys()}
        hstack["fold"] = fold

    return stack, hstack


def _svd_denoise(datr, rank):
    """
    SVD Encoder: does the decomposition, derank the mtrix and reproject in the feature's space
    :param datr: input matrix
    :param rank: (int) rank of the SVD to be reconstructed
    """
    U, sigma, V = np.linalg.svd(datr, full_matrices=False)
    return np.matmul(np.matmul(U[:, :rank], np.diag(sigma[:rank])), V[:rank, :])


def svd_denoise_npx(datr, rank=None, collection=None):
    """

    :param datr: [nc, ns]
    :param rank:
    :param collection:
    :return:
    """
    svd = np.zeros_like(datr)
    nc = datr.shape[0]
    rank = rank or nc // 4
    if collection is None:
        collection = np.zeros(nc, dtype=int)
    for col in np.unique(collection):
        ind = np.where(collection == col)[0]
        isort = np.argsort(collection[ind])
        itr = ind[isort]
        svd[itr, :] = _svd_denoise(datr[itr, :], rank=int(rank * ind.size / nc))
    return svd


# =====================================================================================================
# Comparison machinery
# =====================================================================================================
N_CASES = 0
FAILURES = []


def same(a, b):
    """Exact recursive comparison: type, dtype, shape, bits"""
    if isinstance(a, np.ndarray) or isinstance(b, np.ndarray):
        if not (isinstance(a, np.ndarray) and isinstance(b, np.ndarray)):
            return False
        if type(a) is not type(b) or a.dtype != b.dtype or a.shape != b.shape:
            return False
        if a.dtype.kind in "fc":
            return bool(np.array_equal(a, b, equal_nan=True)) and a.tobytes() == b.tobytes()
        return bool(np.array_equal(a, b))
    if type(a) is not type(b):
        return False
    if isinstance(a, dict):
        return list(a.keys()) == list(b.keys()) and all(same(a[k], b[k]) for k in a)
    if isinstance(a, (tuple, list)):
        return len(a) == len(b) and all(same(u, v) for u, v in zip(a, b))
    if isinstance(a, slice):
        return a == b
    if isinstance(a, (float, np.floating)) and np.isnan(a) and np.isnan(b):
        return True
    return bool(a == b)


def clone(o):
    if isinstance(o, np.ndarray):
        return o.copy()
    if isinstance(o, dict):
        return {k: clone(v) for k, v in o.items()}
    if isinstance(o, list):
        return [clone(v) for v in o]
    if isinstance(o, tuple):
        return tuple(clone(v) for v in o)
    return o


def run(fcn, args, kwargs):
    sink = io.StringIO()
    try:
        with contextlib.redirect_stdout(sink), contextlib.redirect_stderr(sink):
            return "ok", fcn(*args, **kwargs)
    except Exception as e:  # noqa
        return "raised", type(e)


def check(label, ref_fcn, new_fcn, *args, **kwargs):
    """Runs both implementations on independent copies of the arguments and compares outcome and arguments"""
    global N_CASES
    N_CASES += 1
    args_ref, kwargs_ref = clone(args), clone(kwargs)
    args_new, kwargs_new = clone(args), clone(kwargs)
    out_ref = run(ref_fcn, args_ref, kwargs_ref)
    out_new = run(new_fcn, args_new, kwargs_new)
    if out_ref[0] != out_new[0]:
        FAILURES.append(f"{label}: reference {out_ref[0]} ({out_ref[1]!r:.80}) / refactored {out_new[0]} ({out_new[1]!r:.80})")
    elif out_ref[0] == "raised" and out_ref[1] is not out_new[1]:
        FAILURES.append(f"{label}: exception {out_ref[1].__name__} became {out_new[1].__name__}")
    elif out_ref[0] == "ok" and not same(out_ref[1], out_new[1]):
        FAILURES.append(f"{label}: results differ")
    elif not same(args_ref, args_new) or not same(kwargs_ref, kwargs_new):
        FAILURES.append(f"{label}: arguments are not mutated the same way")
    return out_ref


# =====================================================================================================
# Input generators
# =====================================================================================================
def layout(rng, ncols, nrows, kind):
    """Site coordinates of a probe-like layout: ncols columns, nrows rows, optionally staggered / shuffled"""
    col, row = [a.flatten() for a in np.meshgrid(np.arange(ncols), np.arange(nrows))]
    if kind == "staggered" and ncols >= 2:
        # Neuropixel 1 like checkerboard: regular grid of 2 * ncols abscissae of which half is populated
        x = (col * 2 + row % 2) * 16.0 + 11
    else:
        x = col * 32.0 + 27
    y = row * 20.0 + 20
    if kind == "shuffled":
        order = rng.permutation(x.size)
        x, y = x[order], y[order]
    return x, y


def plane_wave(x, y, freqs, kx, ky):
    return np.exp(1j * 2 * np.pi * (np.outer(x, kx * freqs) + np.outer(y, ky * freqs)))


def test_cadzow(rng):
    sizes = [(1, 4), (1, 7), (2, 4), (2, 9), (3, 5), (4, 4), (2, 16), (4, 10), (1, 40), (2, 40), (3, 12), (4, 20)]
    for icase, (ncols, nrows) in enumerate(sizes):
        for kind in ("regular", "staggered", "shuffled"):
            x, y = layout(rng, ncols, nrows, kind)
            label = f"cadzow[{ncols}x{nrows} {kind}]"
            out = check(f"{label} trajectory", trajectory, new_cadzow.trajectory, x, y)
            if out[0] != "ok":
                continue
            T = out[1][0]
            full = min(T.shape)
            nf = int(rng.integers(2, 6))
            freqs = rng.uniform(0.001, 0.02, nf)
            noise = rng.standard_normal((x.size, nf)) + 1j * rng.standard_normal((x.size, nf))
            wavs = {
                "noise": noise,
                "plane": plane_wave(x, y, freqs, 0.3, 0.7),
                "plane+noise": plane_wave(x, y, freqs, -0.2, 0.4) + 0.1 * noise,
            }
            ranks = sorted({1, 2, max(1, full // 2), full})
            for name, WAV in wavs.items():
                for r in ranks:
                    for dtype in (np.complex128, np.complex64):
                        imax = [None, 1, nf + 3][int(rng.integers(0, 3))]
                        niter = int(rng.integers(1, 3))
                        check(f"{label} denoise {name} r={r} {dtype.__name__}", denoise, new_cadzow.denoise,
                              WAV.astype(dtype), x, y, r, imax=imax, niter=niter)
            # numpy integer rank, rank above the full rank (IndexError), real input (casting error)
            check(f"{label} denoise np.int64 rank", denoise, new_cadzow.denoise, wavs["noise"], x, y, np.int64(1))
            check(f"{label} denoise rank too large", denoise, new_cadzow.denoise, wavs["noise"], x, y, full + 1)
            check(f"{label} denoise real input", denoise, new_cadzow.denoise, np.real(wavs["noise"]), x, y, 1)
            # derank on its own, with random complex and real matrices of the trajectory shape
            for r in ranks:
                M = rng.standard_normal(T.shape) + 1j * rng.standard_normal(T.shape)
                check(f"{label} derank complex r={r}", derank, new_cadzow.derank, M, r)
                check(f"{label} derank real r={r}", derank, new_cadzow.derank, np.real(M), r)
            check(f"{label} derank r=0", derank, new_cadzow.derank, T + 1.0, 0)
            check(f"{label} derank too large", derank, new_cadzow.derank, T + 1.0, full + 1)
    # integer coordinates, single site, empty layout
    check("cadzow trajectory int coords", trajectory, new_cadzow.trajectory, np.array([0, 1, 0, 1]), np.array([0, 0, 1, 1]))
    check("cadzow trajectory single site", trajectory, new_cadzow.trajectory, np.array([3.0]), np.array([5.0]))
    check("cadzow trajectory empty", trajectory, new_cadzow.trajectory, np.array([]), np.array([]))


def test_svd(rng):
    for icase in range(60):
        nc = int(rng.integers(4, 49))
        ns = int(rng.integers(4, 80))
        dtype = [np.float64, np.float32][icase % 2]
        low_rank = rng.standard_normal((nc, 2)) @ rng.standard_normal((2, ns))
        datr = (low_rank + [0, 0.1, 1][icase % 3] * rng.standard_normal((nc, ns))).astype(dtype)
        rank = [None, 1, 2, nc // 2, nc, nc + 5][int(rng.integers(0, 6))]
        collection = [None, rng.integers(0, 3, nc), np.arange(nc) % 4, np.zeros(nc)][int(rng.integers(0, 4))]
        label = f"svd[{icase} {nc}x{ns} {dtype.__name__} rank={rank}]"
        check(f"{label} svd_denoise_npx", svd_denoise_npx, new_voltage.svd_denoise_npx, datr, rank=rank, collection=collection)
        for r in (0, 1, min(nc, ns) // 2, min(nc, ns), min(nc, ns) + 3):
            check(f"{label} _svd_denoise r={r}", _svd_denoise, new_voltage._svd_denoise, datr, r)
    check("svd int data", svd_denoise_npx, new_voltage.svd_denoise_npx, rng.integers(-5, 5, (8, 12)), rank=2)
    check("svd 1d data", svd_denoise_npx, new_voltage.svd_denoise_npx, rng.standard_normal(8), rank=2)
    check("svd nan data", svd_denoise_npx, new_voltage.svd_denoise_npx, np.full((8, 12), np.nan), rank=2)
    check("svd list collection", svd_denoise_npx, new_voltage.svd_denoise_npx, rng.standard_normal((4, 6)), rank=2,
          collection=[0, 0, 1, 1])


def test_stack(rng):
    for icase in range(60):
        ntr = int(rng.integers(1, 40))
        ns = int(rng.integers(1, 30))
        dtype = [np.float64, np.float32, np.int32, np.int64][icase % 4]
        data = (rng.standard_normal((ntr, ns)) * 10).astype(dtype)
        if dtype in (np.float64, np.float32) and icase % 3 == 0:
            data[rng.random((ntr, ns)) < 0.2] = np.nan
        word = [
            rng.integers(0, 5, ntr),
            rng.integers(-3, 3, ntr).astype(np.float64),
            np.array(["a", "bb", "c"])[rng.integers(0, 3, ntr)],
            np.zeros(ntr, dtype=int),
            np.arange(ntr)[::-1].copy(),
        ][int(rng.integers(0, 5))]
        fcn_agg = [np.nanmean, np.mean, np.sum, np.median, np.nanmedian, np.max][int(rng.integers(0, 6))]
        header = [
            None,
            {"cdp": rng.integers(0, 9, ntr), "offset": rng.standard_normal(ntr)},
            {"x": rng.standard_normal(ntr).astype(np.float32)},
            {},
        ][int(rng.integers(0, 4))]
        label = f"stack[{icase} {ntr}x{ns} {dtype.__name__} {fcn_agg.__name__}]"
        check(label, stack, new_voltage.stack, data, word, fcn_agg=fcn_agg, header=header)
    data = rng.standard_normal((6, 5))
    check("stack defaults", stack, new_voltage.stack, data, np.array([0, 0, 1, 1, 2, 2]))
    check("stack wrong word size", stack, new_voltage.stack, data, np.array([0, 0, 1]))
    check("stack wrong header size", stack, new_voltage.stack, data, np.arange(6) % 2, header={"a": np.arange(3)})
    check("stack text header", stack, new_voltage.stack, data, np.arange(6) % 2, header={"a": np.array(list("abcdef"))})
    check("stack 1d data", stack, new_voltage.stack, data[0], np.arange(5))
    check("stack empty", stack, new_voltage.stack, np.zeros((0, 4)), np.array([], dtype=int))


def test_rolling_window(rng):
    windows = ["flat", "hanning", "hamming", "bartlett", "blackman"]
    for icase in range(100):
        n = int(rng.integers(1, 120))
        window_len = int(rng.integers(0, 25))
        x = rng.standard_normal(n).cumsum()
        x = [x, x.astype(np.float32), np.round(x * 10).astype(np.int64), list(x), np.full(n, 3.25)][icase % 5]
        window = windows[int(rng.integers(0, 5))]
        label = f"rolling_window[{icase} n={n} wl={window_len} {window}]"
        check(label, rolling_window, new_smooth.rolling_window, x, window_len=window_len, window=window)
    x = rng.standard_normal(50)
    check("rolling_window defaults", rolling_window, new_smooth.rolling_window, x)
    check("rolling_window positional", rolling_window, new_smooth.rolling_window, x, 7, "flat")
    check("rolling_window size == window_len", rolling_window, new_smooth.rolling_window, x[:11], 11)
    check("rolling_window size < window_len", rolling_window, new_smooth.rolling_window, x[:10], 11)
    check("rolling_window 2d", rolling_window, new_smooth.rolling_window, x.reshape(5, 10), 3)
    check("rolling_window bad window", rolling_window, new_smooth.rolling_window, x, 5, "kaiser")
    check("rolling_window bad window short", rolling_window, new_smooth.rolling_window, x, 2, "kaiser")
    check("rolling_window tuple", rolling_window, new_smooth.rolling_window, tuple(x), 5)
    check("rolling_window float window_len", rolling_window, new_smooth.rolling_window, x, 5.0)
    check("rolling_window np.int64 window_len", rolling_window, new_smooth.rolling_window, x, np.int64(9), "hamming")
    check("rolling_window nan", rolling_window, new_smooth.rolling_window, np.r_[x[:20], np.nan, x[20:]], 5, "flat")
    check("rolling_window complex", rolling_window, new_smooth.rolling_window, x + 1j * x[::-1], 5, "bartlett")
    check("rolling_window non contiguous", rolling_window, new_smooth.rolling_window, x[::-2], 7, "hanning")


def test_savgol(rng):
    for icase in range(120):
        window = int(rng.choice([1, 3, 5, 7, 9, 11, 21]))
        polynom = int(rng.integers(0, min(window, 6)))
        n = int(window + [0, 1, 2, rng.integers(3, 60)][int(rng.integers(0, 4))])
        x = np.sort(rng.uniform(-5, 5, n))
        if icase % 4 == 1:
            x = np.cumsum(rng.integers(1, 4, n))  # integer irregular abscissae
        elif icase % 4 == 2:
            x = np.arange(n) * 0.5
        degree = int(rng.integers(0, 5))
        xf = np.asarray(x, dtype=np.float64)
        y = np.polyval(rng.standard_normal(degree + 1), xf) + [0, 0.1][icase % 2] * rng.standard_normal(n)
        variant = icase % 6
        if variant == 1:
            x, y = list(x), list(y)
        elif variant == 2:
            y = y.astype(np.float32)
        elif variant == 3:
            y = np.round(y * 3).astype(np.int64)
        elif variant == 4:
            x = x.astype(np.float32)
        label = f"non_uniform_savgol[{icase} n={n} window={window} polynom={polynom} variant={variant}]"
        check(label, non_uniform_savgol, new_smooth.non_uniform_savgol, x, y, window, polynom)
    x = np.sort(rng.uniform(0, 10, 30))
    y = rng.standard_normal(30)
    nus = (non_uniform_savgol, new_smooth.non_uniform_savgol)
    check("savgol keywords", *nus, x=x, y=y, window=7, polynom=2)
    check("savgol size mismatch", *nus, x, y[:-1], 7, 2)
    check("savgol data shorter than window", *nus, x[:5], y[:5], 7, 2)
    check("savgol window == size (no last window)", *nus, x[:7], y[:7], 7, 2)
    check("savgol float window", *nus, x, y, 7.0, 2)
    check("savgol np.int64 window", *nus, x, y, np.int64(7), 2)
    check("savgol even window", *nus, x, y, 8, 2)
    check("savgol float polynom", *nus, x, y, 7, 2.0)
    check("savgol polynom == window", *nus, x, y, 7, 7)
    check("savgol polynom == window - 1", *nus, x, y, 7, 6)
    check("savgol duplicate abscissae (singular)", *nus, np.zeros(30), y, 7, 2)
    check("savgol repeated abscissae", *nus, np.repeat(x[:15], 2), y, 5, 3)
    check("savgol nan in y", *nus, x, np.r_[y[:10], np.nan, y[11:]], 7, 2)
    check("savgol nan in x", *nus, np.r_[x[:10], np.nan, x[11:]], y, 7, 2)
    check("savgol large integer abscissae", *nus, np.arange(30) * 100000, y, 5, 4)
    check("savgol 2d y", *nus, x, np.c_[y, y], 7, 2)
    check("savgol complex y", *nus, x, y + 1j * y, 7, 2)
    check("savgol window 1", *nus, x, y, 1, 0)

    sis = (smooth_interpolate_savgol, new_smooth.smooth_interpolate_savgol)
    for icase in range(60):
        n = int(rng.integers(12, 200))
        signal = np.cumsum(rng.standard_normal(n))
        if icase % 5 == 4:
            signal = signal.astype(np.float32)
        pnan = [0, 0.05, 0.3, 0.6][icase % 4]
        signal[rng.random(n) < pnan] = np.nan
        if icase % 7 == 0:
            signal[:3] = np.nan
        if icase % 11 == 0:
            signal[-4:] = np.nan
        window = int(rng.choice([5, 7, 11, 31]))
        order = int(rng.integers(0, 5))
        kind = ["cubic", "linear", "quadratic", "nearest"][int(rng.integers(0, 4))]
        label = f"smooth_interpolate_savgol[{icase} n={n} window={window} order={order} {kind} pnan={pnan}]"
        check(label, *sis, signal, window=window, order=order, interp_kind=kind)
    check("smooth_interpolate_savgol defaults", *sis, np.cumsum(rng.standard_normal(100)))
    check("smooth_interpolate_savgol all nan", *sis, np.full(50, np.nan), window=5)
    check("smooth_interpolate_savgol too short", *sis, rng.standard_normal(20))
    check("smooth_interpolate_savgol int", *sis, rng.integers(0, 9, 50), window=7)


def spike_trains(rng, num_sorters, nspikes, tmax, num_channels, dtype):
    samples, channels = [], []
    base_s = np.sort(rng.integers(0, tmax, nspikes))
    base_c = rng.integers(0, num_channels, nspikes)
    for _ in range(num_sorters):
        keep = rng.random(nspikes) < rng.uniform(0.3, 1.0)
        extra = int(rng.integers(0, nspikes // 2 + 1))
        s = np.r_[base_s[keep] + rng.integers(-2, 3, keep.sum()), rng.integers(0, tmax, extra)]
        c = np.r_[base_c[keep], rng.integers(0, num_channels, extra)]
        s = np.clip(s, 0, tmax - 1)
        order = np.argsort(s, kind="stable")
        samples.append(s[order].astype(dtype))
        channels.append(c[order].astype(dtype))
    return tuple(samples), tuple(channels)


def test_spiketrains(rng):
    for icase in range(80):
        num_sorters = 2 + icase % 2
        num_channels = int(rng.choice([8, 16, 32, 64]))
        tmax = int(rng.integers(50, 4000))
        nspikes = int(rng.integers(1, 400))
        dtype = [np.int64, np.float64, np.int32, np.uint32][icase % 4]
        samples_tuple, channels_tuple = spike_trains(rng, num_sorters, nspikes, tmax, num_channels, dtype)
        if any(s.size == 0 for s in samples_tuple) and icase % 2:
            continue
        samples_binsize = [None, 3, 7, 12][int(rng.integers(0, 4))]
        channels_binsize = int(rng.choice([1, 2, 4]))
        fs = int(rng.choice([2500, 10000, 30000]))
        chunk_size = [None, 60, 240, 1000, tmax, tmax * 3][int(rng.integers(0, 6))]
        label = f"spikes_venn[{icase} sorters={num_sorters} n={nspikes} chunk={chunk_size} bin={samples_binsize}]"
        args = (samples_tuple, channels_tuple, samples_binsize, channels_binsize, fs, num_channels, chunk_size)
        check(f"{label} _spikes_venn", _spikes_venn, new_spiketrains._spikes_venn, *args, num_sorters)
        wrapper = new_spiketrains.spikes_venn2 if num_sorters == 2 else new_spiketrains.spikes_venn3
        check(f"{label} wrapper", lambda *a: _spikes_venn(*a, num_sorters), wrapper, *args)
    s = (np.array([1, 5, 5, 5, 90]), np.array([5, 5, 40, 91]))
    c = (np.array([0, 3, 3, 3, 7]), np.array([3, 3, 2, 7]))
    sv = (_spikes_venn, new_spiketrains._spikes_venn)
    check("spikes_venn repeated spikes", *sv, s, c, 4, 2, 30000, 8, 50, 2)
    check("spikes_venn one sorter empty", *sv, (s[0], np.array([], dtype=int)), (c[0], np.array([], dtype=int)), 4, 2, 30000, 8, 50, 2)
    check("spikes_venn empty chunk in the middle", *sv, (np.array([1, 400]), np.array([2, 401])), (np.array([1, 1]), np.array([1, 1])),
          4, 2, 30000, 8, 50, 2)
    check("spikes_venn channel out of range", *sv, s, (c[0] + 20, c[1]), 4, 2, 30000, 8, 50, 2)
    check("spikes_venn one sorter only", *sv, s[:1], c[:1], 4, 2, 30000, 8, 50, 1)
    check("spikes_venn float chunk size", *sv, s, c, 4, 2, 30000, 8, 50.0, 2)
    check("spikes_venn lists", *sv, ([1, 5], [2, 5]), ([0, 1], [0, 1]), 4, 2, 30000, 8, 50, 2)


def main():
    for name, test in (("cadzow", test_cadzow), ("svd", test_svd), ("stack", test_stack), ("rolling_window", test_rolling_window),
                       ("savgol", test_savgol), ("spiketrains", test_spiketrains)):
        n0, f0 = N_CASES, len(FAILURES)
        test(np.random.default_rng(20 + len(name)))
        print(f"{name:16s}: {N_CASES - n0:4d} cases, {len(FAILURES) - f0} differences")
    if FAILURES:
        print(f"NOT EQUIVALENT: {len(FAILURES)} of {N_CASES} cases differ")
        for f in FAILURES[:40]:
            print("  " + f)
        return 1
    print(f"OK: {N_CASES} cases, refactored and original implementations identical bit for bit")
    return 0


if __name__ == "__main__":
    sys.exit(main())
