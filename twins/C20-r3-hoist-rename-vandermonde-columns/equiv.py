import sys, os; sys.path.insert(0, os.path.join(os.path.dirname(os.path.abspath(__file__)), "src"))
"""
Differential equivalence check for the C20 clean-up (r3-hoist-rename-vandermonde-columns).

The refactored functions are imported from ./src; the ORIGINAL implementations of every function that was changed are
carried below verbatim as reference functions.  Seeded random and edge-case inputs are pushed through both and the
results are compared exactly (type, dtype, shape, values with NaN == NaN, or the type of the exception raised).
Exits 0 when everything is identical, 1 with a message otherwise.
"""
import contextlib
import io
import time
import warnings

import numpy as np
import pandas as pd
import tqdm
import iblutil.numerical
from iblutil.numerical import bincount2D

import ibldsp.cadzow
import ibldsp.smooth
import ibldsp.spiketrains
import ibldsp.voltage


_ISMEMBER2D_CACHE = {}


def ismember2d(a, b):
    """
    iblutil.numerical.ismember2d re-compiles a numba function at each call (0.3 s): as it is a pure function of its
    arguments, the results are memoised on the exact content of the arguments (dtype, shape, bytes) to keep the run time
    of this script reasonable.  Used by the reference functions below and injected in the refactored module.
    """
    key = tuple((v.dtype.str, v.shape, np.ascontiguousarray(v).tobytes()) for v in (a, b))
    if key not in _ISMEMBER2D_CACHE:
        _ISMEMBER2D_CACHE[key] = iblutil.numerical.ismember2d(a, b)
    return tuple(v.copy() for v in _ISMEMBER2D_CACHE[key])


ibldsp.cadzow.ismember2d = ismember2d


# ----------------------------------------------------------------------------------------------------
# Verbatim copies of the ORIGINAL implementations (git HEAD), wrapped in factory functions so that the
# reference functions call each other (and not the refactored ones) under their original names.
# ----------------------------------------------------------------------------------------------------

def _reference_cadzow():
    def derank(T, r):
        u, s, v = np.linalg.svd(T)
        # try non-integer rank as a proportion of singular values ?
        # ik = np.searchsorted(np.cumsum(s) / np.sum(s), KEEP)
        T_ = np.zeros_like(T)
        for i in np.arange(r):
            T_ += s[i] * np.outer(u.T[i], v[i])
        return T_


    def traj_matrix_indices(n):
        """
        Computes the single spatial dimension Toeplitz-like indices from a number of spatial traces
        :param n: number of dimensions
        :return: 2-D int matrix whose elements are indices of the spatial dimension
        """
        nrows = int(np.floor(n / 2 + 1))
        ncols = int(np.ceil(n / 2))
        itraj = np.tile(np.arange(nrows), (ncols, 1)).T + np.flipud(np.arange(ncols))
        return itraj


    def trajectory(x, y):
        """
        Computes the 2 spatial dimensions block-Toeplitz indices from x and y traces coordinates
        Coordinates are assumed to be regularly spaced
        :param x: trace spatial coordinate (np.array)
        :param y: trace spatial coordinate (np.array)
        :return: T: 2-D complex matrix whose elements are the spatial dimensions
        :return: it, itr: (tuple, ndarray) indices such that T[it] = data[itr]
        :return: trcount: count of traces in the trajectory matrix
        """
        xu, ix = np.unique(x, return_inverse=True)
        yu, iy = np.unique(y, return_inverse=True)
        nx, ny = (np.size(xu), np.size(yu))

        tiy_ = traj_matrix_indices(ny)
        tix_ = traj_matrix_indices(nx)
        tiy = np.tile(tiy_, tix_.shape)
        tix = np.repeat(np.repeat(tix_, tiy_.shape[0], axis=0), tiy_.shape[1], axis=1)

        it, itr = ismember2d(np.c_[tix.flatten(), tiy.flatten()], np.c_[ix, iy])
        it = np.unravel_index(np.where(it)[0], tiy.shape)

        T = np.zeros(tix.shape, dtype=np.complex128)

        trcount = np.bincount(itr)
        return T, it, itr, trcount


    def denoise(WAV, x, y, r, imax=None, niter=1):
        """
        Applies cadzow denoising by de-ranking spatial matrices in frequency domain
        :param WAV: np array (nc, ns) in frequency domain
        :param x: trace spatial coordinate np.array (nc)
        :param y: trace spatial coordinate np.array (nc)
        :param r: rank
        :param imax: index of the maximum frequency to keep, all frequencies are de-ranked if None (None)
        :param niter: number of iterations (1)
        :return: WAV_: np array nc / ns in frequency domain
        """
        WAV_ = np.zeros_like(WAV)
        WAV0 = np.copy(WAV)
        imax = np.minimum(WAV.shape[-1], imax) if imax else WAV.shape[-1]
        T, it, itr, trcount = trajectory(x, y)
        for _ in np.arange(niter):
            for ind_f in np.arange(imax):
                T[it] = WAV0[itr, ind_f]
                T_ = derank(T, r)
                WAV_[:, ind_f] = np.bincount(itr, weights=np.real(T_[it]))
                WAV_[:, ind_f] += 1j * np.bincount(itr, weights=np.imag(T_[it]))
                WAV_[:, ind_f] /= trcount
            WAV0 = WAV_.copy()
        return WAV_

    return derank, traj_matrix_indices, trajectory, denoise


def _reference_smooth():
    def rolling_window(x, window_len=11, window="blackman"):
        """
        Smooth the data using a window with requested size.

        This method is based on the convolution of a scaled window with the signal.
        The signal is prepared by introducing reflected copies of the signal
        (with the window size) in both ends so that transient parts are minimized
        in the beginning and end part of the output signal.

        :param x: The input signal
        :type x: list or numpy.array
        :param window_len: The dimension of the smoothing window,
                           should be an **odd** integer, defaults to 11
        :type window_len: int, optional
        :param window: The type of window from ['flat', 'hanning', 'hamming',
                       'bartlett', 'blackman']
                       flat window will produce a moving average smoothing,
                       defaults to 'blackman'
        :type window: str, optional
        :raises ValueError: Smooth only accepts 1 dimension arrays.
        :raises ValueError: Input vector needs to be bigger than window size.
        :raises ValueError: Window is not one of 'flat', 'hanning', 'hamming',
                            'bartlett', 'blackman'
        :return: Smoothed array
        :rtype: numpy.array
        """
        # **NOTE:** length(output) != length(input), to correct this:
        # return y[(window_len/2-1):-(window_len/2)] instead of just y.
        if isinstance(x, list):
            x = np.array(x)

        if x.ndim != 1:
            raise ValueError("smooth only accepts 1 dimension arrays.")

        if x.size < window_len:
            raise ValueError("Input vector needs to be bigger than window size.")

        if window_len < 3:
            return x

        if window not in ["flat", "hanning", "hamming", "bartlett", "blackman"]:
            raise ValueError(
                "Window is not one of 'flat', 'hanning', 'hamming',\
    'bartlett', 'blackman'"
            )

        s = np.r_[x[window_len - 1: 0: -1], x, x[-1:-window_len:-1]]
        # print(len(s))
        if window == "flat":  # moving average
            w = np.ones(window_len, "d")
        else:
            w = eval("np." + window + "(window_len)")

        y = np.convolve(w / w.sum(), s, mode="valid")
        return y[round((window_len / 2 - 1)): round(-(window_len / 2))]


    def non_uniform_savgol(x, y, window, polynom):
        """Applies a Savitzky-Golay filter to y with non-uniform spacing as defined in x.
        This is based on
        https://dsp.stackexchange.com/questions/1676/savitzky-golay-smoothing-filter-for-not-equally-spaced-data
        The borders are interpolated like scipy.signal.savgol_filter would do
        https://dsp.stackexchange.com/a/64313
        Parameters
        ----------
        x : array_like
            List of floats representing the x values of the data
        y : array_like
            List of floats representing the y values. Must have same length as x
        window : int (odd)
            Window length of datapoints. Must be odd and smaller than x
        polynom : int
            The order of polynom used. Must be smaller than the window size
        Returns
        -------
        np.array
            The smoothed y values
        """

        if len(x) != len(y):
            raise ValueError('"x" and "y" must be of the same size')
        if len(x) < window:
            raise ValueError("The data size must be larger than the window size")
        if type(window) is not int:
            raise TypeError('"window" must be an integer')
        if window % 2 == 0:
            raise ValueError('The "window" must be an odd integer')
        if type(polynom) is not int:
            raise TypeError('"polynom" must be an integer')
        if polynom >= window:
            raise ValueError('"polynom" must be less than "window"')

        half_window = window // 2
        polynom += 1

        # Initialize variables
        A = np.empty((window, polynom))  # Matrix
        tA = np.empty((polynom, window))  # Transposed matrix
        t = np.empty(window)  # Local x variables
        y_smoothed = np.full(len(y), np.nan)

        # Start smoothing
        for i in range(half_window, len(x) - half_window, 1):
            # Center a window of x values on x[i]
            for j in range(0, window, 1):
                t[j] = x[i + j - half_window] - x[i]

            # Create the initial matrix A and its transposed form tA
            for j in range(0, window, 1):
                r = 1.0
                for k in range(0, polynom, 1):
                    A[j, k] = r
                    tA[k, j] = r
                    r *= t[j]

            # Multiply the two matrices
            tAA = np.matmul(tA, A)
            # Invert the product of the matrices
            tAA = np.linalg.inv(tAA)
            # Calculate the pseudoinverse of the design matrix
            coeffs = np.matmul(tAA, tA)
            # Calculate c0 which is also the y value for y[i]
            y_smoothed[i] = 0
            for j in range(0, window, 1):
                y_smoothed[i] += coeffs[0, j] * y[i + j - half_window]

            # If at the end or beginning, store all coefficients for the polynom
            if i == half_window:
                first_coeffs = np.zeros(polynom)
                for j in range(0, window, 1):
                    for k in range(polynom):
                        first_coeffs[k] += coeffs[k, j] * y[j]
            elif i == len(x) - half_window - 1:
                last_coeffs = np.zeros(polynom)
                for j in range(0, window, 1):
                    for k in range(polynom):
                        last_coeffs[k] += coeffs[k, j] * y[len(y) - window + j]

        # Interpolate the result at the left border
        for i in range(0, half_window, 1):
            y_smoothed[i] = 0
            x_i = 1
            for j in range(0, polynom, 1):
                y_smoothed[i] += first_coeffs[j] * x_i
                x_i *= x[i] - x[half_window]

        # Interpolate the result at the right border
        for i in range(len(x) - half_window, len(x), 1):
            y_smoothed[i] = 0
            x_i = 1
            for j in range(0, polynom, 1):
                y_smoothed[i] += last_coeffs[j] * x_i
                x_i *= x[i] - x[-half_window - 1]

        return y_smoothed

    return rolling_window, non_uniform_savgol


def _reference_spiketrains():
    def _spikes_venn(
        samples_tuple,
        channels_tuple,
        samples_binsize,
        channels_binsize,
        fs,
        num_channels,
        chunk_size,
        num_sorters,
    ):
        """
        Internal spike venn generation for n sorters.
        """
        if not samples_binsize:
            # set default: 0.4 ms
            samples_binsize = int(0.4 * fs / 1000)

        if not chunk_size:
            # set default: 20 s
            chunk_size = 20 * fs

        # find the timestamp of the last spike detected by any of the sorters
        # to calibrate chunking
        max_samples = max([np.max(samples) for samples in samples_tuple])
        num_chunks = int((max_samples // chunk_size) + 1)

        # each spike falls into one of 7 conditions based on whether it was found
        # by different sortings
        cond_names = [format(i, f"0{num_sorters}b") for i in range(1, 2**num_sorters)]
        pre_result = np.zeros(2**num_sorters - 1, int)
        vec = np.array([2**i for i in range(num_sorters - 1, -1, -1)])

        print(f"Running spike venning routine with {num_chunks} chunks.")
        for ch in tqdm.tqdm(range(num_chunks)):
            # select spikes within this chunk's time snippet
            sample_offset = ch * chunk_size
            spike_indices = [
                slice(
                    *np.searchsorted(samples, [sample_offset, sample_offset + chunk_size])
                )
                for samples in samples_tuple
            ]
            # get corresponding spike sample times and channels
            samples_chunks = [
                samples[spike_indices[i]].astype(int) - sample_offset
                for i, samples in enumerate(samples_tuple)
            ]
            channels_chunks = [
                channels[spike_indices[i]].astype(int)
                for i, channels in enumerate(channels_tuple)
            ]

            # compute fast 2D bin count for each sorter, resulting in an (3, num_bins)
            # array where the (i, j) number is the number of spikes found by sorter i
            # in (linearized) bin j.
            bin_counts = np.array(
                [
                    bincount2D(
                        samples_chunks[i],
                        channels_chunks[i],
                        samples_binsize,
                        channels_binsize,
                        [0, chunk_size],
                        [0, num_channels],
                    )[0].flatten()
                    for i in range(num_sorters)
                ]
            )

            # this process iteratively counts the number of spikes falling into each
            # of the 7 conditions by separating out which spikes must have been found
            # by each spike sorter within each bin, and updates the master `pre_result`
            # count array for this chunk
            max_per_spike = np.amax(bin_counts, axis=0)
            overall_max = np.max(max_per_spike)

            for i in range(0, overall_max):
                ind = max_per_spike - i > 0
                venn_info = bin_counts[:, ind] >= (max_per_spike - i)[ind]
                venn_info_int = vec @ venn_info
                conds, counts = np.unique(venn_info_int, return_counts=True)
                pre_result[conds - 1] += counts

        return dict(zip(cond_names, pre_result))

    return _spikes_venn


def _reference_voltage():
    def stack(data, word, fcn_agg=np.nanmean, header=None):
        """
        Stack numpy array traces according to the word vector
        :param data: (ntr, ns) numpy array of sample values
        :param word: (ntr) label according to which the traces will be aggregated (usually cdp)
        :param header: dictionary of vectors (ntr): header labels, will be aggregated as average
        :param fcn_agg: function, defaults to np.mean but could be np.sum or np.median
        :return: stack (ntr_stack, ns): aggregated numpy array
                 header ( ntr_stack): aggregated header. If no header is provided, fold of coverage
        """
        (ntr, ns) = data.shape
        group, uinds, fold = np.unique(word, return_inverse=True, return_counts=True)
        ntrs = group.size

        stack = np.zeros((ntrs, ns), dtype=data.dtype)
        for sind in np.arange(ntrs):
            i2stack = sind == uinds
            stack[sind, :] = fcn_agg(data[i2stack, :], axis=0)

        # aggregate the header using pandas
        if header is None:
            hstack = fold
        else:
            header["stack_word"] = word
            dfh = pd.DataFrame(header).groupby("stack_word")
            hstack = dfh.aggregate("mean").to_dict(orient="series")
            hstack = {k: hstack[k].values for k in hstack.keys()}
            hstack["fold"] = fold

        return stack, hstack


    def _svd_denoise(datr, rank):
        """
        SVD Encoder: does the decomposition, derank the mtrix and reproject in the feature's space
        :param datr: input matrix
        :param rank: (int) rank of the SVD to be reconstructed
        """
        U, sigma, V = np.linalg.svd(datr, full_matrices=False)
        return np.matmul(np.matmul(U[:, :rank], np.diag(sigma[:rank])), V[:rank, :])


    def svd_denoise_npx(datr, rank=None, collection=None):
        """

        :param datr: [nc, ns]
        :param rank:
        :param collection:
        :return:
        """
        svd = np.zeros_like(datr)
        nc = datr.shape[0]
        rank = rank or nc // 4
        if collection is None:
            collection = np.zeros(nc, dtype=int)
        for col in np.unique(collection):
            ind = np.where(collection == col)[0]
            isort = np.argsort(collection[ind])
            itr = ind[isort]
            svd[itr, :] = _svd_denoise(datr[itr, :], rank=int(rank * ind.size / nc))
        return svd

    return stack, _svd_denoise, svd_denoise_npx


# ----------------------------------------------------------------------------------------------------
# comparison machinery
# ----------------------------------------------------------------------------------------------------
N_CASES = 0
FAILURES = []


def same(a, b, path="result"):
    """Exact, recursive comparison. Returns None if identical, a message otherwise."""
    if type(a) is not type(b):
        return f"{path}: type {type(a).__name__} != {type(b).__name__}"
    if isinstance(a, (tuple, list)):
        if len(a) != len(b):
            return f"{path}: length {len(a)} != {len(b)}"
        for i, (ai, bi) in enumerate(zip(a, b)):
            msg = same(ai, bi, f"{path}[{i}]")
            if msg:
                return msg
        return None
    if isinstance(a, dict):
        if list(a.keys()) != list(b.keys()):
            return f"{path}: keys {list(a.keys())} != {list(b.keys())}"
        for k in a:
            msg = same(a[k], b[k], f"{path}[{k!r}]")
            if msg:
                return msg
        return None
    if isinstance(a, (np.ndarray, np.generic)):
        if a.dtype != b.dtype:
            return f"{path}: dtype {a.dtype} != {b.dtype}"
        if a.shape != b.shape:
            return f"{path}: shape {a.shape} != {b.shape}"
        equal_nan = a.dtype.kind in "fc"
        if not np.array_equal(a, b, equal_nan=equal_nan):
            return f"{path}: values differ"
        if a.dtype.kind in "fc" and not np.array_equal(np.signbit(np.real(a)), np.signbit(np.real(b))):
            return f"{path}: sign of zeros / nans differ"
        return None
    if isinstance(a, pd.Series):
        return same(a.values, b.values, path + ".values")
    if isinstance(a, float) and a != a and b != b:  # nan in a list argument
        return None
    if a != b:
        return f"{path}: {a!r} != {b!r}"
    return None


def run(fcn, make_args):
    """Runs fcn on freshly made arguments; returns ('ok', result, args) or ('exc', exception type, args)"""
    args, kwargs = make_args()
    sink = io.StringIO()
    with warnings.catch_warnings(), contextlib.redirect_stdout(sink), contextlib.redirect_stderr(sink):
        warnings.simplefilter("ignore")
        try:
            return "ok", fcn(*args, **kwargs), (args, kwargs)
        except Exception as e:  # noqa
            return "exc", type(e), (args, kwargs)


def check(label, new, ref, make_args, expect=None):
    """
    make_args is called once per implementation so that in-place modifications of the arguments cannot leak from one
    run to the other; the arguments after the call are compared as well.
    expect: 'ok' or 'exc' to make sure the case exercises what it is meant to exercise
    """
    global N_CASES
    N_CASES += 1
    kind_n, out_n, args_n = run(new, make_args)
    kind_r, out_r, args_r = run(ref, make_args)
    if expect is not None and kind_r != expect:
        FAILURES.append(f"{label}: reference gave {kind_r} ({out_r}) but the case expects {expect}")
        return
    if kind_n != kind_r:
        FAILURES.append(f"{label}: refactored gave {kind_n} ({out_n}), reference {kind_r} ({out_r})")
        return
    if kind_n == "exc":
        if out_n is not out_r:
            FAILURES.append(f"{label}: exception {out_n.__name__} != {out_r.__name__}")
        return
    msg = same(out_n, out_r) or same(args_n, args_r, "arguments after call")
    if msg:
        FAILURES.append(f"{label}: {msg}")


# ----------------------------------------------------------------------------------------------------
# inputs
# ----------------------------------------------------------------------------------------------------
def layout(rng, ncols, nrows, kind):
    """site coordinates: full grid, staggered (checkerboard, as Neuropixel 1), or shuffled"""
    col, row = np.meshgrid(np.arange(ncols), np.arange(nrows))
    col, row = col.flatten(), row.flatten()
    if kind == "staggered" and ncols >= 2:
        keep = (col + row) % 2 == 0
        col, row = col[keep], row[keep]
    x = col * 16.0 + 11.0
    y = row * 20.0 + 20.0
    if kind == "shuffled":
        order = rng.permutation(x.size)
        x, y = x[order], y[order]
    return x, y


def test_cadzow(rng):
    r_derank, r_traj_ind, r_trajectory, r_denoise = _reference_cadzow()
    # derank on its own: real / complex, square / rectangular, all ranks including 0 and too large
    for i in range(60):
        n, m = rng.integers(1, 9, size=2)
        T = rng.standard_normal((n, m))
        if i % 3:
            T = T + 1j * rng.standard_normal((n, m))
        if i % 7 == 0:
            T = T.astype(np.complex64 if np.iscomplexobj(T) else np.float32)
        r = int(rng.integers(0, min(n, m) + 1))
        check(f"derank[{i}] {T.shape} {T.dtype} r={r}", ibldsp.cadzow.derank, r_derank, lambda: ((T.copy(), r), {}), "ok")
    T = rng.standard_normal((4, 3)) + 0j
    check("derank rank too large", ibldsp.cadzow.derank, r_derank, lambda: ((T.copy(), 4), {}), "exc")
    check("derank float rank", ibldsp.cadzow.derank, r_derank, lambda: ((T.copy(), 1.5), {}), "exc")
    check("derank numpy int rank", ibldsp.cadzow.derank, r_derank, lambda: ((T.copy(), np.int64(2)), {}), "ok")
    check("derank 1-D input", ibldsp.cadzow.derank, r_derank, lambda: ((np.ones(4), 1), {}), "exc")
    # trajectory and denoise over layouts
    icase = 0
    for ncols in (1, 2, 3, 4):
        for nrows in (4, 5, 8, 13, 24, 40):
            for kind in ("grid", "staggered", "shuffled"):
                icase += 1
                x, y = layout(rng, ncols, nrows, kind)
                check(f"trajectory {ncols}x{nrows} {kind}", ibldsp.cadzow.trajectory, r_trajectory,
                      lambda: ((x.copy(), y.copy()), {}), "ok")
                nc = x.size
                T0 = r_trajectory(x, y)[0]
                full = min(T0.shape)
                nf = int(rng.integers(2, 5)) if nc > 60 else int(rng.integers(3, 8))
                WAV = rng.standard_normal((nc, nf)) + 1j * rng.standard_normal((nc, nf))
                if icase % 4 == 0:  # a single plane wave plus a little noise
                    k = rng.uniform(-0.02, 0.02, size=2)
                    WAV = np.exp(2j * np.pi * (k[0] * x + k[1] * y))[:, np.newaxis] * rng.standard_normal(nf)
                    WAV = WAV + 0.01 * rng.standard_normal((nc, nf))
                if icase % 9 == 0:
                    WAV = WAV.astype(np.complex64)
                for r in sorted({1, int(rng.integers(1, full + 1)), full}):
                    imax = [None, 0, 2, nf + 3, np.int64(1)][int(rng.integers(0, 5))]
                    niter = [1, 1, 2, 0][int(rng.integers(0, 4))]
                    check(f"denoise {ncols}x{nrows} {kind} {WAV.dtype} r={r} imax={imax} niter={niter}",
                          ibldsp.cadzow.denoise, r_denoise,
                          lambda: ((WAV.copy(), x.copy(), y.copy(), r), dict(imax=imax, niter=niter)), "ok")
    x, y = layout(rng, 2, 6, "grid")
    WAV = rng.standard_normal((12, 4)) + 1j * rng.standard_normal((12, 4))
    check("denoise real input", ibldsp.cadzow.denoise, r_denoise, lambda: ((WAV.real.copy(), x, y, 2), {}), "exc")
    check("denoise rank too large", ibldsp.cadzow.denoise, r_denoise, lambda: ((WAV.copy(), x, y, 50), {}), "exc")
    check("denoise wrong number of traces", ibldsp.cadzow.denoise, r_denoise, lambda: ((WAV[:-1].copy(), x, y, 2), {}), "exc")
    check("denoise x and y differ in size", ibldsp.cadzow.denoise, r_denoise, lambda: ((WAV.copy(), x[:-1], y, 2), {}), "exc")
    check("trajectory x and y differ in size", ibldsp.cadzow.trajectory, r_trajectory, lambda: ((x[:-1], y), {}), "exc")
    check("denoise float imax", ibldsp.cadzow.denoise, r_denoise, lambda: ((WAV.copy(), x, y, 2), dict(imax=2.5)), "exc")
    check("denoise 3 iterations", ibldsp.cadzow.denoise, r_denoise, lambda: ((WAV.copy(), x, y, 2), dict(niter=3)), "ok")


def test_smooth(rng):
    r_rolling_window, r_savgol = _reference_smooth()
    windows = ["flat", "hanning", "hamming", "bartlett", "blackman"]
    for i in range(120):
        n = int(rng.integers(1, 60))
        wl = int(rng.integers(0, 16))
        x = rng.standard_normal(n)
        if i % 5 == 0:
            x = np.full(n, rng.standard_normal())  # constants
        if i % 6 == 0:
            x = rng.integers(-5, 5, n)
        if i % 4 == 0:
            x = x.tolist()
        if i % 11 == 0:
            x = np.asarray(x, dtype=np.float32)
        w = windows[i % 5]
        check(f"rolling_window[{i}] n={n} wl={wl} {w}", ibldsp.smooth.rolling_window, r_rolling_window,
              lambda: ((x.copy() if isinstance(x, np.ndarray) else list(x),), dict(window_len=wl, window=w)))
    x = rng.standard_normal(30)
    check("rolling_window defaults", ibldsp.smooth.rolling_window, r_rolling_window, lambda: ((x.copy(),), {}), "ok")
    check("rolling_window 2-D", ibldsp.smooth.rolling_window, r_rolling_window, lambda: ((x.reshape(5, 6).copy(),), {}), "exc")
    check("rolling_window short", ibldsp.smooth.rolling_window, r_rolling_window, lambda: ((x[:5].copy(),), {}), "exc")
    check("rolling_window bad name", ibldsp.smooth.rolling_window, r_rolling_window,
          lambda: ((x.copy(),), dict(window="kaiser")), "exc")
    check("rolling_window bad name, small window", ibldsp.smooth.rolling_window, r_rolling_window,
          lambda: ((x.copy(),), dict(window="kaiser", window_len=2)), "ok")
    check("rolling_window float window_len", ibldsp.smooth.rolling_window, r_rolling_window,
          lambda: ((x.copy(),), dict(window_len=5.0)), "exc")

    for i in range(260):
        window = int(rng.choice([1, 3, 5, 7, 9, 11, 15]))
        polynom = int(rng.integers(0, min(window, 6)))
        n = int(rng.integers(window + 1, window + 40))  # the original needs at least one sample more than the window
        kind = i % 8
        if kind == 0:  # regular spacing
            x = np.arange(n) * rng.uniform(0.1, 3)
        elif kind == 1:  # integer abscissae, as used by smooth_interpolate_savgol
            x = np.sort(rng.choice(np.arange(3 * n), n, replace=False))
        elif kind == 2:  # unsorted
            x = rng.uniform(-10, 10, n)
        elif kind == 3:  # large offsets, ill conditioned
            x = 1e6 + np.cumsum(rng.uniform(1e-3, 1, n))
        else:  # random irregular
            x = np.cumsum(rng.exponential(1.0, n)) + rng.uniform(-5, 5)
        coefs = rng.standard_normal(polynom + 1)
        y = np.polyval(coefs, x - np.mean(x))
        if i % 3 == 0:
            y = y + rng.standard_normal(n)
        if i % 13 == 0:
            y = np.full(n, rng.standard_normal())
        if i % 17 == 0:
            y[int(rng.integers(0, n))] = np.nan
        if i % 19 == 0:
            y[int(rng.integers(0, n))] = np.inf
        xx, yy = x, y
        if i % 5 == 1:
            xx, yy = x.tolist(), y.tolist()
        elif i % 5 == 2:
            yy = y.astype(np.float32)
        elif i % 5 == 3:
            xx = x.astype(np.float32) if kind != 1 else x.astype(np.int32)
        elif i % 25 == 4:
            yy = y.astype(np.longdouble)
        elif i % 25 == 9:
            yy = np.round(y).astype(np.int64) if np.all(np.isfinite(y)) else y
        check(f"non_uniform_savgol[{i}] n={n} window={window} polynom={polynom} kind={kind}",
              ibldsp.smooth.non_uniform_savgol, r_savgol,
              lambda: ((xx.copy() if isinstance(xx, np.ndarray) else list(xx),
                        yy.copy() if isinstance(yy, np.ndarray) else list(yy), window, polynom), {}), "ok")
    x = np.cumsum(rng.exponential(1.0, 20))
    y = rng.standard_normal(20)
    sg, rsg = ibldsp.smooth.non_uniform_savgol, r_savgol
    check("savgol repeated abscissae (singular)", sg, rsg, lambda: ((np.zeros(20), y.copy(), 5, 2), {}))
    check("savgol partly repeated abscissae", sg, rsg, lambda: ((np.repeat(x[:10], 2), y.copy(), 5, 3), {}))
    check("savgol overflowing powers", sg, rsg, lambda: ((x * 1e120, y.copy(), 5, 3), {}))
    check("savgol nan abscissa", sg, rsg, lambda: ((np.r_[x[:7], np.nan, x[8:]], y.copy(), 5, 2), {}))
    check("savgol size mismatch", sg, rsg, lambda: ((x[:-1].copy(), y.copy(), 5, 2), {}), "exc")
    check("savgol data shorter than window", sg, rsg, lambda: ((x[:3].copy(), y[:3].copy(), 5, 2), {}), "exc")
    check("savgol float window", sg, rsg, lambda: ((x.copy(), y.copy(), 5.0, 2), {}), "exc")
    check("savgol numpy int window", sg, rsg, lambda: ((x.copy(), y.copy(), np.int64(5), 2), {}), "exc")
    check("savgol even window", sg, rsg, lambda: ((x.copy(), y.copy(), 4, 2), {}), "exc")
    check("savgol float polynom", sg, rsg, lambda: ((x.copy(), y.copy(), 5, 2.0), {}), "exc")
    check("savgol polynom == window", sg, rsg, lambda: ((x.copy(), y.copy(), 5, 5), {}), "exc")
    check("savgol polynom == -1", sg, rsg, lambda: ((x.copy(), y.copy(), 5, -1), {}), "exc")
    check("savgol negative window", sg, rsg, lambda: ((x.copy(), y.copy(), -1, -3), {}), "exc")
    check("savgol window == size", sg, rsg, lambda: ((x[:5].copy(), y[:5].copy(), 5, 2), {}), "exc")  # UnboundLocalError
    check("savgol window == size - 1", sg, rsg, lambda: ((x[:6].copy(), y[:6].copy(), 5, 2), {}), "ok")
    check("savgol window == size == 1", sg, rsg, lambda: ((x[:1].copy(), y[:1].copy(), 1, 0), {}), "ok")
    check("savgol 2-D ordinates", sg, rsg, lambda: ((x.copy(), np.c_[y, y], 5, 2), {}))
    check("savgol complex ordinates", sg, rsg, lambda: ((x.copy(), y + 1j, 5, 2), {}))
    # end to end through the (unchanged) NaN-gap filler, which calls non_uniform_savgol by its module name
    for i in range(20):
        n = int(rng.integers(40, 120))
        signal = np.cumsum(rng.standard_normal(n))
        signal[rng.random(n) < 0.15] = np.nan
        window, order = int(rng.choice([5, 11, 31])), int(rng.integers(1, 4))

        def ref_interpolate(signal, window, order):
            new = ibldsp.smooth.non_uniform_savgol
            ibldsp.smooth.non_uniform_savgol = r_savgol
            try:
                return ibldsp.smooth.smooth_interpolate_savgol(signal, window=window, order=order)
            finally:
                ibldsp.smooth.non_uniform_savgol = new

        check(f"smooth_interpolate_savgol[{i}] n={n} window={window} order={order}",
              lambda s, w, o: ibldsp.smooth.smooth_interpolate_savgol(s, window=w, order=o), ref_interpolate,
              lambda: ((signal.copy(), window, order), {}), "ok")


def test_spiketrains(rng):
    (r_spikes_venn,) = (_reference_spiketrains(),)
    for i in range(90):
        num_sorters = 2 + i % 2
        fs = int(rng.choice([30000, 2500, 1000]))
        num_channels = int(rng.choice([384, 96, 16]))
        duration = int(rng.integers(1, 4) * fs * rng.uniform(0.05, 0.5))
        base_n = int(rng.integers(1, 300))
        base_s = np.sort(rng.integers(0, duration, base_n))
        base_c = rng.integers(0, num_channels, base_n)
        samples, channels = [], []
        for _ in range(num_sorters):
            keep = rng.random(base_n) < rng.uniform(0.3, 1.0)
            keep[int(rng.integers(0, base_n))] = True
            extra = int(rng.integers(0, 40))
            s = np.r_[base_s[keep] + rng.integers(-2, 3, keep.sum()), rng.integers(0, duration, extra)]
            c = np.r_[base_c[keep], rng.integers(0, num_channels, extra)]
            s = np.clip(s, 0, duration - 1)
            order = np.argsort(s, kind="stable")
            s, c = s[order], c[order]
            if i % 5 == 0:
                s, c = s.astype(np.float64), c.astype(np.float64)
            if i % 7 == 0:  # bursts: several spikes of one sorter in the same bin
                s, c = np.repeat(s, 3), np.repeat(c, 3)
            samples.append(s)
            channels.append(c)
        chunk_size = [None, int(duration // 3 + 1), int(fs // 10), duration + 5][int(rng.integers(0, 4))]
        samples_binsize = [None, 4, 30][int(rng.integers(0, 3))]
        if fs == 1000 and samples_binsize is None:
            samples_binsize = 2  # the default of 0.4 ms would be 0 samples
        channels_binsize = int(rng.choice([4, 1, 8]))
        check(f"_spikes_venn[{i}] sorters={num_sorters} fs={fs} chunk={chunk_size}",
              ibldsp.spiketrains._spikes_venn, r_spikes_venn,
              lambda: ((tuple(s.copy() for s in samples), tuple(c.copy() for c in channels), samples_binsize,
                        channels_binsize, fs, num_channels, chunk_size, num_sorters), {}), "ok")
        if i % 10 == 0:  # through the public wrappers (unchanged), which call _spikes_venn by its module name
            public = ibldsp.spiketrains.spikes_venn2 if num_sorters == 2 else ibldsp.spiketrains.spikes_venn3

            def ref_public(*args, **kwargs):
                new = ibldsp.spiketrains._spikes_venn
                ibldsp.spiketrains._spikes_venn = r_spikes_venn
                try:
                    return public(*args, **kwargs)
                finally:
                    ibldsp.spiketrains._spikes_venn = new

            check(f"spikes_venn{num_sorters}[{i}]", public, ref_public,
                  lambda: ((tuple(samples), tuple(channels)), dict(samples_binsize=samples_binsize, fs=fs, num_channels=num_channels,
                                                                   chunk_size=chunk_size)),
                  "ok")
    s = (np.array([1, 5, 9]), np.array([2, 5]))
    c = (np.array([0, 3, 7]), np.array([0, 3]))
    sv, rsv = ibldsp.spiketrains._spikes_venn, r_spikes_venn
    check("venn channel out of range", sv, rsv, lambda: ((s, (c[0] + 400, c[1]), None, 4, 30000, 384, None, 2), {}), "exc")
    check("venn empty sorter", sv, rsv, lambda: (((s[0], np.array([], int)), (c[0], np.array([], int)), None, 4, 30000, 384,
                                                   None, 2), {}), "exc")
    check("venn all empty bins impossible / tiny", sv, rsv, lambda: ((s, c, 1, 1, 1000, 8, 4, 2), {}), "ok")
    check("venn float chunk size", sv, rsv, lambda: ((s, c, 2, 1, 1000, 8, 4.0, 2), {}))
    check("venn one sorter", sv, rsv, lambda: ((s[:1], c[:1], 2, 1, 1000, 8, 4, 1), {}), "ok")


def test_voltage(rng):
    r_stack, _, r_svd_denoise_npx = _reference_voltage()
    aggs = [np.nanmean, np.mean, np.sum, np.median, np.nanmedian, np.max]
    for i in range(80):
        ntr, ns = int(rng.integers(1, 40)), int(rng.integers(1, 30))
        data = rng.standard_normal((ntr, ns))
        if i % 4 == 1:
            data = data.astype(np.float32)
        elif i % 4 == 2:
            data = rng.integers(-100, 100, (ntr, ns))
        elif i % 4 == 3:
            data[rng.random((ntr, ns)) < 0.1] = np.nan
        word = rng.integers(0, int(rng.integers(1, 8)), ntr)
        if i % 6 == 0:
            word = word * 3 - 4  # non contiguous, negative labels
        if i % 9 == 0:
            word = word.astype(np.float64) / 2
        elif i % 10 == 0:
            word = np.array(["a", "bb", "c"])[word % 3]
        agg = aggs[i % len(aggs)]
        if i % 3 == 0:
            def make():
                header = {"cdp": np.arange(ntr), "offset": rng_header.copy()}
                return (data.copy(), word.copy()), dict(fcn_agg=agg, header=header)
            rng_header = rng.standard_normal(ntr)
        elif i % 3 == 1:
            def make():
                return (data.copy(), word.copy()), dict(fcn_agg=agg)
        else:
            def make():
                return (data.copy(), word.copy()), {}
        check(f"stack[{i}] {data.shape} {data.dtype} {agg.__name__}", ibldsp.voltage.stack, r_stack, make, "ok")
    data = rng.standard_normal((6, 5))
    check("stack wrong label count", ibldsp.voltage.stack, r_stack, lambda: ((data.copy(), np.arange(5)), {}), "exc")
    check("stack 1-D data", ibldsp.voltage.stack, r_stack, lambda: ((data[0].copy(), np.arange(5)), {}), "exc")
    check("stack 2-D labels", ibldsp.voltage.stack, r_stack, lambda: ((data.copy(), np.zeros((6, 1), int)), {}))

    for i in range(90):
        nc, ns = int(rng.integers(1, 50)), int(rng.integers(1, 60))
        datr = rng.standard_normal((nc, ns))
        if i % 4 == 0:  # low rank plus noise
            k = int(rng.integers(1, 4))
            datr = rng.standard_normal((nc, k)) @ rng.standard_normal((k, ns)) + 0.01 * datr
        if i % 5 == 1:
            datr = datr.astype(np.float32)
        if i % 11 == 2:
            datr = rng.integers(-50, 50, (nc, ns))
        rank = [None, 1, int(rng.integers(1, nc + 1)), nc, nc + 3, 0, 2.5][int(rng.integers(0, 7))]
        collection = None
        if i % 3 == 1:
            collection = rng.integers(0, int(rng.integers(1, 5)), nc)
        elif i % 3 == 2:
            collection = np.sort(rng.integers(0, 4, nc)) * 2 - 1
        check(f"svd_denoise_npx[{i}] {datr.shape} {datr.dtype} rank={rank}", ibldsp.voltage.svd_denoise_npx, r_svd_denoise_npx,
              lambda: ((datr.copy(),), dict(rank=rank, collection=None if collection is None else collection.copy())), "ok")
    datr = rng.standard_normal((8, 20))
    sd, rsd = ibldsp.voltage.svd_denoise_npx, r_svd_denoise_npx
    check("svd_denoise_npx defaults", sd, rsd, lambda: ((datr.copy(),), {}), "ok")
    check("svd_denoise_npx wrong collection size", sd, rsd, lambda: ((datr.copy(),), dict(collection=np.zeros(5, int))))
    check("svd_denoise_npx 1-D", sd, rsd, lambda: ((datr[0].copy(),), {}), "exc")
    check("svd_denoise_npx nan", sd, rsd, lambda: ((datr * np.nan,), {}))
    check("svd_denoise_npx list collection", sd, rsd, lambda: ((datr.copy(),), dict(collection=[0] * 8)), "exc")
    check("svd_denoise_npx negative rank", sd, rsd, lambda: ((datr.copy(),), dict(rank=-2)), "ok")


def main():
    for test, seed in ((test_cadzow, 20201), (test_smooth, 20202), (test_spiketrains, 20203), (test_voltage, 20204)):
        before, t0 = N_CASES, time.time()
        test(np.random.default_rng(seed))
        print(f"{test.__name__}: {N_CASES - before} cases, {time.time() - t0:.1f} s")
    if FAILURES:
        print(f"NOT EQUIVALENT: {len(FAILURES)} of {N_CASES} cases differ")
        for f in FAILURES[:40]:
            print("  " + f)
        return 1
    print(f"identical results on all {N_CASES} cases")
    return 0


if __name__ == "__main__":
    sys.exit(main())
