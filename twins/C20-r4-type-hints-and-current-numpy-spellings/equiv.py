import sys, os; sys.path.insert(0, os.path.join(os.path.dirname(os.path.abspath(__file__)), "src"))
"""
Differential equivalence check for the C20 housekeeping patch.

The functions of src/ibldsp/{cadzow,smooth,spiketrains,voltage}.py that the patch touches are
compared, input by input, against verbatim copies of their ORIGINAL implementation (the ref_*
functions below).  Results must be identical bit for bit (values, dtype, shape, dict keys and key
order, side effects on arguments) and exceptions must be of the same type with the same message.
Exit status 0: everything identical; 1: a difference was found (a message says where).
"""
import contextlib
import io
import warnings

import numpy as np
import pandas as pd
import tqdm
from scipy.interpolate import interp1d
from iblutil.numerical import ismember2d, bincount2D

import ibldsp.fourier as ft
import ibldsp.cadzow as cadzow
import ibldsp.smooth as smooth
import ibldsp.spiketrains as spiketrains
import ibldsp.voltage as voltage

warnings.filterwarnings("ignore")


# --------------------------------------------------------------------------------------------
# verbatim copies of the original implementations (only the names are prefixed with ref_)
# --------------------------------------------------------------------------------------------
def ref_derank(T, r):
    u, s, v = np.linalg.svd(T)
    # try non-integer rank as a proportion of singular values ?
    # ik = np.searchsorted(np.cumsum(s) / np.sum(s), KEEP)
    T_ = np.zeros_like(T)
    for i in np.arange(r):
        T_ += s[i] * np.outer(u.T[i], v[i])
    return T_


def ref_traj_matrix_indices(n):
    """
    Computes the single spatial dimension Toeplitz-like indices from a number of spatial traces
    :param n: number of dimensions
    :return: 2-D int matrix whose elements are indices of the spatial dimension
    """
    nrows = int(np.floor(n / 2 + 1))
    ncols = int(np.ceil(n / 2))
    itraj = np.tile(np.arange(nrows), (ncols, 1)).T + np.flipud(np.arange(ncols))
    return itraj


def ref_trajectory(x, y):
    """
    Computes the 2 spatial dimensions block-Toeplitz indices from x and y traces coordinates
    Coordinates are assumed to be regularly spaced
    :param x: trace spatial coordinate (np.array)
    :param y: trace spatial coordinate (np.array)
    :return: T: 2-D complex matrix whose elements are the spatial dimensions
    :return: it, itr: (tuple, ndarray) indices such that T[it] = data[itr]
    :return: trcount: count of traces in the trajectory matrix
    """
    xu, ix = np.unique(x, return_inverse=True)
    yu, iy = np.unique(y, return_inverse=True)
    nx, ny = (np.size(xu), np.size(yu))

    tiy_ = ref_traj_matrix_indices(ny)
    tix_ = ref_traj_matrix_indices(nx)
    tiy = np.tile(tiy_, tix_.shape)
    tix = np.repeat(np.repeat(tix_, tiy_.shape[0], axis=0), tiy_.shape[1], axis=1)

    it, itr = ismember2d(np.c_[tix.flatten(), tiy.flatten()], np.c_[ix, iy])
    it = np.unravel_index(np.where(it)[0], tiy.shape)

    T = np.zeros(tix.shape, dtype=np.complex128)

    trcount = np.bincount(itr)
    return T, it, itr, trcount


def ref_denoise(WAV, x, y, r, imax=None, niter=1):
    """
    Applies cadzow denoising by de-ranking spatial matrices in frequency domain
    :param WAV: np array (nc, ns) in frequency domain
    :param x: trace spatial coordinate np.array (nc)
    :param y: trace spatial coordinate np.array (nc)
    :param r: rank
    :param imax: index of the maximum frequency to keep, all frequencies are de-ranked if None (None)
    :param niter: number of iterations (1)
    :return: WAV_: np array nc / ns in frequency domain
    """
    WAV_ = np.zeros_like(WAV)
    WAV0 = np.copy(WAV)
    imax = np.minimum(WAV.shape[-1], imax) if imax else WAV.shape[-1]
    T, it, itr, trcount = ref_trajectory(x, y)
    for _ in np.arange(niter):
        for ind_f in np.arange(imax):
            T[it] = WAV0[itr, ind_f]
            T_ = ref_derank(T, r)
            WAV_[:, ind_f] = np.bincount(itr, weights=np.real(T_[it]))
            WAV_[:, ind_f] += 1j * np.bincount(itr, weights=np.imag(T_[it]))
            WAV_[:, ind_f] /= trcount
        WAV0 = WAV_.copy()
    return WAV_


def ref_lp(ts, fac, pad=0.2):
    """
    Smooth the data in frequency domain (assumes a uniform sampling rate), using edge padding

    ibllib.dsp.smooth.lp(ts, [.1, .15])
    :param ts: input signal to be smoothed
    :param fac: 2 element vector of the frequency edges relative to Nyquist: [0.15, 0.2] keeps
    everything up to 15% of the full band tapering down to 20%
    :param pad: padding on the edges of the time serie, between 0 and 1 (0.2 means 20% of the size)
    :return: smoothed time series
    """
    # keep at least two periods for the padding
    lpad = int(np.ceil(ts.shape[0] * pad))
    ts_ = np.pad(ts, lpad, mode="edge")
    ts_ = ft.lp(ts_, 1, np.array(fac) / 2)
    return ts_[lpad:-lpad]


def ref_rolling_window(x, window_len=11, window="blackman"):
    # **NOTE:** length(output) != length(input), to correct this:
    # return y[(window_len/2-1):-(window_len/2)] instead of just y.
    if isinstance(x, list):
        x = np.array(x)

    if x.ndim != 1:
        raise ValueError("smooth only accepts 1 dimension arrays.")

    if x.size < window_len:
        raise ValueError("Input vector needs to be bigger than window size.")

    if window_len < 3:
        return x

    if window not in ["flat", "hanning", "hamming", "bartlett", "blackman"]:
        raise ValueError(
            "Window is not one of 'flat', 'hanning', 'hamming',\
'bartlett', 'blackman'"
        )

    s = np.r_[x[window_len - 1: 0: -1], x, x[-1:-window_len:-1]]
    # print(len(s))
    if window == "flat":  # moving average
        w = np.ones(window_len, "d")
    else:
        w = eval("np." + window + "(window_len)")

    y = np.convolve(w / w.sum(), s, mode="valid")
    return y[round((window_len / 2 - 1)): round(-(window_len / 2))]


def ref_non_uniform_savgol(x, y, window, polynom):
    if len(x) != len(y):
        raise ValueError('"x" and "y" must be of the same size')
    if len(x) < window:
        raise ValueError("The data size must be larger than the window size")
    if type(window) is not int:
        raise TypeError('"window" must be an integer')
    if window % 2 == 0:
        raise ValueError('The "window" must be an odd integer')
    if type(polynom) is not int:
        raise TypeError('"polynom" must be an integer')
    if polynom >= window:
        raise ValueError('"polynom" must be less than "window"')

    half_window = window // 2
    polynom += 1

    # Initialize variables
    A = np.empty((window, polynom))  # Matrix
    tA = np.empty((polynom, window))  # Transposed matrix
    t = np.empty(window)  # Local x variables
    y_smoothed = np.full(len(y), np.nan)

    # Start smoothing
    for i in range(half_window, len(x) - half_window, 1):
        # Center a window of x values on x[i]
        for j in range(0, window, 1):
            t[j] = x[i + j - half_window] - x[i]

        # Create the initial matrix A and its transposed form tA
        for j in range(0, window, 1):
            r = 1.0
            for k in range(0, polynom, 1):
                A[j, k] = r
                tA[k, j] = r
                r *= t[j]

        # Multiply the two matrices
        tAA = np.matmul(tA, A)
        # Invert the product of the matrices
        tAA = np.linalg.inv(tAA)
        # Calculate the pseudoinverse of the design matrix
        coeffs = np.matmul(tAA, tA)
        # Calculate c0 which is also the y value for y[i]
        y_smoothed[i] = 0
        for j in range(0, window, 1):
            y_smoothed[i] += coeffs[0, j] * y[i + j - half_window]

        # If at the end or beginning, store all coefficients for the polynom
        if i == half_window:
            first_coeffs = np.zeros(polynom)
            for j in range(0, window, 1):
                for k in range(polynom):
                    first_coeffs[k] += coeffs[k, j] * y[j]
        elif i == len(x) - half_window - 1:
            last_coeffs = np.zeros(polynom)
            for j in range(0, window, 1):
                for k in range(polynom):
                    last_coeffs[k] += coeffs[k, j] * y[len(y) - window + j]

    # Interpolate the result at the left border
    for i in range(0, half_window, 1):
        y_smoothed[i] = 0
        x_i = 1
        for j in range(0, polynom, 1):
            y_smoothed[i] += first_coeffs[j] * x_i
            x_i *= x[i] - x[half_window]

    # Interpolate the result at the right border
    for i in range(len(x) - half_window, len(x), 1):
        y_smoothed[i] = 0
        x_i = 1
        for j in range(0, polynom, 1):
            y_smoothed[i] += last_coeffs[j] * x_i
            x_i *= x[i] - x[-half_window - 1]

    return y_smoothed


def ref_smooth_interpolate_savgol(signal, window=31, order=3, interp_kind="cubic"):
    signal_noisy_w_nans = np.copy(signal)
    timestamps = np.arange(signal_noisy_w_nans.shape[0])
    good_idxs = np.where(~np.isnan(signal_noisy_w_nans))[0]
    # perform savitzky-golay filtering on non-nan points
    signal_smooth_nonans = ref_non_uniform_savgol(
        timestamps[good_idxs],
        signal_noisy_w_nans[good_idxs],
        window=window,
        polynom=order,
    )
    signal_smooth_w_nans = np.copy(signal_noisy_w_nans)
    signal_smooth_w_nans[good_idxs] = signal_smooth_nonans
    # interpolate nan points
    interpolater = interp1d(
        timestamps[good_idxs],
        signal_smooth_nonans,
        kind=interp_kind,
        fill_value="extrapolate",
    )
    signal = interpolater(timestamps)

    return signal


def ref__spikes_venn(
    samples_tuple,
    channels_tuple,
    samples_binsize,
    channels_binsize,
    fs,
    num_channels,
    chunk_size,
    num_sorters,
):
    """
    Internal spike venn generation for n sorters.
    """
    if not samples_binsize:
        # set default: 0.4 ms
        samples_binsize = int(0.4 * fs / 1000)

    if not chunk_size:
        # set default: 20 s
        chunk_size = 20 * fs

    # find the timestamp of the last spike detected by any of the sorters
    # to calibrate chunking
    max_samples = max([np.max(samples) for samples in samples_tuple])
    num_chunks = int((max_samples // chunk_size) + 1)

    # each spike falls into one of 7 conditions based on whether it was found
    # by different sortings
    cond_names = [format(i, f"0{num_sorters}b") for i in range(1, 2**num_sorters)]
    pre_result = np.zeros(2**num_sorters - 1, int)
    vec = np.array([2**i for i in range(num_sorters - 1, -1, -1)])

    print(f"Running spike venning routine with {num_chunks} chunks.")
    for ch in tqdm.tqdm(range(num_chunks)):
        # select spikes within this chunk's time snippet
        sample_offset = ch * chunk_size
        spike_indices = [
            slice(
                *np.searchsorted(samples, [sample_offset, sample_offset + chunk_size])
            )
            for samples in samples_tuple
        ]
        # get corresponding spike sample times and channels
        samples_chunks = [
            samples[spike_indices[i]].astype(int) - sample_offset
            for i, samples in enumerate(samples_tuple)
        ]
        channels_chunks = [
            channels[spike_indices[i]].astype(int)
            for i, channels in enumerate(channels_tuple)
        ]

        # compute fast 2D bin count for each sorter, resulting in an (3, num_bins)
        # array where the (i, j) number is the number of spikes found by sorter i
        # in (linearized) bin j.
        bin_counts = np.array(
            [
                bincount2D(
                    samples_chunks[i],
                    channels_chunks[i],
                    samples_binsize,
                    channels_binsize,
                    [0, chunk_size],
                    [0, num_channels],
                )[0].flatten()
                for i in range(num_sorters)
            ]
        )

        # this process iteratively counts the number of spikes falling into each
        # of the 7 conditions by separating out which spikes must have been found
        # by each spike sorter within each bin, and updates the master `pre_result`
        # count array for this chunk
        max_per_spike = np.amax(bin_counts, axis=0)
        overall_max = np.max(max_per_spike)

        for i in range(0, overall_max):
            ind = max_per_spike - i > 0
            venn_info = bin_counts[:, ind] >= (max_per_spike - i)[ind]
            venn_info_int = vec @ venn_info
            conds, counts = np.unique(venn_info_int, return_counts=True)
            pre_result[conds - 1] += counts

    return dict(zip(cond_names, pre_result))


def ref_stack(data, word, fcn_agg=np.nanmean, header=None):
    (ntr, ns) = data.shape
    group, uinds, fold = np.unique(word, return_inverse=True, return_counts=True)
    ntrs = group.size

    stack = np.zeros((ntrs, ns), dtype=data.dtype)
    for sind in np.arange(ntrs):
        i2stack = sind == uinds
        stack[sind, :] = fcn_agg(data[i2stack, :], axis=0)

    # aggregate the header using pandas
    if header is None:
        hstack = fold
    else:
        header["stack_word"] = word
        dfh = pd.DataFrame(header).groupby("stack_word")
        hstack = dfh.aggregate("mean").to_dict(orient="series")
        hstack = {k: hstack[k].values for k in hstack.keys()}
        hstack["fold"] = fold

    return stack, hstack


def ref__svd_denoise(datr, rank):
    U, sigma, V = np.linalg.svd(datr, full_matrices=False)
    return np.matmul(np.matmul(U[:, :rank], np.diag(sigma[:rank])), V[:rank, :])


def ref_svd_denoise_npx(datr, rank=None, collection=None):
    svd = np.zeros_like(datr)
    nc = datr.shape[0]
    rank = rank or nc // 4
    if collection is None:
        collection = np.zeros(nc, dtype=int)
    for col in np.unique(collection):
        ind = np.where(collection == col)[0]
        isort = np.argsort(collection[ind])
        itr = ind[isort]
        svd[itr, :] = ref__svd_denoise(datr[itr, :], rank=int(rank * ind.size / nc))
    return svd


# --------------------------------------------------------------------------------------------
# exact comparison
# --------------------------------------------------------------------------------------------
class Mismatch(Exception):
    pass


def same(a, b, path="result"):
    """Raises Mismatch unless a and b are identical (types, dtypes, shapes, values bit for bit)"""
    if type(a) is not type(b):
        raise Mismatch(f"{path}: type {type(a).__name__} != {type(b).__name__}")
    if isinstance(a, np.ndarray):
        if a.dtype != b.dtype:
            raise Mismatch(f"{path}: dtype {a.dtype} != {b.dtype}")
        if a.shape != b.shape:
            raise Mismatch(f"{path}: shape {a.shape} != {b.shape}")
        if a.dtype.kind in "fc":
            if a.tobytes() != b.tobytes() and not np.array_equal(a, b, equal_nan=True):
                raise Mismatch(f"{path}: values differ (max abs diff {np.nanmax(np.abs(a - b))})")
            # bit for bit apart from the NaN payloads: the sign of zeros has to agree too
            if not (np.array_equal(np.signbit(a.real), np.signbit(b.real))
                    and np.array_equal(np.signbit(a.imag), np.signbit(b.imag))):
                raise Mismatch(f"{path}: signs differ")
        elif not np.array_equal(a, b):
            raise Mismatch(f"{path}: values differ")
    elif isinstance(a, (tuple, list)):
        if len(a) != len(b):
            raise Mismatch(f"{path}: length {len(a)} != {len(b)}")
        for i, (ai, bi) in enumerate(zip(a, b)):
            same(ai, bi, f"{path}[{i}]")
    elif isinstance(a, dict):
        if list(a.keys()) != list(b.keys()):
            raise Mismatch(f"{path}: keys {list(a.keys())} != {list(b.keys())}")
        for k in a:
            same(a[k], b[k], f"{path}[{k!r}]")
    elif isinstance(a, np.generic):
        same(np.asarray(a), np.asarray(b), path)
    elif isinstance(a, float) and a != a:
        if b == b:
            raise Mismatch(f"{path}: {a} != {b}")
    elif a != b:
        raise Mismatch(f"{path}: {a!r} != {b!r}")


def clone(obj):
    if isinstance(obj, np.ndarray):
        return obj.copy()
    if isinstance(obj, dict):
        return {k: clone(v) for k, v in obj.items()}
    if isinstance(obj, list):
        return [clone(v) for v in obj]
    if isinstance(obj, tuple):
        return tuple(clone(v) for v in obj)
    return obj


def call(fcn, args, kwargs):
    out, err = io.StringIO(), io.StringIO()
    try:
        with contextlib.redirect_stdout(out), contextlib.redirect_stderr(err):
            res = fcn(*args, **kwargs)
        return ("ok", res, out.getvalue())
    except Exception as e:  # noqa
        return ("raise", (type(e), str(e)), out.getvalue())


COUNTS = {}
RAISED = {}
FAILURES = []


def check(name, new, ref, *args, **kwargs):
    """Calls both implementations on private copies of the arguments and compares everything"""
    COUNTS[name] = COUNTS.get(name, 0) + 1
    a_new, k_new = clone(args), clone(kwargs)
    a_ref, k_ref = clone(args), clone(kwargs)
    r_new = call(new, a_new, k_new)
    r_ref = call(ref, a_ref, k_ref)
    RAISED[name] = RAISED.get(name, 0) + (r_ref[0] == "raise")
    try:
        if r_new[0] != r_ref[0]:
            raise Mismatch(f"outcome {r_new[0]} {r_new[1] if r_new[0] == 'raise' else ''} != "
                           f"{r_ref[0]} {r_ref[1] if r_ref[0] == 'raise' else ''}")
        if r_new[0] == "raise":
            if r_new[1][0] is not r_ref[1][0]:
                raise Mismatch(f"exception {r_new[1][0].__name__} != {r_ref[1][0].__name__}")
            if r_new[1][1] != r_ref[1][1]:
                raise Mismatch(f"exception message {r_new[1][1]!r} != {r_ref[1][1]!r}")
        else:
            same(r_new[1], r_ref[1])
        if r_new[2] != r_ref[2]:
            raise Mismatch(f"printed output {r_new[2]!r} != {r_ref[2]!r}")
        # side effects on the arguments have to be the same too
        same(a_new, a_ref, "args after the call")
        same(k_new, k_ref, "kwargs after the call")
    except Mismatch as e:
        FAILURES.append(f"{name} (case {COUNTS[name]}): {e}")
    return r_new


# --------------------------------------------------------------------------------------------
# input generators
# --------------------------------------------------------------------------------------------
def layout(rng, ncols, nrows, shuffle=False, staggered=False):
    xs = np.arange(ncols) * 16.0 + 11
    ys = np.arange(nrows) * 20.0 + 20
    x = np.tile(xs, nrows)
    y = np.repeat(ys, ncols)
    if staggered:  # neuropixel 1 like checkerboard: drop every other site
        keep = (np.tile(np.arange(ncols), nrows) + np.repeat(np.arange(nrows), ncols)) % 2 == 0
        x, y = x[keep], y[keep]
    if shuffle:
        order = rng.permutation(x.size)
        x, y = x[order], y[order]
    return x, y


def test_cadzow(rng):
    # each call of trajectory costs 0.2 s (index matching in iblutil) whatever the layout: the number of
    # layouts is kept moderate and derank, which is cheap, gets its own set of random matrices below
    for icase in range(26):
        ncols = int(rng.integers(1, 5))
        big = icase % 6 == 0
        nrows = int(rng.integers(13, 41)) if big else int(rng.integers(4, 13))
        x, y = layout(rng, ncols, nrows, shuffle=icase % 3 == 0, staggered=(icase % 5 == 0 and ncols > 1))
        nc = x.size
        check("trajectory", cadzow.trajectory, ref_trajectory, x.astype(np.float32), y.astype(int))
        T = check("trajectory", cadzow.trajectory, ref_trajectory, x, y)[1][0]
        full = min(T.shape)
        nf = int(rng.integers(1, 6))
        kind = icase % 4
        if kind == 0:  # plane wave
            kx, ky = rng.uniform(-0.05, 0.05, 2)
            f = rng.uniform(0.5, 3, nf)
            WAV = np.exp(1j * (kx * x[:, np.newaxis] + ky * y[:, np.newaxis]) * f[np.newaxis, :])
        elif kind == 1:  # plane wave and noise
            kx, ky = rng.uniform(-0.05, 0.05, 2)
            WAV = np.exp(1j * (kx * x[:, np.newaxis] + ky * y[:, np.newaxis])) * np.ones((1, nf))
            WAV = WAV + 0.2 * (rng.standard_normal((nc, nf)) + 1j * rng.standard_normal((nc, nf)))
        elif kind == 2:
            WAV = rng.standard_normal((nc, nf)) + 1j * rng.standard_normal((nc, nf))
        else:
            WAV = (rng.standard_normal((nc, nf)) + 1j * rng.standard_normal((nc, nf))).astype(np.complex64)
        ranks = sorted({1, full} if big else {1, full, int(rng.integers(1, full + 1))})
        for r in ranks:
            Tm = rng.standard_normal(T.shape) + 1j * rng.standard_normal(T.shape)
            check("derank", cadzow.derank, ref_derank, Tm, r)
            check("denoise", cadzow.denoise, ref_denoise, WAV, x, y, r)
        if big:
            continue
        check("denoise", cadzow.denoise, ref_denoise, WAV, x, y, ranks[0], imax=int(rng.integers(0, nf + 3)),
              niter=int(rng.integers(1, 4)))
        check("denoise", cadzow.denoise, ref_denoise, WAV, x=x, y=y, r=np.int64(ranks[-1]), imax=np.int64(nf), niter=2)
    for icase in range(150):
        shape = tuple(rng.integers(1, 30, 2))
        Tm = rng.standard_normal(shape) + 1j * rng.standard_normal(shape)
        if icase % 5 == 0:  # low rank matrix
            Tm = np.outer(Tm[:, 0], Tm[0, :])
        for r in {1, min(shape), int(rng.integers(1, min(shape) + 1))}:
            check("derank", cadzow.derank, ref_derank, Tm, r)
    # edge cases: real trajectory matrix, rank too large (IndexError), rank 0, float rank, wrong sizes
    x, y = layout(rng, 2, 6)
    WAV = rng.standard_normal((12, 3)) + 1j * rng.standard_normal((12, 3))
    Tm = rng.standard_normal((4, 6))
    for r in (0, 1, 4, 5, 99, 2.0, np.int32(2), -1):
        check("derank", cadzow.derank, ref_derank, Tm, r)
        check("derank", cadzow.derank, ref_derank, Tm.astype(np.complex64), r)
        check("denoise", cadzow.denoise, ref_denoise, WAV, x, y, r)
    check("denoise", cadzow.denoise, ref_denoise, WAV.real, x, y, 2)
    check("denoise", cadzow.denoise, ref_denoise, WAV, x[:-1], y[:-1], 2)
    check("denoise", cadzow.denoise, ref_denoise, WAV, x, y, 2, niter=0)
    check("denoise", cadzow.denoise, ref_denoise, WAV, x, y, 2, niter=2.0)
    check("denoise", cadzow.denoise, ref_denoise, WAV, list(x), list(y), 2)
    check("trajectory", cadzow.trajectory, ref_trajectory, list(x), list(y))
    check("trajectory", cadzow.trajectory, ref_trajectory, x, y[:-1])
    check("trajectory", cadzow.trajectory, ref_trajectory, x[:1], y[:1])
    check("trajectory", cadzow.trajectory, ref_trajectory, np.array([]), np.array([]))


def test_svd(rng):
    for icase in range(60):
        nc = int(rng.integers(4, 49))
        ns = int(rng.integers(3, 80))
        dtype = [np.float64, np.float32][icase % 2]
        datr = rng.standard_normal((nc, ns)).astype(dtype)
        if icase % 3 == 0:  # low rank data
            k = int(rng.integers(1, 4))
            datr = (rng.standard_normal((nc, k)) @ rng.standard_normal((k, ns))).astype(dtype)
        check("svd_denoise_npx", voltage.svd_denoise_npx, ref_svd_denoise_npx, datr)
        for rank in (1, nc, int(rng.integers(1, nc + 1)), 0, None, nc * 3, rng.uniform(1, nc)):
            check("svd_denoise_npx", voltage.svd_denoise_npx, ref_svd_denoise_npx, datr, rank=rank)
        ncol = int(rng.integers(1, 5))
        collection = rng.integers(0, ncol, nc)
        check("svd_denoise_npx", voltage.svd_denoise_npx, ref_svd_denoise_npx, datr, rank=int(rng.integers(1, nc + 1)),
              collection=collection)
        check("svd_denoise_npx", voltage.svd_denoise_npx, ref_svd_denoise_npx, datr, int(rng.integers(1, nc + 1)),
              np.sort(collection).astype(float))
        check("svd_denoise_npx", voltage.svd_denoise_npx, ref_svd_denoise_npx, datr, collection=np.arange(nc) % 2)
    datr = rng.standard_normal((8, 20))
    check("svd_denoise_npx", voltage.svd_denoise_npx, ref_svd_denoise_npx, datr, rank=2, collection=np.zeros(7))
    check("svd_denoise_npx", voltage.svd_denoise_npx, ref_svd_denoise_npx, datr, rank=2, collection=list(np.arange(8) % 2))
    check("svd_denoise_npx", voltage.svd_denoise_npx, ref_svd_denoise_npx, datr.astype(int), rank=2)
    check("svd_denoise_npx", voltage.svd_denoise_npx, ref_svd_denoise_npx, datr[0], rank=2)
    check("svd_denoise_npx", voltage.svd_denoise_npx, ref_svd_denoise_npx, datr, rank=-2)


def test_smooth(rng):
    windows = ["flat", "hanning", "hamming", "bartlett", "blackman"]
    for icase in range(80):
        n = int(rng.integers(12, 400))
        ts = [rng.standard_normal(n), np.full(n, rng.uniform(-5, 5)), np.cumsum(rng.standard_normal(n)),
              rng.standard_normal(n).astype(np.float32), rng.integers(-100, 100, n)][icase % 5]
        f0 = rng.uniform(0.02, 0.6)
        check("lp", smooth.lp, ref_lp, ts, [f0, f0 + rng.uniform(0.01, 0.3)])
        check("lp", smooth.lp, ref_lp, ts, np.array([f0, f0 * 1.5]), pad=rng.uniform(0.01, 1))
        check("lp", smooth.lp, ref_lp, ts, (f0, f0 * 1.2), rng.uniform(0.01, 1))
        wl = int(rng.integers(3, min(n, 60)))
        check("rolling_window", smooth.rolling_window, ref_rolling_window, ts)
        check("rolling_window", smooth.rolling_window, ref_rolling_window, ts, wl, windows[icase % 5])
        check("rolling_window", smooth.rolling_window, ref_rolling_window, list(ts), window_len=wl | 1,
              window=windows[(icase + 2) % 5])
        check("rolling_window", smooth.rolling_window, ref_rolling_window, ts, window_len=n, window=windows[(icase + 1) % 5])
    ts = rng.standard_normal(50)
    check("lp", smooth.lp, ref_lp, ts, [0.1, 0.15], pad=0)  # empty result
    check("lp", smooth.lp, ref_lp, ts, [0.1, 0.15], pad=-0.1)
    check("lp", smooth.lp, ref_lp, np.tile(ts[:, np.newaxis], (1, 3)), [0.1, 0.15])
    check("lp", smooth.lp, ref_lp, list(ts), [0.1, 0.15])
    check("lp", smooth.lp, ref_lp, ts, [0.1])
    check("lp", smooth.lp, ref_lp, ts[:1], [0.1, 0.2])
    for wl in (0, 1, 2, 3, 4, 49, 50, 51, -3):
        for w in windows:
            check("rolling_window", smooth.rolling_window, ref_rolling_window, ts, wl, w)
    for w in ("kaiser", "ones", "", None, 3, "Blackman", "flat "):
        check("rolling_window", smooth.rolling_window, ref_rolling_window, ts, 11, w)
        check("rolling_window", smooth.rolling_window, ref_rolling_window, ts, 2, w)
    check("rolling_window", smooth.rolling_window, ref_rolling_window, ts.reshape(5, 10))
    check("rolling_window", smooth.rolling_window, ref_rolling_window, ts[:5])
    check("rolling_window", smooth.rolling_window, ref_rolling_window, [])
    check("rolling_window", smooth.rolling_window, ref_rolling_window, tuple(ts))
    check("rolling_window", smooth.rolling_window, ref_rolling_window, ts, 7.0, "flat")
    check("rolling_window", smooth.rolling_window, ref_rolling_window, ts, 7.0, "hanning")
    check("rolling_window", smooth.rolling_window, ref_rolling_window, ts.astype(np.complex128), 7, "hanning")


def test_savgol(rng):
    for icase in range(90):
        window = int(rng.integers(1, 8)) * 2 + 1
        order = int(rng.integers(0, min(window, 6)))
        n = int(rng.integers(window, window + 60))
        x = np.cumsum(rng.uniform(0.05, 2, n)) + rng.uniform(-10, 10)
        if icase % 3 == 0:  # polynomial of degree at most order
            y = np.polyval(rng.standard_normal(int(rng.integers(0, order + 1)) + 1), x - x.mean())
        elif icase % 3 == 1:
            y = np.sin(x / 3) + 0.1 * rng.standard_normal(n)
        else:
            y = rng.standard_normal(n)
        check("non_uniform_savgol", smooth.non_uniform_savgol, ref_non_uniform_savgol, x, y, window, order)
        if icase % 4 == 0:
            check("non_uniform_savgol", smooth.non_uniform_savgol, ref_non_uniform_savgol, list(x), list(y),
                  window=window, polynom=order)
        if icase % 4 == 1:
            check("non_uniform_savgol", smooth.non_uniform_savgol, ref_non_uniform_savgol, np.arange(n), y.astype(np.float32),
                  window, order)
        # nan patterns
        ns = int(rng.integers(window + 8, window + 120))
        sig = np.sin(np.arange(ns) / 7) + 0.1 * rng.standard_normal(ns)
        pattern = icase % 4
        if pattern == 0:
            sig[rng.random(ns) < 0.15] = np.nan
        elif pattern == 1:
            i0 = int(rng.integers(0, ns - 5))
            sig[i0: i0 + int(rng.integers(1, 6))] = np.nan
        elif pattern == 2:
            sig[:2] = np.nan
            sig[-3:] = np.nan
        kind = ["cubic", "linear", "quadratic", "nearest"][icase % 4]
        check("smooth_interpolate_savgol", smooth.smooth_interpolate_savgol, ref_smooth_interpolate_savgol, sig,
              window=window, order=order, interp_kind=kind)
        if icase % 10 == 0:
            check("smooth_interpolate_savgol", smooth.smooth_interpolate_savgol, ref_smooth_interpolate_savgol,
                  np.r_[sig, sig][:80] if ns < 80 else sig[:80])
    # exceptions and edge cases
    x = np.cumsum(rng.uniform(0.1, 1, 30))
    y = rng.standard_normal(30)
    bad = [
        (x, y[:-1], 5, 2), (x[:4], y[:4], 5, 2), (x, y, 5.0, 2), (x, y, np.int64(5), 2), (x, y, 6, 2), (x, y, 5, 2.0),
        (x, y, 5, np.int64(2)), (x, y, 5, 5), (x, y, 5, 7), (x, y, True, 0), (x, y, 5, False), (x, y, 1, 0),
        (x[:5], y[:5], 5, 2), (x[:6], y[:6], 5, 2), (x[:7], y[:7], 7, 0), (x, y, -3, -5), (x, y, 5, -1),
        (np.zeros(30), y, 5, 2), (x, y, 3, 2), (x[:1], y[:1], 1, 0), (x, np.full(30, np.nan), 5, 2), (x, y, "5", 2),
        (np.array([]), np.array([]), 1, 0),
    ]
    for args in bad:
        check("non_uniform_savgol", smooth.non_uniform_savgol, ref_non_uniform_savgol, *args)
    sig = rng.standard_normal(60)
    check("smooth_interpolate_savgol", smooth.smooth_interpolate_savgol, ref_smooth_interpolate_savgol, sig)
    check("smooth_interpolate_savgol", smooth.smooth_interpolate_savgol, ref_smooth_interpolate_savgol, sig[:20])
    check("smooth_interpolate_savgol", smooth.smooth_interpolate_savgol, ref_smooth_interpolate_savgol, sig, 30)
    check("smooth_interpolate_savgol", smooth.smooth_interpolate_savgol, ref_smooth_interpolate_savgol, sig, 7, 3, "foo")
    check("smooth_interpolate_savgol", smooth.smooth_interpolate_savgol, ref_smooth_interpolate_savgol,
          np.full(60, np.nan), 7, 3)
    check("smooth_interpolate_savgol", smooth.smooth_interpolate_savgol, ref_smooth_interpolate_savgol,
          sig.astype(np.float32), 7, 2, "linear")
    check("smooth_interpolate_savgol", smooth.smooth_interpolate_savgol, ref_smooth_interpolate_savgol, list(sig), 7, 2)


def test_venn(rng):
    for icase in range(42):
        num_sorters = 2 + icase % 2
        fs = [30000, 2500, 20000][icase % 3]
        duration = rng.uniform(0.2, 3)
        num_channels = [384, 96, 32][icase % 3]
        nbase = int(rng.integers(20, 600))
        base_s = np.sort(rng.integers(0, int(duration * fs), nbase))
        base_c = rng.integers(0, num_channels, nbase)
        samples, channels = [], []
        for _ in range(num_sorters):
            keep = rng.random(nbase) < rng.uniform(0.3, 1)
            keep[int(rng.integers(0, nbase))] = True
            s = base_s[keep] + rng.integers(-3, 4, keep.sum())
            c = base_c[keep] + rng.integers(-1, 2, keep.sum())
            nextra = int(rng.integers(0, 40))
            s = np.r_[s, rng.integers(0, int(duration * fs), nextra)]
            c = np.r_[c, rng.integers(0, num_channels, nextra)]
            s = np.clip(s, 0, None)
            c = np.clip(c, 0, num_channels - 1)
            order = np.argsort(s, kind="stable")
            s, c = s[order], c[order]
            if icase % 4 == 0:
                s, c = s.astype(float), c.astype(float)
            if icase % 4 == 1:
                s, c = s.astype(np.uint64), c.astype(np.int16)
            samples.append(s)
            channels.append(c)
        samples, channels = tuple(samples), tuple(channels)
        new = [spiketrains.spikes_venn2, spiketrains.spikes_venn3][num_sorters - 2]

        def ref(samples_tuple, channels_tuple, samples_binsize=None, channels_binsize=4, fs=30000, num_channels=384,
                chunk_size=None):
            return ref__spikes_venn(samples_tuple, channels_tuple, samples_binsize, channels_binsize, fs, num_channels,
                                    chunk_size, num_sorters)

        check("_spikes_venn", spiketrains._spikes_venn, ref__spikes_venn, samples, channels, None, 4, fs, num_channels,
              None, num_sorters)
        check("spikes_venn2/3", new, ref, samples, channels, fs=fs, num_channels=num_channels)
        for chunk_size in (int(rng.integers(fs // 20, fs)), int(duration * fs) + 1, 0):
            binsize = [None, int(rng.integers(2, 40)), 0][icase % 3]
            check("_spikes_venn", spiketrains._spikes_venn, ref__spikes_venn, samples, channels, binsize,
                  int(rng.integers(1, 9)), fs, num_channels, chunk_size, num_sorters)
        check("_spikes_venn", spiketrains._spikes_venn, ref__spikes_venn, list(samples), list(channels), 12, 4, float(fs),
              num_channels, None, num_sorters)
    # edge cases
    s = (np.array([10, 20, 20, 30000]), np.array([11, 20, 500]))
    c = (np.array([1, 2, 2, 3]), np.array([1, 2, 300]))
    check("_spikes_venn", spiketrains._spikes_venn, ref__spikes_venn, s, c, None, 4, 30000, 384, None, 2)
    check("_spikes_venn", spiketrains._spikes_venn, ref__spikes_venn, s, c, None, 4, 30000, 384, 1000, 2)
    check("_spikes_venn", spiketrains._spikes_venn, ref__spikes_venn, s, c, None, 4, 30000, 384, None, 3)  # IndexError
    check("_spikes_venn", spiketrains._spikes_venn, ref__spikes_venn, s + s[:1], c + c[:1], None, 4, 30000, 384, None, 2)
    check("_spikes_venn", spiketrains._spikes_venn, ref__spikes_venn, s, c + c[:1], None, 4, 30000, 384, None, 2)
    check("_spikes_venn", spiketrains._spikes_venn, ref__spikes_venn, s + s[:1], c, None, 4, 30000, 384, None, 2)
    check("_spikes_venn", spiketrains._spikes_venn, ref__spikes_venn, s, c, None, 4, 30000, 384, None, 1)
    check("_spikes_venn", spiketrains._spikes_venn, ref__spikes_venn, (s[0], np.array([])), (c[0], np.array([])), None, 4,
          30000, 384, None, 2)
    check("_spikes_venn", spiketrains._spikes_venn, ref__spikes_venn, (np.array([0]), np.array([0])),
          (np.array([0]), np.array([0])), None, 4, 30000, 384, None, 2)
    check("_spikes_venn", spiketrains._spikes_venn, ref__spikes_venn, (), (), None, 4, 30000, 384, None, 2)
    check("_spikes_venn", spiketrains._spikes_venn, ref__spikes_venn, s, c, 12.5, 4, 30000, 384, 2500.5, 2)
    check("_spikes_venn", spiketrains._spikes_venn, ref__spikes_venn, s, c, None, 4, 100, 384, None, 2)  # binsize 0


def test_stack(rng):
    aggs = [np.nanmean, np.mean, np.sum, np.median, np.nanmedian, np.max]
    for icase in range(70):
        ntr = int(rng.integers(1, 60))
        ns = int(rng.integers(1, 30))
        dtype = [np.float64, np.float32, np.int16, np.complex128][icase % 4]
        data = (rng.standard_normal((ntr, ns)) * 100).astype(dtype)
        if icase % 4 == 0 and ntr > 2:
            data[rng.integers(0, ntr), rng.integers(0, ns)] = np.nan
        word = [rng.integers(0, int(rng.integers(1, 8)), ntr), np.arange(ntr), np.zeros(ntr),
                rng.choice(np.array(["a", "bb", "c"]), ntr), np.round(rng.standard_normal(ntr), 0)][icase % 5]
        check("stack", voltage.stack, ref_stack, data, word)
        check("stack", voltage.stack, ref_stack, data, word=word, fcn_agg=aggs[icase % len(aggs)])
        header = {"x": rng.standard_normal(ntr), "cdp": rng.integers(0, 5, ntr), "f32": rng.random(ntr).astype(np.float32)}
        check("stack", voltage.stack, ref_stack, data, word, header=header)
        check("stack", voltage.stack, ref_stack, data, word, aggs[(icase + 1) % len(aggs)], header)
        check("stack", voltage.stack, ref_stack, data, list(word), header={})
    data = rng.standard_normal((6, 4))
    word = np.array([0, 1, 0, 1, 2, 2])
    check("stack", voltage.stack, ref_stack, data, word[:-1])
    check("stack", voltage.stack, ref_stack, data[0], word)
    check("stack", voltage.stack, ref_stack, data[:, :, np.newaxis], word)
    check("stack", voltage.stack, ref_stack, data, word, header={"x": np.arange(5)})
    check("stack", voltage.stack, ref_stack, data, word, header={"s": np.array(list("abcdef"))})
    check("stack", voltage.stack, ref_stack, data, word, header={"fold": np.arange(6), "stack_word": np.arange(6)})
    check("stack", voltage.stack, ref_stack, data, word, fcn_agg=None)
    check("stack", voltage.stack, ref_stack, data, word.reshape(2, 3))
    check("stack", voltage.stack, ref_stack, np.zeros((0, 4)), np.array([]))
    check("stack", voltage.stack, ref_stack, np.zeros((0, 4)), np.array([]), header={"x": np.array([])})


def main():
    for iseed, fcn in enumerate((test_cadzow, test_svd, test_smooth, test_savgol, test_venn, test_stack)):
        fcn(np.random.default_rng(20240 + iseed))
    total = sum(COUNTS.values())
    print(", ".join(f"{k}: {v} ({RAISED[k]} raising)" for k, v in COUNTS.items()))
    if FAILURES:
        print(f"DIFFERENT: {len(FAILURES)} of {total} comparisons differ")
        for f in FAILURES[:40]:
            print("  " + f)
        return 1
    print(f"IDENTICAL: {total} comparisons, all results identical to the original implementation")
    return 0


if __name__ == "__main__":
    sys.exit(main())
