import sys, os; sys.path.insert(0, os.path.join(os.path.dirname(os.path.abspath(__file__)), "src"))
"""
Differential equivalence check for the performance clean-up of the C20 functions:
    ibldsp.cadzow.derank, ibldsp.cadzow.denoise
    ibldsp.smooth.non_uniform_savgol, ibldsp.smooth.smooth_interpolate_savgol
    ibldsp.spiketrains._spikes_venn (through spikes_venn2 / spikes_venn3 as well)
    ibldsp.voltage.stack
The ref_* functions below are verbatim copies of the ORIGINAL implementations (only the names of the
functions and of the sibling functions they call were prefixed).  Results are compared exactly: same type,
dtype, shape and bytes, same exception type when one is raised, same state of the inputs after the call.
Exits 0 if everything is identical, 1 with a message otherwise.
"""
import contextlib
import copy
import io
import time
import warnings

import numpy as np
import pandas as pd
import tqdm
from scipy.interpolate import interp1d
from iblutil.numerical import bincount2D

import ibldsp.cadzow as cadzow
import ibldsp.smooth as smooth
import ibldsp.spiketrains as spiketrains
import ibldsp.voltage as voltage

warnings.filterwarnings("ignore")


# ------------------------------------------------------------------------------------------------
# reference implementations: verbatim copies of the original code
# ------------------------------------------------------------------------------------------------
def ref_derank(T, r):
    u, s, v = np.linalg.svd(T)
    # try non-integer rank as a proportion of singular values ?
    # ik = np.searchsorted(np.cumsum(s) / np.sum(s), KEEP)
    T_ = np.zeros_like(T)
    for i in np.arange(r):
        T_ += s[i] * np.outer(u.T[i], v[i])
    return T_


def ref_denoise(WAV, x, y, r, imax=None, niter=1):
    WAV_ = np.zeros_like(WAV)
    WAV0 = np.copy(WAV)
    imax = np.minimum(WAV.shape[-1], imax) if imax else WAV.shape[-1]
    T, it, itr, trcount = cadzow.trajectory(x, y)  # trajectory is not modified by the patch
    for _ in np.arange(niter):
        for ind_f in np.arange(imax):
            T[it] = WAV0[itr, ind_f]
            T_ = ref_derank(T, r)
            WAV_[:, ind_f] = np.bincount(itr, weights=np.real(T_[it]))
            WAV_[:, ind_f] += 1j * np.bincount(itr, weights=np.imag(T_[it]))
            WAV_[:, ind_f] /= trcount
        WAV0 = WAV_.copy()
    return WAV_


def ref_non_uniform_savgol(x, y, window, polynom):
    if len(x) != len(y):
        raise ValueError('"x" and "y" must be of the same size')
    if len(x) < window:
        raise ValueError("The data size must be larger than the window size")
    if type(window) is not int:
        raise TypeError('"window" must be an integer')
    if window % 2 == 0:
        raise ValueError('The "window" must be an odd integer')
    if type(polynom) is not int:
        raise TypeError('"polynom" must be an integer')
    if polynom >= window:
        raise ValueError('"polynom" must be less than "window"')

    half_window = window // 2
    polynom += 1

    # Initialize variables
    A = np.empty((window, polynom))  # Matrix
    tA = np.empty((polynom, window))  # Transposed matrix
    t = np.empty(window)  # Local x variables
    y_smoothed = np.full(len(y), np.nan)

    # Start smoothing
    for i in range(half_window, len(x) - half_window, 1):
        # Center a window of x values on x[i]
        for j in range(0, window, 1):
            t[j] = x[i + j - half_window] - x[i]

        # Create the initial matrix A and its transposed form tA
        for j in range(0, window, 1):
            r = 1.0
            for k in range(0, polynom, 1):
                A[j, k] = r
                tA[k, j] = r
                r *= t[j]

        # Multiply the two matrices
        tAA = np.matmul(tA, A)
        # Invert the product of the matrices
        tAA = np.linalg.inv(tAA)
        # Calculate the pseudoinverse of the design matrix
        coeffs = np.matmul(tAA, tA)
        # Calculate c0 which is also the y value for y[i]
        y_smoothed[i] = 0
        for j in range(0, window, 1):
            y_smoothed[i] += coeffs[0, j] * y[i + j - half_window]

        # If at the end or beginning, store all coefficients for the polynom
        if i == half_window:
            first_coeffs = np.zeros(polynom)
            for j in range(0, window, 1):
                for k in range(polynom):
                    first_coeffs[k] += coeffs[k, j] * y[j]
        elif i == len(x) - half_window - 1:
            last_coeffs = np.zeros(polynom)
            for j in range(0, window, 1):
                for k in range(polynom):
                    last_coeffs[k] += coeffs[k, j] * y[len(y) - window + j]

    # Interpolate the result at the left border
    for i in range(0, half_window, 1):
        y_smoothed[i] = 0
        x_i = 1
        for j in range(0, polynom, 1):
            y_smoothed[i] += first_coeffs[j] * x_i
            x_i *= x[i] - x[half_window]

    # Interpolate the result at the right border
    for i in range(len(x) - half_window, len(x), 1):
        y_smoothed[i] = 0
        x_i = 1
        for j in range(0, polynom, 1):
            y_smoothed[i] += last_coeffs[j] * x_i
            x_i *= x[i] - x[-half_window - 1]

    return y_smoothed


def ref_smooth_interpolate_savgol(signal, window=31, order=3, interp_kind="cubic"):
    signal_noisy_w_nans = np.copy(signal)
    timestamps = np.arange(signal_noisy_w_nans.shape[0])
    good_idxs = np.where(~np.isnan(signal_noisy_w_nans))[0]
    # perform savitzky-golay filtering on non-nan points
    signal_smooth_nonans = ref_non_uniform_savgol(
        timestamps[good_idxs],
        signal_noisy_w_nans[good_idxs],
        window=window,
        polynom=order,
    )
    signal_smooth_w_nans = np.copy(signal_noisy_w_nans)
    signal_smooth_w_nans[good_idxs] = signal_smooth_nonans
    # interpolate nan points
    interpolater = interp1d(
        timestamps[good_idxs],
        signal_smooth_nonans,
        kind=interp_kind,
        fill_value="extrapolate",
    )
    signal = interpolater(timestamps)

    return signal


def ref__spikes_venn(
    samples_tuple,
    channels_tuple,
    samples_binsize,
    channels_binsize,
    fs,
    num_channels,
    chunk_size,
    num_sorters,
):
    """
    Internal spike venn generation for n sorters.
    """
    if not samples_binsize:
        # set default: 0.4 ms
        samples_binsize = int(0.4 * fs / 1000)

    if not chunk_size:
        # set default: 20 s
        chunk_size = 20 * fs

    # find the timestamp of the last spike detected by any of the sorters
    # to calibrate chunking
    max_samples = max([np.max(samples) for samples in samples_tuple])
    num_chunks = int((max_samples // chunk_size) + 1)

    # each spike falls into one of 7 conditions based on whether it was found
    # by different sortings
    cond_names = [format(i, f"0{num_sorters}b") for i in range(1, 2**num_sorters)]
    pre_result = np.zeros(2**num_sorters - 1, int)
    vec = np.array([2**i for i in range(num_sorters - 1, -1, -1)])

    print(f"Running spike venning routine with {num_chunks} chunks.")
    for ch in tqdm.tqdm(range(num_chunks)):
        # select spikes within this chunk's time snippet
        sample_offset = ch * chunk_size
        spike_indices = [
            slice(
                *np.searchsorted(samples, [sample_offset, sample_offset + chunk_size])
            )
            for samples in samples_tuple
        ]
        # get corresponding spike sample times and channels
        samples_chunks = [
            samples[spike_indices[i]].astype(int) - sample_offset
            for i, samples in enumerate(samples_tuple)
        ]
        channels_chunks = [
            channels[spike_indices[i]].astype(int)
            for i, channels in enumerate(channels_tuple)
        ]

        # compute fast 2D bin count for each sorter, resulting in an (3, num_bins)
        # array where the (i, j) number is the number of spikes found by sorter i
        # in (linearized) bin j.
        bin_counts = np.array(
            [
                bincount2D(
                    samples_chunks[i],
                    channels_chunks[i],
                    samples_binsize,
                    channels_binsize,
                    [0, chunk_size],
                    [0, num_channels],
                )[0].flatten()
                for i in range(num_sorters)
            ]
        )

        # this process iteratively counts the number of spikes falling into each
        # of the 7 conditions by separating out which spikes must have been found
        # by each spike sorter within each bin, and updates the master `pre_result`
        # count array for this chunk
        max_per_spike = np.amax(bin_counts, axis=0)
        overall_max = np.max(max_per_spike)

        for i in range(0, overall_max):
            ind = max_per_spike - i > 0
            venn_info = bin_counts[:, ind] >= (max_per_spike - i)[ind]
            venn_info_int = vec @ venn_info
            conds, counts = np.unique(venn_info_int, return_counts=True)
            pre_result[conds - 1] += counts

    return dict(zip(cond_names, pre_result))


def ref_stack(data, word, fcn_agg=np.nanmean, header=None):
    (ntr, ns) = data.shape
    group, uinds, fold = np.unique(word, return_inverse=True, return_counts=True)
    ntrs = group.size

    stack = np.zeros((ntrs, ns), dtype=data.dtype)
    for sind in np.arange(ntrs):
        i2stack = sind == uinds
        stack[sind, :] = fcn_agg(data[i2stack, :], axis=0)

    # aggregate the header using pandas
    if header is None:
        hstack = fold
    else:
        header["stack_word"] = word
        dfh = pd.DataFrame(header).groupby("stack_word")
        hstack = dfh.aggregate("mean").to_dict(orient="series")
        hstack = {k: hstack[k].values for k in hstack.keys()}
        hstack["fold"] = fold

    return stack, hstack


# ------------------------------------------------------------------------------------------------
# exact comparison machinery
# ------------------------------------------------------------------------------------------------
def identical(a, b, path="result"):
    """Returns None if a and b are exactly the same, a message otherwise"""
    if type(a) is not type(b):
        return f"{path}: type {type(a)} != {type(b)}"
    if isinstance(a, dict):
        if list(a.keys()) != list(b.keys()):
            return f"{path}: keys {list(a.keys())} != {list(b.keys())}"
        for k in a:
            msg = identical(a[k], b[k], f"{path}[{k!r}]")
            if msg:
                return msg
        return None
    if isinstance(a, (tuple, list)):
        if len(a) != len(b):
            return f"{path}: length {len(a)} != {len(b)}"
        for i, (ai, bi) in enumerate(zip(a, b)):
            msg = identical(ai, bi, f"{path}[{i}]")
            if msg:
                return msg
        return None
    if isinstance(a, (np.ndarray, np.generic)):
        a_, b_ = (np.asarray(a), np.asarray(b))
        if a_.dtype != b_.dtype:
            return f"{path}: dtype {a_.dtype} != {b_.dtype}"
        if a_.shape != b_.shape:
            return f"{path}: shape {a_.shape} != {b_.shape}"
        if a_.dtype == object:
            ok = all(identical(p, q) is None for p, q in zip(a_.ravel(), b_.ravel()))
        else:
            # bit for bit: stricter than np.array_equal (signed zeros and NaN are told apart)
            ok = np.ascontiguousarray(a_).tobytes() == np.ascontiguousarray(b_).tobytes()
            if ok and a_.dtype.kind not in "fc":
                ok = bool(np.array_equal(a_, b_))
        if not ok:
            return f"{path}: values differ"
        return None
    if a != b and not (a != a and b != b):
        return f"{path}: {a!r} != {b!r}"
    return None


N_CASES = {}
FAILURES = []


def run(fcn, args, kwargs):
    out = io.StringIO()
    try:
        with contextlib.redirect_stdout(out), contextlib.redirect_stderr(io.StringIO()):
            res = fcn(*args, **kwargs)
        return ("ok", res, out.getvalue())
    except Exception as e:  # noqa
        return ("raised", type(e), out.getvalue())


def check(label, new, ref, *args, **kwargs):
    """Calls both implementations on private copies of the inputs and compares everything"""
    N_CASES[label] = N_CASES.get(label, 0) + 1
    args_new, kwargs_new = copy.deepcopy((args, kwargs))
    args_ref, kwargs_ref = copy.deepcopy((args, kwargs))
    status_new, res_new, out_new = run(new, args_new, kwargs_new)
    status_ref, res_ref, out_ref = run(ref, args_ref, kwargs_ref)
    msg = None
    if status_new != status_ref:
        msg = f"{status_new} {res_new!r} instead of {status_ref} {res_ref!r}"
    elif status_new == "raised":
        if res_new is not res_ref:
            msg = f"raised {res_new!r} instead of {res_ref!r}"
    else:
        msg = identical(res_new, res_ref)
    if msg is None and out_new != out_ref:
        msg = f"printed {out_new!r} instead of {out_ref!r}"
    if msg is None:
        # same state of the inputs afterwards (none of the functions may alter them differently)
        msg = identical(args_new, args_ref, "args") or identical(kwargs_new, kwargs_ref, "kwargs")
    if msg is not None:
        FAILURES.append(f"{label} case {N_CASES[label]}: {msg}")
    return status_ref


# ------------------------------------------------------------------------------------------------
# input generators
# ------------------------------------------------------------------------------------------------
def test_derank(rng):
    for icase in range(160):
        m, n = rng.integers(1, 24, size=2)
        kind = icase % 5
        if kind == 0:
            T = rng.standard_normal((m, n))
        elif kind == 1:
            T = (rng.standard_normal((m, n)) + 1j * rng.standard_normal((m, n))).astype(np.complex64)
        elif kind == 2:
            T = rng.standard_normal((m, n)).astype(np.float32)
        else:
            T = rng.standard_normal((m, n)) + 1j * rng.standard_normal((m, n))
        if icase % 7 == 0:  # rank deficient with exact zeros
            T[:, : n // 2] = 0
        if icase % 11 == 0:  # low rank
            T = np.outer(T[:, 0], T[0, :])
        r = int(rng.integers(0, min(m, n) + 1))
        if icase % 13 == 0:
            r = min(m, n) + 1  # IndexError
        check("derank", cadzow.derank, ref_derank, T, r)
    # all zeros, negative zeros, integers (casting error as soon as r > 0), empty, numpy integer rank
    check("derank", cadzow.derank, ref_derank, np.zeros((4, 5), dtype=np.complex128), 3)
    check("derank", cadzow.derank, ref_derank, -np.zeros((5, 4)), 2)
    check("derank", cadzow.derank, ref_derank, np.arange(12).reshape(3, 4), 0)
    check("derank", cadzow.derank, ref_derank, np.arange(12).reshape(3, 4), 2)
    check("derank", cadzow.derank, ref_derank, np.zeros((0, 4)), 0)
    check("derank", cadzow.derank, ref_derank, rng.standard_normal((6, 6)), np.int64(6))
    check("derank", cadzow.derank, ref_derank, rng.standard_normal((6, 6)), -1)


def layout(ncols, nrows, rng, shuffle=False, missing=0):
    col = np.tile(np.arange(ncols), nrows)
    row = np.repeat(np.arange(nrows), ncols)
    x = np.array([11.0, 27.0, 43.0, 59.0])[col]
    y = row * 20.0
    sel = np.arange(x.size)
    if shuffle:
        sel = rng.permutation(sel)
    if missing:
        sel = sel[missing:]
    return x[sel], y[sel]


def test_denoise(rng):
    # NB: each call spends about 0.2 s in the (unchanged) trajectory function, hence the moderate number of cases
    for icase in range(30):
        ncols = int(rng.integers(1, 5))
        nrows = int(rng.integers(4, 41)) if icase % 10 == 0 else int(rng.integers(4, 13))
        x, y = layout(ncols, nrows, rng, shuffle=icase % 3 == 0, missing=int(icase % 4 == 0) * int(rng.integers(0, 3)))
        nc = x.size
        nf = int(rng.integers(1, 9))
        kx, ky = rng.uniform(-0.05, 0.05, size=2)
        plane = np.exp(2j * np.pi * (kx * x + ky * y))[:, np.newaxis] * rng.standard_normal(nf)
        noise = rng.standard_normal((nc, nf)) + 1j * rng.standard_normal((nc, nf))
        WAV = plane + [0, 0.1, 1][icase % 3] * noise
        if icase % 9 == 0:
            WAV = WAV.astype(np.complex64)
        if icase % 17 == 0:
            WAV = np.asfortranarray(WAV)
        r = int(rng.integers(1, 6))
        imax = [None, 0, 1, nf, nf + 3, int(rng.integers(1, nf + 1)), np.int64(2)][icase % 7]
        niter = [1, 1, 2, 3, 0][icase % 5]
        check("denoise", cadzow.denoise, ref_denoise, WAV, x, y, r, imax=imax, niter=niter)
    # full rank: r as large as the smallest dimension of the trajectory matrix, and beyond (IndexError)
    for ncols, nrows in ((1, 4), (4, 5), (3, 8)):
        x, y = layout(ncols, nrows, rng)
        WAV = rng.standard_normal((x.size, 3)) + 1j * rng.standard_normal((x.size, 3))
        rfull = min(cadzow.trajectory(x, y)[0].shape)
        for r in (rfull, rfull + 1, 0):
            check("denoise", cadzow.denoise, ref_denoise, WAV, x, y, r)
        check("denoise", cadzow.denoise, ref_denoise, WAV, x, y, rfull, niter=2)
    # real input: the imaginary part can not be cast, same exception
    x, y = layout(2, 6, rng)
    check("denoise", cadzow.denoise, ref_denoise, rng.standard_normal((12, 4)), x, y, 2)
    check("denoise", cadzow.denoise, ref_denoise, np.zeros((12, 0), dtype=complex), x, y, 2)
    check("denoise", cadzow.denoise, ref_denoise, np.zeros((12, 3), dtype=complex), x, y, 2, niter=2)


def test_savgol(rng):
    nok = 0
    for icase in range(260):
        n = int(rng.integers(1, 90))
        window = int(rng.choice([1, 3, 5, 7, 9, 11, 15, 21, 31]))
        polynom = int(rng.integers(0, 6))
        if icase % 4 != 0:  # mostly admissible combinations
            window = min(window, max(1, ((n - 1) // 2) * 2 - 1))
            polynom = min(polynom, window - 1)
        kind = icase % 8
        x = np.cumsum(rng.uniform(0.05, 2.0, size=n)) + rng.uniform(-100, 100)
        if kind == 1:
            x = np.sort(rng.choice(np.arange(-50, 5 * n + 50), size=n, replace=False)).astype(np.int64)
        elif kind == 2:
            x = x.astype(np.float32)
        elif kind == 3:
            x = np.arange(n)  # uniform spacing
        elif kind == 4:
            x = np.sort(rng.choice(np.arange(0, 4 * n + 4), size=n, replace=False)).astype(np.int32)
        deg = int(rng.integers(0, 4))
        y = np.polyval(rng.standard_normal(deg + 1), (np.asarray(x, dtype=float) - np.mean(x)) / (1 + np.ptp(x)))
        y = y + [0, 1e-3, 1][icase % 3] * rng.standard_normal(n)
        ykind = (icase // 8) % 6
        if ykind == 1:
            y = y.astype(np.float32)
        elif ykind == 2:
            y = np.round(y * 1000).astype(np.int64)
        elif ykind == 3:
            y = np.full(n, -0.0)  # sum of negative zeros
        elif ykind == 4:
            y = np.full(n, rng.standard_normal())  # constant
        if icase % 16 == 5:
            x, y = (x.tolist(), y.tolist())
        elif icase % 16 == 13:
            y = y.tolist()
        status = check("non_uniform_savgol", smooth.non_uniform_savgol, ref_non_uniform_savgol, x, y, window, polynom)
        nok += status == "ok"
    x = np.cumsum(rng.uniform(0.1, 1, size=40))
    y = rng.standard_normal(40)
    f, g = (smooth.non_uniform_savgol, ref_non_uniform_savgol)
    check("non_uniform_savgol", f, g, x, y[:-1], 5, 2)  # sizes differ
    check("non_uniform_savgol", f, g, x, y, 41, 2)  # window too large
    check("non_uniform_savgol", f, g, x[:5], y[:5], 5, 2)  # a single window: no last coefficients
    check("non_uniform_savgol", f, g, x[:1], y[:1], 1, 0)  # a single sample
    check("non_uniform_savgol", f, g, x, y, 1, 0)  # window of one sample
    check("non_uniform_savgol", f, g, x, y, 5.0, 2)  # window not an int
    check("non_uniform_savgol", f, g, x, y, np.int64(5), 2)  # window not an int
    check("non_uniform_savgol", f, g, x, y, 6, 2)  # even window
    check("non_uniform_savgol", f, g, x, y, 5, 2.0)  # order not an int
    check("non_uniform_savgol", f, g, x, y, 5, 5)  # order too large
    check("non_uniform_savgol", f, g, x, y, 5, 4)  # exact interpolation
    check("non_uniform_savgol", f, g, x, y, 5, -1)  # no coefficient at all
    check("non_uniform_savgol", f, g, x, y, 5, -3)  # negative dimension
    check("non_uniform_savgol", f, g, x[:0], y[:0], 1, 0)  # empty
    check("non_uniform_savgol", f, g, np.zeros(20), y[:20], 5, 2)  # singular matrices
    check("non_uniform_savgol", f, g, np.repeat(x[:10], 2), y[:20], 5, 3)  # repeated abscissae
    check("non_uniform_savgol", f, g, x * 1e6, y * 1e-6, 7, 5)  # badly conditioned
    ynan = y.copy()
    ynan[[3, 17]] = np.nan
    ynan[25] = np.inf
    check("non_uniform_savgol", f, g, x, ynan, 7, 2)  # non finite values propagate the same way
    assert nok > 150, nok


def test_smooth_interpolate(rng):
    nok = 0
    for icase in range(90):
        n = int(rng.integers(12, 150))
        signal = np.cumsum(rng.standard_normal(n)) + 5 * np.sin(np.arange(n) / 7)
        pattern = icase % 6
        if pattern == 1:
            signal[rng.random(n) < 0.2] = np.nan
        elif pattern == 2:
            i0 = int(rng.integers(0, n - 5))
            signal[i0: i0 + int(rng.integers(1, 12))] = np.nan  # a gap
        elif pattern == 3:
            signal[: int(rng.integers(1, 5))] = np.nan  # leading and trailing NaNs: extrapolation
            signal[-int(rng.integers(1, 5)):] = np.nan
        elif pattern == 4:
            signal[rng.random(n) < 0.9] = np.nan  # not enough samples left most of the time
        elif pattern == 5:
            signal = np.round(signal).astype(np.int64)
        if icase % 10 == 7:
            signal = signal.astype(np.float32)
        window = int(rng.choice([5, 7, 11, 31]))
        order = int(rng.integers(1, 4))
        interp_kind = ["cubic", "linear", "quadratic"][icase % 3]
        status = check(
            "smooth_interpolate_savgol", smooth.smooth_interpolate_savgol, ref_smooth_interpolate_savgol,
            signal, window=window, order=order, interp_kind=interp_kind)
        nok += status == "ok"
    signal = np.sin(np.arange(80) / 5)
    signal[10:20] = np.nan
    check("smooth_interpolate_savgol", smooth.smooth_interpolate_savgol, ref_smooth_interpolate_savgol, signal)
    check("smooth_interpolate_savgol", smooth.smooth_interpolate_savgol, ref_smooth_interpolate_savgol, signal * np.nan)
    check("smooth_interpolate_savgol", smooth.smooth_interpolate_savgol, ref_smooth_interpolate_savgol, signal.tolist())
    check("smooth_interpolate_savgol", smooth.smooth_interpolate_savgol, ref_smooth_interpolate_savgol, signal[:, np.newaxis])
    assert nok > 50, nok


def spike_trains(rng, num_sorters, fs, num_channels, duration):
    n0 = int(rng.integers(1, 400))
    s0 = np.sort(rng.integers(0, max(2, int(duration * fs)), size=n0))
    c0 = rng.integers(0, num_channels, size=n0)
    samples, channels = ([], [])
    for _ in range(num_sorters):
        keep = rng.random(n0) < rng.uniform(0.3, 1)
        extra = int(rng.integers(0, 100))
        s = np.r_[s0[keep] + rng.integers(-3, 4, size=keep.sum()), rng.integers(0, max(2, int(duration * fs)), size=extra)]
        c = np.r_[c0[keep] + rng.integers(-1, 2, size=keep.sum()), rng.integers(0, num_channels, size=extra)]
        if rng.random() < 0.3:  # bursts: several spikes of a sorter in the same bin
            s, c = (np.r_[s, s[:30], s[:10]], np.r_[c, c[:30], c[:10]])
        s = np.clip(s, 0, None)
        c = np.clip(c, 0, num_channels - 1)
        order = np.argsort(s, kind="stable")
        samples.append(s[order])
        channels.append(c[order])
    return tuple(samples), tuple(channels)


def test_spikes_venn(rng):
    for icase in range(150):
        num_sorters = 2 + icase % 2
        fs = int(rng.choice([2500, 30000]))
        num_channels = int(rng.choice([16, 96, 384]))
        duration = rng.uniform(0.01, 0.5)
        chunk_size = [None, int(rng.integers(50, 5000)), int(duration * fs) + 10, 1000, 12][icase % 5]
        samples_binsize = [None, int(rng.integers(1, 60)), 12][icase % 3]
        channels_binsize = int(rng.choice([1, 4, 7]))
        # keep the demo light: at most 200 chunks and 200 000 bins per chunk
        duration = min(duration, 200 * (chunk_size or 20 * fs) / fs)
        while (chunk_size or 20 * fs) / (samples_binsize or int(0.4 * fs / 1000)) * num_channels / channels_binsize > 2e5:
            samples_binsize = (samples_binsize or int(0.4 * fs / 1000)) * 2
        samples, channels = spike_trains(rng, num_sorters, fs, num_channels, duration)
        if icase % 10 == 3:
            samples = tuple(s.astype(np.float64) + 0.25 for s in samples)
        if icase % 10 == 6:
            samples = tuple(s.astype(np.uint64) for s in samples)
            channels = tuple(c.astype(np.int16) for c in channels)
        if icase % 25 == 9:  # one sorter without any spike: same exception
            samples = (samples[0][:0],) + samples[1:]
            channels = (channels[0][:0],) + channels[1:]
        if icase % 25 == 14:  # a channel out of range: same exception
            channels = (channels[0] + 3 * num_channels,) + channels[1:]
        check("_spikes_venn", spiketrains._spikes_venn, ref__spikes_venn, samples, channels,
              samples_binsize, channels_binsize, fs, num_channels, chunk_size, num_sorters)
        if icase % 3 == 0:
            public = spiketrains.spikes_venn2 if num_sorters == 2 else spiketrains.spikes_venn3

            def ref_public(samples_tuple, channels_tuple, samples_binsize=None, channels_binsize=4, fs=30000,
                           num_channels=384, chunk_size=None, n=num_sorters):
                return ref__spikes_venn(samples_tuple, channels_tuple, samples_binsize, channels_binsize, fs,
                                        num_channels, chunk_size, n)
            check("spikes_venn2/3", public, ref_public, samples, channels, samples_binsize=samples_binsize,
                  channels_binsize=channels_binsize, fs=fs, num_channels=num_channels, chunk_size=chunk_size)
    # identical trains, a single spike, all spikes in the same bin, spikes only in the last chunk
    s = np.array([5, 5, 5, 6, 700, 701, 9000])
    c = np.array([1, 1, 2, 1, 30, 30, 95])
    for chunk_size in (None, 100, 640, 9001):
        check("_spikes_venn", spiketrains._spikes_venn, ref__spikes_venn, (s, s), (c, c), None, 4, 30000, 96, chunk_size, 2)
        check("_spikes_venn", spiketrains._spikes_venn, ref__spikes_venn, (s, s[:1], s[-1:]), (c, c[:1], c[-1:]),
              None, 4, 30000, 96, chunk_size, 3)
        check("_spikes_venn", spiketrains._spikes_venn, ref__spikes_venn, (s[:3], s[:3] + 1), (c[:3], c[:3]),
              24, 8, 30000, 96, chunk_size, 2)


def agg_first(d, axis=0):
    """An aggregate that depends on the order of the traces within the group"""
    return d[0] - d[-1] * 0.5 + np.cumsum(d, axis=axis)[-1]


def test_stack(rng):
    fcns = [np.nanmean, np.mean, np.sum, np.median, np.nanmedian, np.max, agg_first]
    for icase in range(140):
        ntr = int(rng.integers(1, 60))
        ns = int(rng.integers(0, 12)) if icase % 9 == 0 else int(rng.integers(1, 12))
        data = rng.standard_normal((ntr, ns)) * 10
        dkind = icase % 6
        if dkind == 1:
            data = data.astype(np.float32)
        elif dkind == 2:
            data = np.round(data).astype(np.int16)
        elif dkind == 3:
            data[rng.random(data.shape) < 0.2] = np.nan
        elif dkind == 4:
            data = np.asfortranarray(data)
        elif dkind == 5:
            data = rng.standard_normal((ntr, 2 * ns))[:, ::2]
        ngroups = int(rng.integers(1, ntr + 1))
        word = rng.integers(-3, ngroups - 3, size=ntr)
        wkind = (icase // 6) % 5
        if wkind == 1:
            word = word.astype(np.float64) / 3
            word[rng.random(ntr) < 0.1] = np.nan
        elif wkind == 2:
            word = np.array([f"cdp{w}" for w in word])
        elif wkind == 3:
            word = np.sort(word)
        elif wkind == 4:
            word = word.astype(np.uint8)
        header = None
        if icase % 4 == 1:
            header = {"offset": rng.standard_normal(ntr), "trace": np.arange(ntr)}
        elif icase % 4 == 3:
            word = word.tolist()
        check("stack", voltage.stack, ref_stack, data, word, fcn_agg=fcns[icase % len(fcns)], header=header)
    check("stack", voltage.stack, ref_stack, np.zeros((0, 4)), np.zeros(0, dtype=int))
    check("stack", voltage.stack, ref_stack, np.zeros((0, 4)), np.zeros(0, dtype=int), header={"a": np.zeros(0)})
    check("stack", voltage.stack, ref_stack, rng.standard_normal((6, 4)), np.zeros(6))  # a single group
    check("stack", voltage.stack, ref_stack, rng.standard_normal((6, 4)), np.arange(6)[::-1])  # fold of one
    check("stack", voltage.stack, ref_stack, rng.standard_normal((6, 4)), np.arange(6) % 2, header={"a": np.arange(5)})
    check("stack", voltage.stack, ref_stack, rng.standard_normal(6), np.arange(6) % 2)  # data not 2D
    check("stack", voltage.stack, ref_stack, rng.standard_normal((6, 4)), np.arange(7) % 2)  # a label too many
    check("stack", voltage.stack, ref_stack, rng.standard_normal((6, 4)), np.arange(6) % 2, fcn_agg=np.linalg.norm)


if __name__ == "__main__":
    t0 = time.time()
    rng = np.random.default_rng(20240520)
    for test in (test_derank, test_denoise, test_savgol, test_smooth_interpolate, test_spikes_venn, test_stack):
        test(rng)
    ncases = sum(N_CASES.values())
    print(", ".join(f"{k}: {v}" for k, v in N_CASES.items()))
    if FAILURES:
        print(f"{len(FAILURES)} / {ncases} cases DIFFER from the original implementation:")
        for failure in FAILURES[:40]:
            print("   ", failure)
        sys.exit(1)
    print(f"all {ncases} cases identical to the original implementation ({time.time() - t0:.1f} s)")
    sys.exit(0)
