import sys, os; sys.path.insert(0, os.path.join(os.path.dirname(os.path.abspath(__file__)), "src"))
"""
C20 - spike-coincidence counting attributes every spike of every sorter to exactly one Venn
region regardless of chunking.

The spike trains below are a short snippet cut from the middle of a recording (absolute sample
numbers, first spike well after sample 0) that straddles a chunk boundary.  The oracle is the
definition: for every sorter, the Venn regions that include it must add up to the number of spikes
this sorter found, and the region counts must equal a brute-force NumPy per-bin peeling done on
the whole snippet at once (no chunking at all).
"""
os.environ.setdefault("TQDM_DISABLE", "1")
import contextlib
import io

import numpy as np

from ibldsp import spiketrains

FS = 30000
BIN_S = 12  # 0.4 ms
BIN_C = 4
NCH = 20


def oracle(samples_tuple, channels_tuple):
    """Brute force: global bins, per-bin max-count peeling, no chunks."""
    ns = len(samples_tuple)
    keys = [
        (np.asarray(s) // BIN_S).astype(np.int64) * 1000 + np.asarray(c) // BIN_C
        for s, c in zip(samples_tuple, channels_tuple)
    ]
    ubins = np.unique(np.concatenate(keys))
    counts = np.zeros((ns, ubins.size), dtype=int)
    for i, k in enumerate(keys):
        np.add.at(counts[i], np.searchsorted(ubins, k), 1)
    names = [format(i, f"0{ns}b") for i in range(1, 2**ns)]
    res = dict.fromkeys(names, 0)
    for b in range(ubins.size):
        c = counts[:, b].copy()
        while c.max() > 0:
            who = c >= c.max()
            res["".join("1" if w else "0" for w in who)] += 1
            c[who] -= 1
    return res


def check(title, samples_tuple, channels_tuple, chunk_size):
    ns = len(samples_tuple)
    fcn = spiketrains.spikes_venn2 if ns == 2 else spiketrains.spikes_venn3
    with contextlib.redirect_stdout(io.StringIO()):
        venn = fcn(samples_tuple, channels_tuple, samples_binsize=BIN_S, channels_binsize=BIN_C,
                   fs=FS, num_channels=NCH, chunk_size=chunk_size)
    venn = {k: int(v) for k, v in venn.items()}
    errors = []
    for i in range(ns):
        attributed = sum(v for k, v in venn.items() if k[i] == "1")
        if attributed != samples_tuple[i].size:
            errors.append(
                f"  sorter {i + 1}: {samples_tuple[i].size} spikes given, {attributed} attributed"
                f" to Venn regions ({samples_tuple[i].size - attributed} lost)"
            )
    expected = oracle(samples_tuple, channels_tuple)
    if venn != expected:
        errors.append(f"  regions {venn}\n  oracle  {expected}")
    if errors:
        print(f"FAIL {title} (chunk_size={chunk_size})")
        print("\n".join(errors))
    else:
        print(f"ok   {title} (chunk_size={chunk_size})")
    return len(errors) == 0


def snippet(rng, first, last, rates):
    samples, channels = [], []
    for r in rates:
        n = int((last - first) / r)
        s = np.sort(rng.integers(first, last, size=n))
        # make sure every sorter covers the snippet from end to end
        s[0], s[-1] = first, last - 1
        samples.append(s)
        channels.append(rng.integers(NCH, size=n))
    return tuple(samples), tuple(channels)


def main():
    rng = np.random.default_rng(20)
    ok = True
    # control: snippet at the start of the recording, single chunk and several chunks
    st, ct = snippet(rng, 30, 30000, (30, 20, 15))
    ok &= check("3 sorters, snippet at the start of the recording", st, ct, None)
    ok &= check("3 sorters, snippet at the start of the recording", st, ct, 6000)
    # a 20000 samples snippet, 35 s into the recording, 1 s chunks: it starts at 0.83 of chunk 34
    # and stops at 0.5 of chunk 35
    first = 34 * FS + 25000
    st, ct = snippet(rng, first, first + 20000, (30, 20, 15))
    ok &= check("3 sorters, snippet 35 s into the recording", st, ct, FS)
    ok &= check("2 sorters, snippet 35 s into the recording", st[:2], ct[:2], FS)
    # the same spikes, other chunk sizes: the answer may not depend on it
    ok &= check("3 sorters, snippet 35 s into the recording", st, ct, 6000)
    ok &= check("3 sorters, snippet 35 s into the recording", st, ct, None)
    if not ok:
        print("spikes_venn: some spikes are attributed to no Venn region depending on chunking")
        return 1
    print("every spike attributed to exactly one Venn region for all chunk sizes")
    return 0


if __name__ == "__main__":
    sys.exit(main())
