import sys, os; sys.path.insert(0, os.path.join(os.path.dirname(os.path.abspath(__file__)), "src"))
"""
C20: the non-uniform Savitzky-Golay filter reproduces polynomials up to its order exactly,
for any sample spacing and any admissible length / window.

Oracle: the polynomial itself (plain NumPy).  A local least-squares fit of order >= degree to
samples of a polynomial returns that polynomial, whatever the abscissae, so the filter output
must equal the input at every sample, borders included.
"""
import numpy as np

import ibldsp.smooth as smooth

rng = np.random.default_rng(20)
bad = []


def check(n, window, order, degree):
    # random irregular, strictly increasing abscissae
    x = np.cumsum(rng.uniform(0.5, 1.5, n))
    u = (x - x[0]) / (x[-1] - x[0]) * 2 - 1  # polynomial written in a well-scaled variable
    c = rng.uniform(1, 2, degree + 1) * rng.choice([-1, 1], degree + 1)
    y = np.polynomial.polynomial.polyval(u, c)
    out = smooth.non_uniform_savgol(x, y, window, order)
    ok_shape = out.shape == y.shape
    err = np.abs(out - y) / np.max(np.abs(y)) if ok_shape else np.array([np.inf])
    tol = 1e-7
    status = "ok " if (ok_shape and np.all(err < tol)) else "BAD"
    print(f"{status} n={n:6d} window={window:2d} order={order} degree={degree}: "
          f"max rel. error {np.nanmax(err):.3e}")
    if status == "BAD":
        ibad = np.where(~(err < tol))[0]
        bad.append((n, window, order, degree, ibad))
        print(f"     polynomial not reproduced at samples {ibad.tolist()} (of 0..{n - 1}); "
              f"expected {y[ibad][:3]}, got {out[ibad][:3]}")


# short series
for n in (9, 50, 400):
    check(n, window=7, order=3, degree=3)
# long series: pupil / paw traces filtered by smooth_interpolate_savgol are routinely > 1e4 samples
check(4102, window=7, order=3, degree=3)
check(5000, window=7, order=3, degree=3)
check(5000, window=11, order=2, degree=2)
check(9001, window=5, order=1, degree=1)

if bad:
    print("FAIL: non_uniform_savgol does not reproduce polynomials of degree <= order "
          f"for {len(bad)} of the admissible (length, window, order) tried")
    sys.exit(1)
print("PASS: polynomials up to the filter order are reproduced for every length tried")
sys.exit(0)
